//go:build verif

package partition

import (
	"encoding/json"
	"fmt"
	"math/rand"
	"os"
	"strings"
	"testing"

	"verifharness/core"
)

type replayCase struct {
	ID     string         `json:"id"`
	System string         `json:"system"`
	Events []core.Event   `json:"events"`
	Cfg    map[string]any `json:"cfg"`
}

type replayFile struct {
	Property string       `json:"property"`
	Cases    []replayCase `json:"cases"`
}

type runStats struct {
	Systems     int                `json:"systems"`
	Nodes       int                `json:"nodes"`
	Edges       int                `json:"edges"`
	Chains      int                `json:"chains"`
	ChainEvents int                `json:"chain_events"`
	Closed      int                `json:"closed_systems"`
	Panics      []core.PanicRecord `json:"panics"`
	PerSystem   map[string][3]int  `json:"per_system"`
}

// Catalogue: configurations whose transition tables are extracted (until closed).
func Catalogue(tier string) []*PSystem {
	l := []*PSystem{
		{name: "mgr-n2-hold", Kind: "mgr", Retries: 2, QSize: 2, NMac: 2, Modes: []string{"ok", "hold"}, Hold: true, RdFail: true},
		{name: "mgr-n1-cap1", Kind: "mgr", Retries: 1, QSize: 1, NMac: 2, Modes: []string{"ok", "flaky", "fail"}},
		{name: "mgr-n3", Kind: "mgr", Retries: 3, QSize: 2, NMac: 1, Modes: []string{"ok"}, RdFail: true},
		{name: "mgr-n1-hgate", Kind: "mgr", Retries: 1, QSize: 1, NMac: 1, Modes: []string{"ok"}, HGate: true},
		{name: "rq-cap2", Kind: "queue", Retries: 1, QSize: 2, NMac: 3, Modes: []string{"ok", "flaky", "fail"}},
		{name: "cfl-a", Kind: "cfl", Retries: 1, QSize: 1, NMac: 1, Modes: []string{"ok"}, Scen: []int{0, 1, 3, 4, 5}},
		{name: "cfl-b", Kind: "cfl", Retries: 1, QSize: 1, NMac: 1, Modes: []string{"ok"}, Scen: []int{2, 6, 7, 8}},
	}
	if tier == "thorough" {
		l = append(l,
			&PSystem{name: "mgr-n2-all", Kind: "mgr", Retries: 2, QSize: 2, NMac: 3, Modes: []string{"ok", "flaky", "hold"}, Hold: true},
			&PSystem{name: "mgr-n2-hgate-hold", Kind: "mgr", Retries: 2, QSize: 1, NMac: 1, Modes: []string{"ok", "hold"}, Hold: true, HGate: true},
			&PSystem{name: "rq-cap3", Kind: "queue", Retries: 1, QSize: 3, NMac: 3, Modes: []string{"ok", "flaky", "fail"}},
		)
	}
	return l
}

// ChainCatalogue: configurations driven by long seeded random sequences.
func ChainCatalogue() []*PSystem {
	return []*PSystem{
		{name: "rnd-mgr", Kind: "mgr", Retries: 2, QSize: 3, NMac: 4, Modes: []string{"ok", "flaky", "fail", "hold"}, Hold: true, RdFail: true},
		{name: "rnd-mgr-hgate", Kind: "mgr", Retries: 1, QSize: 2, NMac: 3, Modes: []string{"ok", "flaky", "hold"}, Hold: true, HGate: true},
		{name: "rnd-rq", Kind: "queue", Retries: 1, QSize: 3, NMac: 4, Modes: []string{"ok", "flaky", "fail"}},
		{name: "rnd-cfl", Kind: "cfl", Retries: 2, QSize: 1, NMac: 1, Modes: []string{"ok"}, Scen: []int{0, 1, 2, 3, 4, 5, 6, 7, 8}},
	}
}

func find(name string) *PSystem {
	for _, s := range append(Catalogue("thorough"), ChainCatalogue()...) {
		if s.name == name {
			return s
		}
	}
	return nil
}

// fromCfg rebuilds a system from the cfg of a replay case (design counterexamples carry their own constants).
func fromCfg(name string, cfg map[string]any) *PSystem {
	if cfg == nil || cfg["hkind"] == nil {
		return nil
	}
	b := func(k string) bool { v, _ := cfg[k].(bool); return v }
	s := &PSystem{name: name, Kind: fmt.Sprint(cfg["hkind"]), Retries: toInt(cfg["retries"]), QSize: toInt(cfg["qsize"]), NMac: toInt(cfg["nmac"]),
		Hold: b("hold"), HGate: b("hgate"), RdFail: b("rdfail")}
	if l, ok := cfg["modes"].([]any); ok {
		for _, m := range l {
			s.Modes = append(s.Modes, fmt.Sprint(m))
		}
	}
	if len(s.Modes) == 0 {
		s.Modes = []string{"ok"}
	}
	if l, ok := cfg["scen"].([]any); ok {
		for _, k := range l {
			s.Scen = append(s.Scen, toInt(k))
		}
	}
	return s
}

// randomChain draws events with health ticks three times as likely as any other event and keeps the
// number of ticks below the bound of the virtual-time grid.
func randomChain(sys *PSystem, rng *rand.Rand, n int) []core.Event {
	evs := sys.Events()
	var weighted []core.Event
	for _, e := range evs {
		w := 1
		if e["op"] == "tick" || e["op"] == "adv" || e["op"] == "proc" {
			w = 3
		}
		for i := 0; i < w; i++ {
			weighted = append(weighted, e)
		}
	}
	var out []core.Event
	ticks := 0
	for len(out) < n {
		e := weighted[rng.Intn(len(weighted))]
		if e["op"] == "tick" {
			if ticks >= MaxTicks-5 {
				continue
			}
			ticks++
		}
		out = append(out, e)
	}
	return out
}

func TestExplore(t *testing.T) {
	theT = t
	defer func() {
		harnessErrs.Lock()
		defer harnessErrs.Unlock()
		if len(harnessErrs.l) > 0 {
			t.Fatalf("harness cannot represent the observed behaviour (infrastructure failure, not a verdict):\n%s", strings.Join(harnessErrs.l, "\n"))
		}
	}()
	out := core.OutDir()
	if rf := os.Getenv("VERIF_REPLAY"); rf != "" {
		replay(t, rf, out)
		return
	}
	tier := core.Tier()
	seed := core.Seed()
	maxNodes := 4000
	if v := os.Getenv("VERIF_MAXNODES"); v != "" {
		fmt.Sscan(v, &maxNodes)
	}
	nchains, chainLen := 6, 150
	if tier == "thorough" {
		maxNodes = 40000
		nchains, chainLen = 40, 400
	}
	workers := 0
	if v := os.Getenv("VERIF_WORKERS"); v != "" {
		fmt.Sscan(v, &workers)
	}
	bundle := &core.Bundle{}
	st := runStats{PerSystem: map[string][3]int{}}
	for _, sys := range Catalogue(tier) {
		if only := os.Getenv("VERIF_ONLY"); only != "" && only != sys.Name() {
			continue
		}
		tab, panics, err := core.Explore(sys, core.ExploreOptions{MaxDepth: sys.MaxDepth, MaxNodes: maxNodes, AdequacySample: 20, Seed: seed, Workers: workers})
		if err != nil {
			t.Fatalf("explore %s: %v", sys.Name(), err)
		}
		st.Panics = append(st.Panics, panics...)
		bundle.Systems = append(bundle.Systems, tab)
		ne := 0
		for _, es := range tab.Edges {
			ne += len(es)
		}
		c := 0
		if tab.Closed {
			c = 1
			st.Closed++
		}
		st.PerSystem[sys.Name()] = [3]int{len(tab.Nodes), ne, c}
		st.Systems++
		st.Nodes += len(tab.Nodes)
		st.Edges += ne
	}
	rng := rand.New(rand.NewSource(seed))
	for _, sys := range ChainCatalogue() {
		if only := os.Getenv("VERIF_ONLY"); only != "" && only != sys.Name() {
			continue
		}
		for c := 0; c < nchains; c++ {
			seqv := randomChain(sys, rng, chainLen)
			tab, pr := core.Chain(sys, fmt.Sprintf("%s#%d", sys.Name(), c), seqv, false)
			if pr != nil {
				st.Panics = append(st.Panics, *pr)
				continue
			}
			bundle.Systems = append(bundle.Systems, tab)
			st.Chains++
			st.ChainEvents += len(seqv)
		}
	}
	// histories found by TLC on the implementation-shaped design spec, executed on the real code
	if xf := os.Getenv("VERIF_EXTRA_CASES"); xf != "" {
		b, err := os.ReadFile(xf)
		if err != nil {
			t.Fatal(err)
		}
		var rf replayFile
		if err := json.Unmarshal(b, &rf); err != nil {
			t.Fatal(err)
		}
		for _, c := range rf.Cases {
			sys := fromCfg(c.System, c.Cfg)
			if sys == nil {
				t.Fatalf("extra case %s: no configuration", c.ID)
			}
			tab, pr := core.Chain(sys, c.System+"#"+c.ID, c.Events, false)
			if pr != nil {
				st.Panics = append(st.Panics, *pr)
				continue
			}
			bundle.Systems = append(bundle.Systems, tab)
			st.Chains++
			st.ChainEvents += len(c.Events)
		}
	}
	if err := core.WriteJSON(out, "bundle.json", bundle); err != nil {
		t.Fatal(err)
	}
	if err := core.WriteJSON(out, "stats.json", st); err != nil {
		t.Fatal(err)
	}
}

func replay(t *testing.T, file, out string) {
	b, err := os.ReadFile(file)
	if err != nil {
		t.Fatal(err)
	}
	var rf replayFile
	if err := json.Unmarshal(b, &rf); err != nil {
		t.Fatal(err)
	}
	st := runStats{PerSystem: map[string][3]int{}}
	bundle := &core.Bundle{}
	for _, c := range rf.Cases {
		name := c.System
		if i := strings.IndexByte(name, '#'); i >= 0 {
			name = name[:i]
		}
		sys := find(name)
		if sys == nil {
			sys = fromCfg(name, c.Cfg)
		}
		if sys == nil {
			t.Fatalf("unknown system %q", c.System)
		}
		tab, pr := core.Chain(sys, name+"#"+c.ID, c.Events, false)
		if pr != nil {
			st.Panics = append(st.Panics, *pr)
			continue
		}
		bundle.Systems = append(bundle.Systems, tab)
		st.Chains++
		st.ChainEvents += len(c.Events)
	}
	if err := core.WriteJSON(out, "bundle.json", bundle); err != nil {
		t.Fatal(err)
	}
	core.WriteJSON(out, "stats.json", st)
}
