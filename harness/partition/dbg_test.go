//go:build verif

package partition

import (
	"fmt"
	"os"
	"testing"

	"verifharness/core"
)

type dbgSys struct{ *PSystem }

type dbgInst struct{ core.Instance }

func (d dbgInst) Fingerprint() string {
	fp := d.Instance.Fingerprint()
	i := len(fp)
	for j := 0; j+3 < len(fp); j++ {
		if fp[j:j+7] == "|fails=" {
			i = j
			break
		}
	}
	fmt.Fprintln(dbgOut, fp[i:])
	return fp
}
func (d dbgSys) New() core.Instance { return dbgInst{d.PSystem.New()} }

var dbgOut *os.File

func TestDbg(t *testing.T) {
	theT = t
	dbgOut, _ = os.Create(os.Getenv("VERIF_OUT") + "/fps.txt")
	sys := find(os.Getenv("VERIF_ONLY"))
	core.Explore(dbgSys{sys}, core.ExploreOptions{MaxNodes: 500, Seed: 1, Workers: 1})
}
