//go:build verif

// Package partition binds the Partition contract (specs/Partition) to the real
// resilience.Manager, resilience.RequestQueue and resilience.ConflictDetector of /repo, driven
// under testing/synctest virtual time. The manager's own goroutines (health check loop, queue
// expiry loop, the reconciliation goroutine it spawns on recovery) run unmodified; the harness
// supplies what production supplies through interfaces: the HealthChecker, the partition event
// handlers, the request handler, the AllocationStore and the conflict handler. Those are also the
// only places where the harness can hold a goroutine of the manager (a handler that does not
// return yet), so no hook in /repo is needed.
package partition

import (
	"context"
	"errors"
	"fmt"
	"net"
	"runtime"
	"runtime/debug"
	"sort"
	"strings"
	"sync"
	"testing"
	"testing/synctest"
	"time"

	"github.com/codelaboratoryltd/bng/pkg/resilience"
	"go.uber.org/zap"

	"verifharness/core"
)

// Virtual-time grid. The health check ticker fires at k*Quantum after Start, the queue expiry
// ticker every second, every harness action happens at k*Quantum+Half (an odd number of ms), a
// request queued by the harness expires at an even number of ms that is no multiple of 6 ms away
// from any tick, and a failing request handler returns on its own grid (FailPhase + i*FailSleep). So no comparison of the code
// (now.After(ExpiresAt), now.Before(ExpiresAt)) ever sees equal instants and no harness action
// coincides with a ticker (for fewer than MaxTicks health ticks per object).
const (
	Quantum   = 10002 * time.Millisecond
	Half      = 5001 * time.Millisecond
	TTL       = 22507 * time.Millisecond
	FailSleep = Quantum / 3 // a failing request handler returns at the next instant FailPhase + i*FailSleep: retries stay in
	FailPhase = 1111 * time.Millisecond // phase with the grid (the tables close) and never fall on a tick, a harness instant or an expiry
	Unit      = time.Millisecond
	MaxTicks  = 480
)

var theT *testing.T

var harnessErrs struct {
	sync.Mutex
	l []string
}

func harnessFail(msg string) {
	harnessErrs.Lock()
	if len(harnessErrs.l) < 20 {
		harnessErrs.l = append(harnessErrs.l, msg)
	}
	harnessErrs.Unlock()
}

// go1.25.0: the first WaitGroup.Add inside a bubble allocates a "bubble special" without holding
// the allocator's lock (see harness/failover); Manager.Start is serialised and the collector runs
// only while that lock is held.
var startMu sync.Mutex
var startCount int

func init() { debug.SetGCPercent(-1) }

func guarded(f func()) {
	startMu.Lock()
	defer startMu.Unlock()
	startCount++
	if startCount%3000 == 0 {
		runtime.GC()
	}
	f()
}

// PSystem is one configuration.
type PSystem struct {
	name     string
	Kind     string // "mgr": Manager (+ its queue); "queue": RequestQueue alone; "cfl": Manager + conflicts
	Retries  int
	QSize    int
	NMac     int
	Modes    []string // request handler modes in the alphabet ("ok" is the initial one)
	Hold     bool     // rel ok / rel fail (release a held request handler) in the alphabet
	HGate    bool     // hhold / hrel: the first event handler can be held on its next "online" event
	RdFail   bool     // a RADIUS-only failure in the alphabet
	Scen     []int    // conflict scenarios in the alphabet (kind "cfl")
	MaxDepth int
}

func (s *PSystem) Name() string { return s.name }

func (s *PSystem) Config() map[string]any {
	kind := s.Kind
	st0 := "online"
	if kind == "cfl" {
		kind = "mgr"
	}
	if kind == "queue" {
		st0 = "partitioned"
	}
	scen := []int{}
	scen = append(scen, s.Scen...)
	return map[string]any{"impl": s.name, "kind": kind, "hkind": s.Kind, "st0": st0, "retries": s.Retries, "qsize": s.QSize,
		"ttl": int(TTL / Unit), "nh": 2, "nmac": s.NMac, "modes": append([]string{}, s.Modes...), "hold": s.Hold, "hgate": s.HGate,
		"rdfail": s.RdFail, "scen": scen, "nsubs": 0}
}

func ev(op string, a int, ok bool) core.Event { return core.Event{"op": op, "a": a, "ok": ok} }

func (s *PSystem) Events() []core.Event {
	var evs []core.Event
	if s.Kind != "queue" {
		evs = append(evs, ev("tick", 0, true), ev("tick", 1, false)) // a: 0 healthy, 1 Nexus down, 2 RADIUS down
		if s.RdFail {
			evs = append(evs, ev("tick", 2, false))
		}
	}
	if s.Kind == "cfl" {
		for _, k := range s.Scen {
			evs = append(evs, ev("conf", k, true))
		}
		return evs
	}
	for m := 1; m <= s.NMac; m++ {
		evs = append(evs, ev("enq", m, true))
	}
	for i, md := range s.Modes {
		if md != "ok" || len(s.Modes) > 1 {
			evs = append(evs, ev("mode", i, true))
		}
	}
	if s.Hold {
		evs = append(evs, ev("rel", 0, true), ev("rel", 0, false))
	}
	if s.HGate {
		evs = append(evs, ev("hhold", 0, true), ev("hrel", 0, true))
	}
	if s.Kind == "queue" {
		evs = append(evs, ev("adv", 1, true), ev("deq", 0, true), ev("expire", 0, true), ev("proc", 0, true))
		for m := 1; m <= s.NMac; m++ {
			evs = append(evs, ev("rem", m, true))
		}
	}
	return evs
}

func (s *PSystem) Wrap(f func()) {
	synctest.Test(theT, func(t *testing.T) { f() })
}

// --- scripted environment ------------------------------------------------------------------

type checker struct {
	mu     sync.Mutex
	nexus  bool // down
	radius bool // down
	in     *inst
}

func (c *checker) CheckNexus(ctx context.Context) error {
	c.mu.Lock()
	defer c.mu.Unlock()
	if c.nexus {
		return errors.New("nexus unreachable")
	}
	return nil
}

// CheckRADIUS is the second call of one checkHealth: it completes the health check record.
func (c *checker) CheckRADIUS(ctx context.Context) error {
	c.mu.Lock()
	nx, rd := c.nexus, c.radius
	c.mu.Unlock()
	c.in.add(micro{kind: "chk", ok: !nx && !rd, at: time.Now()})
	if rd {
		return errors.New("radius unreachable")
	}
	return nil
}

type store struct {
	in     *inst
	remote []resilience.IPAllocation
}

func (s *store) GetLocalAllocations() []resilience.IPAllocation { return nil }
func (s *store) GetRemoteAllocations(ctx context.Context) ([]resilience.IPAllocation, error) {
	// DetectConflicts is the first thing performReconciliation does: one call = one reconciliation started
	s.in.add(micro{kind: "recon", at: time.Now()})
	s.in.mu.Lock()
	defer s.in.mu.Unlock()
	return append([]resilience.IPAllocation{}, s.remote...), nil
}
func (s *store) UpdateAllocation(ctx context.Context, a resilience.IPAllocation) error { return nil }
func (s *store) ReleaseAllocation(ctx context.Context, ip net.IP) error               { return nil }

type micro struct {
	kind string // chk | recon | ev | rq | cf
	h    int
	old  string
	new  string
	k    string // rq: start | end
	m    int
	ok   bool
	at   time.Time
	cf   map[string]any
}

type held struct {
	ch chan bool
	m  int
}

type inst struct {
	s   *PSystem
	mgr *resilience.Manager
	rq  *resilience.RequestQueue
	chk *checker
	st  *store
	t0  time.Time

	mu      sync.Mutex
	log     []micro
	mode    string
	flaked  map[int]bool
	rheld   []*held   // request handler invocations held (the code under test runs one at a time; a changed one may not)
	rsleep  time.Time // a failing request handler sleeps until
	rfl     int       // request handler invocations under way
	rflMac  int
	rflExp  time.Time // expiry of the request in the handler's hands
	hhold   bool      // the first event handler holds its next "online" event
	hheld   []chan struct{}
	hfl     int
	closing bool
	ticks   int
	scen    map[int]bool
}

func (in *inst) add(m micro) {
	in.mu.Lock()
	in.log = append(in.log, m)
	in.mu.Unlock()
}

func mac(m int) net.HardwareAddr { return net.HardwareAddr{0x02, 0, 0, 0, 0, byte(m)} }
func macIdx(h net.HardwareAddr) int {
	if len(h) == 6 {
		return int(h[5])
	}
	return 0
}

func (in *inst) onEvent(h int, e resilience.PartitionEvent) {
	in.mu.Lock()
	in.log = append(in.log, micro{kind: "ev", h: h, old: e.OldState.String(), new: e.NewState.String(), at: time.Now()})
	var ch chan struct{}
	if h == 1 && in.hhold && e.NewState == resilience.StateOnline && !in.closing {
		in.hhold = false // one event is held per hhold
		ch = make(chan struct{})
		in.hheld = append(in.hheld, ch)
		in.hfl++
	}
	in.mu.Unlock()
	if ch != nil {
		<-ch
		in.mu.Lock()
		in.hfl--
		in.mu.Unlock()
	}
}

var errScripted = errors.New("scripted failure")

func (in *inst) handle(ctx context.Context, req *resilience.QueuedRequest) error {
	m := macIdx(req.MAC)
	in.mu.Lock()
	in.log = append(in.log, micro{kind: "rq", k: "start", m: m, at: time.Now()})
	in.rfl++
	in.rflMac, in.rflExp = m, req.ExpiresAt
	mode := in.mode
	if in.closing {
		mode = "ok"
	}
	ok := true
	var h *held
	var sleep time.Duration
	switch mode {
	case "flaky": // fails the first attempt for a MAC, succeeds on the next one
		if !in.flaked[m] {
			in.flaked[m] = true
			ok = false
		} else {
			delete(in.flaked, m)
		}
	case "fail":
		ok = false
		sleep = FailSleep - (time.Since(in.t0)-FailPhase+FailSleep)%FailSleep
		in.rsleep = time.Now().Add(sleep)
	case "hold":
		h = &held{ch: make(chan bool), m: m}
		in.rheld = append(in.rheld, h)
	}
	in.mu.Unlock()
	if mode == "fail" {
		time.Sleep(sleep) // a request that fails takes time (ProcessAll would otherwise spin without time passing)
	}
	if h != nil {
		ok = <-h.ch
	}
	in.mu.Lock()
	in.rfl--
	in.log = append(in.log, micro{kind: "rq", k: "end", m: m, ok: ok, at: time.Now()})
	in.mu.Unlock()
	if !ok {
		return errScripted
	}
	return nil
}

func (in *inst) onConflict(c resilience.AllocationConflict) {
	k, side := scenOfIP(c.IP)
	aff := "none"
	if c.AffectedMAC != nil {
		switch c.AffectedMAC.String() {
		case c.LocalAlloc.MAC.String():
			aff = "local"
		case c.RemoteAlloc.MAC.String():
			aff = "remote"
		default:
			aff = "other"
		}
		if c.LocalAlloc.MAC.String() == c.RemoteAlloc.MAC.String() {
			aff = "same"
		}
	}
	in.add(micro{kind: "cf", at: time.Now(), cf: map[string]any{"k": k, "side": side, "res": string(c.Resolution), "aff": aff}})
}

// --- conflict scenarios ---------------------------------------------------------------------

type scenario struct {
	samemac, samesub, samesite, lpart, rpart bool
	cmp                                      string // which is more recent: local | remote | tie
}

// Scenarios: pairs of allocations of one IP. Every scenario is installed twice: "fwd" as listed and
// "rev" with local and remote swapped (what the other site sees).
var Scenarios = []scenario{
	0: {lpart: false, rpart: true, cmp: "remote"},                // local pre-partition, remote during partition
	1: {lpart: true, rpart: true, cmp: "local"},                  // both during partition, local newer
	2: {lpart: true, rpart: true, cmp: "tie"},                    // both during partition, equal timestamps
	3: {samemac: true, lpart: true, rpart: true, cmp: "local"},   // same MAC, other subscriber id
	4: {samemac: true, samesub: true, lpart: true, cmp: "local"}, // same subscriber: no conflict
	5: {samesite: true, lpart: true, rpart: true, cmp: "remote"}, // same site: no conflict
	6: {lpart: false, rpart: false, cmp: "remote"},               // neither during partition
	7: {samemac: true, lpart: false, rpart: true, cmp: "tie"},    // same MAC, equal timestamps
	8: {lpart: true, rpart: false, cmp: "local"},                 // local during partition and newer, remote pre-partition
}

func (sc scenario) rev() scenario {
	r := sc
	r.lpart, r.rpart = sc.rpart, sc.lpart
	switch sc.cmp {
	case "local":
		r.cmp = "remote"
	case "remote":
		r.cmp = "local"
	}
	return r
}

func scenIP(k int, side string) net.IP {
	b := byte(1)
	if side == "rev" {
		b = 2
	}
	return net.IPv4(10, 9, byte(k), b)
}

func scenOfIP(ip net.IP) (int, string) {
	v := ip.To4()
	if v == nil || v[0] != 10 || v[1] != 9 {
		return -1, "?"
	}
	if v[3] == 2 {
		return int(v[2]), "rev"
	}
	return int(v[2]), "fwd"
}

var epoch = time.Date(2000, 1, 1, 0, 0, 0, 0, time.UTC)

func (in *inst) install(k int) {
	for _, side := range []string{"fwd", "rev"} {
		sc := Scenarios[k]
		if side == "rev" {
			sc = sc.rev()
		}
		ip := scenIP(k, side)
		lt, rt := epoch.Add(-2*time.Hour), epoch.Add(-2*time.Hour)
		switch sc.cmp {
		case "local":
			lt = epoch.Add(-time.Hour)
		case "remote":
			rt = epoch.Add(-time.Hour)
		}
		lmac, rmac := net.HardwareAddr{0x02, 1, 0, 0, byte(k), 1}, net.HardwareAddr{0x02, 1, 0, 0, byte(k), 2}
		lsub, rsub := fmt.Sprintf("sub-%d-a", k), fmt.Sprintf("sub-%d-b", k)
		if side == "rev" { // the same two allocations, seen from the other site
			lmac, rmac = rmac, lmac
			lsub, rsub = rsub, lsub
		}
		if sc.samemac {
			rmac = lmac
		}
		if sc.samesub {
			rsub = lsub
		}
		rsite := "site-B"
		if sc.samesite {
			rsite = "site-A"
		}
		in.mgr.ConflictDetector().RecordAllocation(resilience.IPAllocation{IP: ip, MAC: lmac, SubscriberID: lsub, PoolID: "p", AllocatedAt: lt, IsPartition: sc.lpart})
		in.mu.Lock()
		in.st.remote = append(in.st.remote, resilience.IPAllocation{IP: ip, MAC: rmac, SubscriberID: rsub, PoolID: "p", AllocatedAt: rt, SiteID: rsite, IsPartition: sc.rpart})
		in.mu.Unlock()
	}
}

func (in *inst) installed() []map[string]any {
	out := []map[string]any{}
	ks := []int{}
	for k := range in.scen {
		ks = append(ks, k)
	}
	sort.Ints(ks)
	for _, k := range ks {
		for _, side := range []string{"fwd", "rev"} {
			sc := Scenarios[k]
			if side == "rev" {
				sc = sc.rev()
			}
			out = append(out, map[string]any{"k": k, "side": side, "samemac": sc.samemac, "samesub": sc.samesub, "samesite": sc.samesite,
				"lpart": sc.lpart, "rpart": sc.rpart, "cmp": sc.cmp})
		}
	}
	return out
}

// --- instance ---------------------------------------------------------------------------------

func (s *PSystem) New() core.Instance {
	in := &inst{s: s, mode: "ok", flaked: map[int]bool{}, scen: map[int]bool{}, t0: time.Now()}
	if s.Kind == "queue" {
		in.rq = resilience.NewRequestQueue(s.QSize, TTL, zap.NewNop())
		in.rq.SetHandler(in.handle)
		time.Sleep(Half)
		return in
	}
	cfg := resilience.DefaultPartitionConfig()
	cfg.HealthCheckInterval = Quantum
	cfg.HealthCheckTimeout = 2 * time.Second
	cfg.HealthCheckRetries = s.Retries
	cfg.RequestQueueSize = s.QSize
	cfg.RequestQueueTimeout = TTL
	cfg.ReconciliationTimeout = 10000 * time.Hour
	in.chk = &checker{in: in}
	in.mgr = resilience.NewManager(cfg, "site-A", in.chk, zap.NewNop())
	for h := 1; h <= 2; h++ {
		h := h
		in.mgr.OnPartitionChange(func(e resilience.PartitionEvent) { in.onEvent(h, e) })
	}
	in.mgr.OnConflict(in.onConflict)
	in.st = &store{in: in}
	in.mgr.ConflictDetector().SetStore(in.st)
	// Manager has no accessor for its request queue (production can therefore never install a request
	// handler; see the family's notes): reach it by reflection.
	in.rq = core.Field(in.mgr, "requestQueue").Interface().(*resilience.RequestQueue)
	in.rq.SetHandler(in.handle)
	guarded(func() {
		if err := in.mgr.Start(); err != nil {
			panic(err)
		}
	})
	time.Sleep(Half)
	synctest.Wait()
	return in
}

func stateName(m *resilience.Manager) string { return m.State().String() }

func (in *inst) state() string {
	if in.mgr == nil {
		return "partitioned"
	}
	return stateName(in.mgr)
}

func (in *inst) Apply(e core.Event) map[string]any {
	op := e["op"].(string)
	a := toInt(e["a"])
	okArg, _ := e["ok"].(bool)
	start := time.Now()
	in.mu.Lock()
	in.log = in.log[:0]
	in.mu.Unlock()
	acc, ret := true, 0
	inst := in.installed()
	switch op {
	case "tick":
		in.ticks++
		if in.ticks > MaxTicks {
			harnessFail(fmt.Sprintf("%s: more than %d health ticks on one object (the virtual-time grid repeats)", in.s.name, MaxTicks))
		}
		in.chk.mu.Lock()
		in.chk.nexus, in.chk.radius = a == 1, a == 2
		in.chk.mu.Unlock()
		time.Sleep(Quantum)
	case "adv":
		time.Sleep(time.Duration(a) * Quantum)
	case "enq":
		req := &resilience.QueuedRequest{ID: fmt.Sprintf("m%d", a), Type: resilience.RequestTypeDHCPDiscover, MAC: mac(a), SubscriberID: fmt.Sprintf("s%d", a)}
		if in.mgr != nil {
			acc = in.mgr.QueueRequest(req) == nil
		} else {
			acc = in.rq.Enqueue(req) == nil
		}
	case "deq":
		if r := in.rq.Dequeue(); r != nil {
			ret = macIdx(r.MAC)
		}
	case "rem":
		acc = in.rq.Remove(fmt.Sprintf("m%d", a))
	case "expire":
		ret = in.rq.ExpireOld()
	case "proc":
		ret = in.rq.ProcessAll(context.Background())
	case "mode":
		in.mu.Lock()
		if a >= 0 && a < len(in.s.Modes) {
			in.mode = in.s.Modes[a]
		}
		in.mu.Unlock()
	case "rel":
		in.mu.Lock()
		var h *held
		if len(in.rheld) > 0 {
			h = in.rheld[0]
			in.rheld = in.rheld[1:]
		}
		in.mu.Unlock()
		if h == nil {
			acc = false
		} else {
			h.ch <- okArg
		}
	case "hhold": // at most one event handler invocation is held at a time
		in.mu.Lock()
		if len(in.hheld) > 0 || in.hhold {
			acc = false
		} else {
			in.hhold = true
		}
		in.mu.Unlock()
	case "hrel":
		in.mu.Lock()
		var ch chan struct{}
		if len(in.hheld) > 0 {
			ch = in.hheld[0]
			in.hheld = in.hheld[1:]
		}
		in.mu.Unlock()
		if ch == nil {
			acc = false
		} else {
			close(ch)
		}
	case "conf":
		if !in.scen[a] {
			in.scen[a] = true
			in.install(a)
		} else {
			acc = false
		}
	default:
		panic("unknown op " + op)
	}
	synctest.Wait()
	// stay on the grid: a step that consumed a fraction of a quantum (ProcessAll with a sleeping handler) is padded
	if in.mgr == nil {
		if r := (time.Since(in.t0) - Half) % Quantum; r != 0 {
			time.Sleep(Quantum - r)
		}
	}
	d := time.Since(start)
	if d%Unit != 0 {
		harnessFail(fmt.Sprintf("%s: step %s took %v", in.s.name, op, d))
	}
	in.mu.Lock()
	defer in.mu.Unlock()
	chk, evs, rqs, cfs := []map[string]any{}, []map[string]any{}, []map[string]any{}, []map[string]any{}
	recons := 0
	for _, m := range in.log {
		off := int(m.at.Sub(start) / Unit)
		switch m.kind {
		case "chk":
			chk = append(chk, map[string]any{"ok": m.ok, "off": off})
		case "recon":
			recons++
		case "ev":
			evs = append(evs, map[string]any{"h": m.h, "old": m.old, "new": m.new, "off": off})
		case "rq":
			rqs = append(rqs, map[string]any{"k": m.k, "m": m.m, "ok": m.ok, "off": off})
		case "cf":
			cfs = append(cfs, m.cf)
		}
	}
	// DetectConflicts walks a map: the order of notifications within one reconciliation is not part of the behaviour
	sort.SliceStable(cfs, func(i, j int) bool {
		a, b := cfs[i], cfs[j]
		if a["k"].(int) != b["k"].(int) {
			return a["k"].(int) < b["k"].(int)
		}
		return a["side"].(string) < b["side"].(string)
	})
	if len(chk) > 1 {
		harnessFail(fmt.Sprintf("%s: %d health checks in one step", in.s.name, len(chk)))
	}
	return map[string]any{"acc": acc, "ret": ret, "dt": int(d / Unit), "st": in.state(), "chk": chk, "evs": evs, "hfl": in.hfl,
		"rqs": rqs, "rfl": in.rfl, "recons": recons, "qlen": in.rq.Len(), "cfs": cfs, "inst": inst}
}

func (in *inst) Observe() map[string]any {
	in.mu.Lock()
	defer in.mu.Unlock()
	head := 0
	if r := in.rq.Peek(); r != nil {
		head = macIdx(r.MAC)
	}
	return map[string]any{"st": in.state(), "qlen": in.rq.Len(), "head": head, "rfl": in.rfl, "hfl": in.hfl, "mode": in.mode,
		"partitioned": in.mgr != nil && in.mgr.IsPartitioned(), "nscen": len(in.scen)}
}

var fpOpt = &core.FPOptions{
	SkipFields: map[string]bool{
		// statistics no code path reads back
		"stats": true, "enqueued": true, "dequeued": true, "expired": true, "Retries": true,
		// sub-components that are not driven here
		"poolMonitor": true, "radiusHandler": true,
		// rendered separately
		"consecutiveFails": true, "requests": true, "byID": true, "byMAC": true, "healthChecker": true, "store": true,
		"conflicts": true,
	},
}

func rel(t time.Time, now time.Time) string {
	d := t.Sub(now)
	if d < 0 {
		return "past"
	}
	return d.String()
}

// Fingerprint: every field of the manager (reflection) + the queue's content with the time each
// request still has + the scripted environment + what is held or sleeping.
func (in *inst) Fingerprint() string {
	now := time.Now()
	var sb strings.Builder
	if in.mgr != nil {
		sb.WriteString(core.Fingerprint(in.mgr, fpOpt))
		cf := int(core.Field(in.mgr, "consecutiveFails").Int())
		if cf > in.s.Retries {
			cf = in.s.Retries
		}
		fmt.Fprintf(&sb, "|fails=%d", cf)
	}
	in.mu.Lock()
	defer in.mu.Unlock()
	sb.WriteString("|q=")
	for _, r := range in.rq.ListAll() {
		fmt.Fprintf(&sb, "%d:%s:%s,", macIdx(r.MAC), r.ID, rel(r.ExpiresAt, now))
	}
	fl := []string{}
	for m := range in.flaked {
		fl = append(fl, fmt.Sprint(m))
	}
	sort.Strings(fl)
	ks := []int{}
	for k := range in.scen {
		ks = append(ks, k)
	}
	sort.Ints(ks)
	fmt.Fprintf(&sb, "|mode=%s|flaked=%v|rfl=%d", in.mode, fl, in.rfl)
	if in.rfl > 0 {
		fmt.Fprintf(&sb, "|inhand=%d:%s|held=%d|sleep=%s", in.rflMac, rel(in.rflExp, now), len(in.rheld), rel(in.rsleep, now))
	}
	fmt.Fprintf(&sb, "|hhold=%t|hheld=%d|scen=%v", in.hhold, len(in.hheld), ks)
	// the scripted health flags are set anew by every tick before they are read: not part of the state
	return sb.String()
}

func (in *inst) Probe() map[string]any { return nil }

func (in *inst) Close() {
	in.mu.Lock()
	in.closing = true
	hs := in.rheld
	in.rheld = nil
	hh := in.hheld
	in.hheld = nil
	in.mu.Unlock()
	for _, h := range hs {
		h.ch <- true
	}
	for _, ch := range hh {
		close(ch)
	}
	synctest.Wait()
	if in.mgr != nil {
		in.mgr.Stop()
		time.Sleep(FailSleep + time.Second) // a sleeping request handler and the reconciliation goroutine run to completion
		synctest.Wait()
	}
}

func toInt(v any) int {
	switch x := v.(type) {
	case int:
		return x
	case int64:
		return int(x)
	case float64:
		return int(x)
	}
	return 0
}
