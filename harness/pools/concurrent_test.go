//go:build verif

package pools

import (
	"fmt"
	"math/rand"
	"sync"
	"sync/atomic"
	"testing"

	"verifharness/core"
)

// LinOp is one call of a concurrent history: Inv/Ret are positions in the global order of
// invocation and response events (taken from one atomic counter, the only clock used).
type LinOp struct {
	ID    int    `json:"id"`
	Op    string `json:"op"`
	Sub   int    `json:"sub"`
	Arg   int    `json:"arg"`
	Ok    bool   `json:"ok"`
	Unit  int    `json:"unit"`
	Err   string `json:"err"`
	Fault bool   `json:"fault"`
	Inv   int    `json:"inv"`
	Ret   int    `json:"ret"`
}

type LinHistory struct {
	Name string         `json:"name"`
	Cfg  map[string]any `json:"cfg"`
	Ops  []LinOp        `json:"ops"`
	// lookups observed after all calls returned
	Final []int `json:"final"`
}

func concurrentAdapters() []Adapter {
	return []Adapter{
		bitmapAdapter(G4_30), bitmapAdapter(G6_62), epochAdapter(G4_29, 1), distributedAdapter(G4_30, "session", 0), distributedAdapter(G4_29, "lease", 1),
		poolAllocatorAdapter(G4_30), localAllocatorAdapter(G4_30), dhcpPoolAdapter(G4_29, 0), v6AddrPoolAdapter(G6_125), v6PrefixPoolAdapter(G6_62), peerPoolAdapter(G4_29),
	}
}

// TestConcurrent runs small concurrent histories (3 goroutines x 2 calls over 3 subscribers, on pools
// small enough to be exhausted) on every thread-safe pool; TLC searches a linearization of each.
func TestConcurrent(t *testing.T) {
	out := core.OutDir()
	seed := core.Seed()
	n := 12
	if core.Tier() == "thorough" {
		n = 150
	}
	rng := rand.New(rand.NewSource(seed))
	var hs []LinHistory
	for _, a := range concurrentAdapters() {
		sys := NewPoolSystem(a, 3, []string{"alloc", "release", "renew"})
		evs := sys.Events()
		for h := 0; h < n; h++ {
			inst := sys.New().(*poolInst)
			// a random sequential prefix so the pool is partly used
			for i := rng.Intn(3); i > 0; i-- {
				inst.Apply(evs[rng.Intn(len(evs))])
			}
			pre := make([]int, 3)
			for s := 1; s <= 3; s++ {
				pre[s-1] = inst.im.lookup(a.subID(s))
			}
			var clock int64
			var mu sync.Mutex
			var ops []LinOp
			var wg sync.WaitGroup
			plans := make([][]core.Event, 3)
			for g := range plans {
				for k := 0; k < 2; k++ {
					plans[g] = append(plans[g], evs[rng.Intn(len(evs))])
				}
			}
			start := make(chan struct{})
			for g := 0; g < 3; g++ {
				wg.Add(1)
				go func(g int) {
					defer wg.Done()
					<-start
					for k, e := range plans[g] {
						inv := int(atomic.AddInt64(&clock, 1))
						r := inst.Apply(e)
						ret := int(atomic.AddInt64(&clock, 1))
						mu.Lock()
						ops = append(ops, LinOp{ID: g*2 + k + 1, Op: e["op"].(string), Sub: toInt(e["sub"]), Arg: toInt(e["arg"]), Ok: r["ok"].(bool), Unit: r["unit"].(int),
							Err: r["err"].(string), Fault: r["fault"].(bool), Inv: inv, Ret: ret})
						mu.Unlock()
					}
				}(g)
			}
			close(start)
			wg.Wait()
			final := make([]int, 3)
			for s := 1; s <= 3; s++ {
				final[s-1] = inst.im.lookup(a.subID(s))
			}
			cfg := sys.Config()
			cfg["pre"] = pre
			hs = append(hs, LinHistory{Name: fmt.Sprintf("%s#c%d", a.Name(), h), Cfg: cfg, Ops: ops, Final: final})
			inst.Close()
		}
	}
	if err := core.WriteJSON(out, "histories.json", map[string]any{"histories": hs}); err != nil {
		t.Fatal(err)
	}
}
