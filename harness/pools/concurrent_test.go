//go:build verif

package pools

import (
	"fmt"
	"math/rand"
	"sync"
	"sync/atomic"
	"testing"
	"time"

	"verifharness/core"
)

// LinOp is one call of a concurrent history: Inv/Ret are positions in the global order of
// invocation and response events (taken from one atomic counter, the only clock used).
type LinOp struct {
	ID    int    `json:"id"`
	Op    string `json:"op"`
	Sub   int    `json:"sub"`
	Arg   int    `json:"arg"`
	Ok    bool   `json:"ok"`
	Unit  int    `json:"unit"`
	Err   string `json:"err"`
	Fault bool   `json:"fault"`
	Inv   int    `json:"inv"`
	Ret   int    `json:"ret"`
}

type LinHistory struct {
	Name string         `json:"name"`
	Cfg  map[string]any `json:"cfg"`
	Ops  []LinOp        `json:"ops"`
	// lookups observed after all calls returned
	Final []int `json:"final"`
}

func concurrentAdapters() []Adapter {
	return []Adapter{
		bitmapAdapter(G4_30), bitmapAdapter(G6_62), epochAdapter(G4_29, 1), distributedAdapter(G4_30, "session", 0), distributedAdapter(G4_29, "lease", 1),
		poolAllocatorAdapter(G4_30), localAllocatorAdapter(G4_30), dhcpPoolAdapter(G4_29, 0), v6AddrPoolAdapter(G6_125), v6PrefixPoolAdapter(G6_62), peerPoolAdapter(G4_29),
	}
}

// TestConcurrent runs small concurrent histories (3 goroutines x 2 calls over 3 subscribers, on pools
// small enough to be exhausted) on every thread-safe pool; TLC searches a linearization of each.
func TestConcurrent(t *testing.T) {
	out := core.OutDir()
	seed := core.Seed()
	n := 12
	if core.Tier() == "thorough" {
		n = 150
	}
	rng := rand.New(rand.NewSource(seed))
	var hs []LinHistory
	for _, a := range concurrentAdapters() {
		sys := NewPoolSystem(a, 3, []string{"alloc", "release", "renew"})
		evs := sys.Events()
		for h := 0; h < n; h++ {
			inst := sys.New().(*poolInst)
			// a random sequential prefix so the pool is partly used
			for i := rng.Intn(3); i > 0; i-- {
				inst.Apply(evs[rng.Intn(len(evs))])
			}
			pre := make([]int, 3)
			for s := 1; s <= 3; s++ {
				pre[s-1] = inst.im.lookup(a.subID(s))
			}
			var clock int64
			var mu sync.Mutex
			var ops []LinOp
			var wg sync.WaitGroup
			plans := make([][]core.Event, 3)
			for g := range plans {
				for k := 0; k < 2; k++ {
					plans[g] = append(plans[g], evs[rng.Intn(len(evs))])
				}
			}
			start := make(chan struct{})
			for g := 0; g < 3; g++ {
				wg.Add(1)
				go func(g int) {
					defer wg.Done()
					<-start
					for k, e := range plans[g] {
						inv := int(atomic.AddInt64(&clock, 1))
						r := inst.Apply(e)
						ret := int(atomic.AddInt64(&clock, 1))
						mu.Lock()
						ops = append(ops, LinOp{ID: g*2 + k + 1, Op: e["op"].(string), Sub: toInt(e["sub"]), Arg: toInt(e["arg"]), Ok: r["ok"].(bool), Unit: r["unit"].(int),
							Err: r["err"].(string), Fault: r["fault"].(bool), Inv: inv, Ret: ret})
						mu.Unlock()
					}
				}(g)
			}
			close(start)
			wg.Wait()
			final := make([]int, 3)
			for s := 1; s <= 3; s++ {
				final[s-1] = inst.im.lookup(a.subID(s))
			}
			cfg := sys.Config()
			cfg["pre"] = pre
			hs = append(hs, LinHistory{Name: fmt.Sprintf("%s#c%d", a.Name(), h), Cfg: cfg, Ops: ops, Final: final})
			inst.Close()
		}
	}
	// directed schedules through the window between the in-memory allocation and its persistence (pools that expose
	// a gate on their store): subscriber 1's allocation is parked before its record is written, the SAME subscriber's
	// release is issued meanwhile (it either runs to the end or waits for the allocation), then another subscriber allocates
	for _, a := range concurrentAdapters() {
		sys := NewPoolSystem(a, 3, []string{"alloc", "release"})
		probe := sys.New().(*poolInst)
		gated := probe.im.gateSave != nil
		probe.Close()
		if !gated {
			continue
		}
		for h, pre := range [][]int{{}, {2}, {2, 3}, {}, {2}} {
			inside := h >= 3 // the other subscriber's allocation also happens inside the window
			inst := sys.New().(*poolInst)
			for _, s := range pre {
				inst.Apply(core.Event{"op": "alloc", "sub": s, "arg": -1})
			}
			prev := make([]int, 3)
			for s := 1; s <= 3; s++ {
				prev[s-1] = inst.im.lookup(a.subID(s))
			}
			var clock int64
			var ops []LinOp
			rec := func(id int, op string, sub int, r map[string]any, inv, ret int) {
				ops = append(ops, LinOp{ID: id, Op: op, Sub: sub, Arg: -1, Ok: r["ok"].(bool), Unit: r["unit"].(int), Err: r["err"].(string), Fault: r["fault"].(bool), Inv: inv, Ret: ret})
			}
			parked, open := inst.im.gateSave()
			type done struct {
				r   map[string]any
				ret int
			}
			allocDone, relDone := make(chan done, 1), make(chan done, 1)
			allocInv := int(atomic.AddInt64(&clock, 1))
			go func() {
				r := inst.Apply(core.Event{"op": "alloc", "sub": 1, "arg": -1})
				allocDone <- done{r, int(atomic.AddInt64(&clock, 1))}
			}()
			var ad, rd done
			select {
			case <-parked:
				relInv := int(atomic.AddInt64(&clock, 1))
				go func() {
					r := inst.Apply(core.Event{"op": "release", "sub": 1, "arg": -1})
					relDone <- done{r, int(atomic.AddInt64(&clock, 1))}
				}()
				select {
				case rd = <-relDone: // the release ran to its end inside the window
					if inside {
						inv := int(atomic.AddInt64(&clock, 1))
						r := inst.Apply(core.Event{"op": "alloc", "sub": 3, "arg": -1})
						rec(4, "alloc", 3, r, inv, int(atomic.AddInt64(&clock, 1)))
					}
					open()
					ad = <-allocDone
				case <-time.After(300 * time.Millisecond): // the release waits for the allocation (or the machine is slow): let the allocation go on
					open()
					ad = <-allocDone
					rd = <-relDone
				}
				rec(1, "alloc", 1, ad.r, allocInv, ad.ret)
				rec(2, "release", 1, rd.r, relInv, rd.ret)
			case ad = <-allocDone: // the allocation never reached the store (e.g. pool exhausted)
				open()
				rec(1, "alloc", 1, ad.r, allocInv, ad.ret)
			}
			inv := int(atomic.AddInt64(&clock, 1))
			r := inst.Apply(core.Event{"op": "alloc", "sub": 3 - len(pre)%2, "arg": -1})
			rec(3, "alloc", 3-len(pre)%2, r, inv, int(atomic.AddInt64(&clock, 1)))
			final := make([]int, 3)
			for s := 1; s <= 3; s++ {
				final[s-1] = inst.im.lookup(a.subID(s))
			}
			cfg := sys.Config()
			cfg["pre"] = prev
			hs = append(hs, LinHistory{Name: fmt.Sprintf("%s#gate%d", a.Name(), h), Cfg: cfg, Ops: ops, Final: final})
			inst.Close()
		}
	}
	// a store write that is slow and then fails, while the SAME subscriber asks again from another goroutine, then a new
	// subscriber allocates: whatever the second caller was told it holds must not be given away by the first caller's rollback
	for _, a := range concurrentAdapters() {
		sys := NewPoolSystem(a, 3, []string{"alloc", "release"})
		probe := sys.New().(*poolInst)
		gated := probe.im.gateSaveFail != nil
		probe.Close()
		if !gated {
			continue
		}
		for h, pre := range [][]int{{}, {3}} {
			inst := sys.New().(*poolInst)
			for _, s := range pre {
				inst.Apply(core.Event{"op": "alloc", "sub": s, "arg": -1})
			}
			prev := make([]int, 3)
			for s := 1; s <= 3; s++ {
				prev[s-1] = inst.im.lookup(a.subID(s))
			}
			var clock int64
			var ops []LinOp
			rec := func(id int, op string, sub int, r map[string]any, fault bool, inv, ret int) {
				ops = append(ops, LinOp{ID: id, Op: op, Sub: sub, Arg: -1, Ok: r["ok"].(bool), Unit: r["unit"].(int), Err: r["err"].(string), Fault: fault, Inv: inv, Ret: ret})
			}
			parked, open := inst.im.gateSaveFail()
			type done struct {
				r   map[string]any
				ret int
			}
			firstDone, secondDone := make(chan done, 1), make(chan done, 1)
			firstInv := int(atomic.AddInt64(&clock, 1))
			go func() {
				r := inst.Apply(core.Event{"op": "alloc", "sub": 1, "arg": -1})
				firstDone <- done{r, int(atomic.AddInt64(&clock, 1))}
			}()
			var fd, sd done
			select {
			case <-parked:
				secondInv := int(atomic.AddInt64(&clock, 1))
				go func() {
					r := inst.Apply(core.Event{"op": "alloc", "sub": 1, "arg": -1})
					secondDone <- done{r, int(atomic.AddInt64(&clock, 1))}
				}()
				select {
				case sd = <-secondDone: // the second caller was answered while the first one's write was pending
					open()
					fd = <-firstDone
				case <-time.After(300 * time.Millisecond): // the second caller waits for the first
					open()
					fd = <-firstDone
					sd = <-secondDone
				}
				rec(1, "alloc", 1, fd.r, true, firstInv, fd.ret) // its store write failed: a fault
				rec(2, "alloc", 1, sd.r, false, secondInv, sd.ret)
			case fd = <-firstDone:
				open()
				rec(1, "alloc", 1, fd.r, false, firstInv, fd.ret)
			}
			inv := int(atomic.AddInt64(&clock, 1))
			r := inst.Apply(core.Event{"op": "alloc", "sub": 2, "arg": -1})
			rec(3, "alloc", 2, r, false, inv, int(atomic.AddInt64(&clock, 1)))
			final := make([]int, 3)
			for s := 1; s <= 3; s++ {
				final[s-1] = inst.im.lookup(a.subID(s))
			}
			cfg := sys.Config()
			cfg["pre"] = prev
			hs = append(hs, LinHistory{Name: fmt.Sprintf("%s#failgate%d", a.Name(), h), Cfg: cfg, Ops: ops, Final: final})
			inst.Close()
		}
	}
	if err := core.WriteJSON(out, "histories.json", map[string]any{"histories": hs}); err != nil {
		t.Fatal(err)
	}
}
