//go:build verif

package pools

import (
	"context"
	"fmt"
	"sync"
	"time"

	"github.com/codelaboratoryltd/bng/pkg/allocator"

	"verifharness/core"
)

// TwoNodeSystem: two gateways (allocator.DistributedAllocator) sharing one store; every write of
// one node is announced to the other through the store's watch callback (synchronously), the
// epoch loop of both nodes ticks together (same period on both). The pool contract is applied
// to the SYSTEM: an address must not be held by two subscribers on any pair of nodes, and a
// subscriber asking again at either node must be told the same address.
type TwoNodeSystem struct {
	Geo    Geometry
	Mode   allocator.PoolMode
	Grace  int
	NSubs  int
	events []core.Event
}

func NewTwoNodeSystem(g Geometry, mode allocator.PoolMode, grace, nsubs int) *TwoNodeSystem {
	s := &TwoNodeSystem{Geo: g, Mode: mode, Grace: grace, NSubs: nsubs}
	for sub := 1; sub <= nsubs; sub++ {
		for node := 1; node <= 2; node++ {
			s.events = append(s.events, core.Event{"op": "alloc", "sub": sub, "arg": -1, "node": node}, core.Event{"op": "release", "sub": sub, "arg": -1, "node": node})
			if mode == allocator.PoolModeLease {
				s.events = append(s.events, core.Event{"op": "renew", "sub": sub, "arg": -1, "node": node})
			}
		}
	}
	if mode == allocator.PoolModeLease {
		s.events = append(s.events, core.Event{"op": "advance", "sub": 0, "arg": -1, "node": 0})
	}
	return s
}

func (s *TwoNodeSystem) usable() []int {
	n := s.Geo.NUnits()
	if s.Mode == allocator.PoolModeLease {
		return seq(1, n-2)
	}
	return seq(0, n-1)
}
func (s *TwoNodeSystem) Name() string {
	return fmt.Sprintf("twonode.DistributedAllocator-%s/%s/g%d", s.Mode, s.Geo.Name, s.Grace)
}
func (s *TwoNodeSystem) Config() map[string]any {
	mode := "session"
	if s.Mode == allocator.PoolModeLease {
		mode = "lease"
	}
	return map[string]any{"impl": "twonode.DistributedAllocator-" + mode, "geo": s.Geo.Name, "mode": mode, "grace": s.Grace,
		"nsubs": s.NSubs, "usable": s.usable(), "nunits": s.Geo.NUnits()}
}
func (s *TwoNodeSystem) Events() []core.Event { return s.events }

// sharedStore: one KV space, one watcher per node; a write by node n is delivered to the others.
type sharedStore struct {
	mu       sync.Mutex
	data     map[string][]byte
	watchers map[int]func(string, []byte, bool)
}
type nodeStore struct {
	sh   *sharedStore
	node int
}

func (n *nodeStore) Get(ctx context.Context, key string) ([]byte, error) {
	n.sh.mu.Lock()
	defer n.sh.mu.Unlock()
	if v, ok := n.sh.data[key]; ok {
		return v, nil
	}
	return nil, fmt.Errorf("not found")
}
func (n *nodeStore) announce(key string, v []byte, del bool) {
	n.sh.mu.Lock()
	var cbs []func(string, []byte, bool)
	for id, cb := range n.sh.watchers {
		if id != n.node {
			cbs = append(cbs, cb)
		}
	}
	n.sh.mu.Unlock()
	for _, cb := range cbs {
		cb(key, v, del)
	}
}
func (n *nodeStore) Put(ctx context.Context, key string, value []byte) error {
	n.sh.mu.Lock()
	n.sh.data[key] = value
	n.sh.mu.Unlock()
	n.announce(key, value, false)
	return nil
}
func (n *nodeStore) Delete(ctx context.Context, key string) error {
	n.sh.mu.Lock()
	_, had := n.sh.data[key]
	delete(n.sh.data, key)
	n.sh.mu.Unlock()
	if had {
		n.announce(key, nil, true)
	}
	return nil
}
func (n *nodeStore) Query(ctx context.Context, prefix string) ([]allocator.KeyValue, error) {
	n.sh.mu.Lock()
	defer n.sh.mu.Unlock()
	tmp := &KVStore{Data: n.sh.data}
	n.sh.mu.Unlock()
	out, err := tmp.Query(ctx, prefix)
	n.sh.mu.Lock()
	return out, err
}
func (n *nodeStore) Watch(prefix string, cb func(string, []byte, bool)) {
	n.sh.mu.Lock()
	defer n.sh.mu.Unlock()
	n.sh.watchers[n.node] = cb
}

type twoInst struct {
	s      *TwoNodeSystem
	sh     *sharedStore
	das    [2]*allocator.DistributedAllocator
	cancel context.CancelFunc
}

func (s *TwoNodeSystem) New() core.Instance {
	t := &twoInst{s: s, sh: &sharedStore{data: map[string][]byte{}, watchers: map[int]func(string, []byte, bool){}}}
	ctx, cancel := context.WithCancel(bg)
	t.cancel = cancel
	for i := 0; i < 2; i++ {
		da, err := allocator.NewDistributedAllocator(allocator.DistributedConfig{PoolID: "p", BaseNetwork: s.Geo.CIDR, PrefixLen: s.Geo.Alloc, Mode: s.Mode,
			EpochGrace: s.Grace, EpochPeriod: 1000 * time.Hour}, &nodeStore{sh: t.sh, node: i + 1})
		if err != nil {
			panic(err)
		}
		if err := da.Start(ctx); err != nil {
			panic(err)
		}
		t.das[i] = da
	}
	return t
}

func (t *twoInst) Apply(ev core.Event) map[string]any {
	op := ev["op"].(string)
	sub := toInt(ev["sub"])
	node := toInt(ev["node"])
	id := defaultSubID(sub)
	g := t.s.Geo
	switch op {
	case "alloc":
		pf, err := t.das[node-1].Allocate(bg, id)
		if err != nil {
			return res(false, -1, err, false)
		}
		return res(true, g.UnitOfNet(pf), nil, false)
	case "release":
		err := t.das[node-1].Release(bg, id)
		return res(err == nil, -1, err, false)
	case "renew":
		err := t.das[node-1].Renew(bg, id)
		return res(err == nil, -1, err, false)
	case "advance": // the epoch period elapses on both gateways
		t.das[0].VerifEpochTick(bg)
		t.das[1].VerifEpochTick(bg)
		return res(true, -1, nil, false)
	}
	panic("unknown op " + op)
}

// Observe merges the two nodes' answers: a subscriber's unit if any node reports one, -3 if the
// nodes report different units for it.
func (t *twoInst) Observe() map[string]any {
	lk := make([]int, t.s.NSubs)
	for i := 1; i <= t.s.NSubs; i++ {
		lk[i-1] = -1
		for n := 0; n < 2; n++ {
			if pf, ok := t.das[n].Get(defaultSubID(i)); ok && pf != nil {
				u := t.s.Geo.UnitOfNet(pf)
				if lk[i-1] == -1 {
					lk[i-1] = u
				} else if lk[i-1] != u {
					lk[i-1] = -3
				}
			}
		}
	}
	return map[string]any{"lookup": lk, "alloc": -1, "total": -1, "drain": -1}
}

func (t *twoInst) Fingerprint() string {
	st := &KVStore{Data: t.sh.data}
	return core.Fingerprint(t.das[0], fpOptTwo) + "##" + core.Fingerprint(t.das[1], fpOptTwo) + "##" + core.Fingerprint(st.Canon(), nil)
}

var fpOptTwo = &core.FPOptions{SkipTypes: []string{"*pools.KVStore", "*pools.nodeStore"}, SkipFields: fpOpt.SkipFields}

func (t *twoInst) Probe() map[string]any { return nil }
func (t *twoInst) Close()                { t.cancel() }
