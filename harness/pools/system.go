package pools

import (
	"fmt"
	"strings"

	"verifharness/core"
)

// PoolSystem adapts an Adapter to core.System.
type PoolSystem struct {
	A      Adapter
	NSubs  int
	Extra  []string // restrict ops (nil = adapter's ops)
	events []core.Event
}

func NewPoolSystem(a Adapter, nsubs int, ops []string) *PoolSystem {
	s := &PoolSystem{A: a, NSubs: nsubs}
	allowed := map[string]bool{}
	for _, o := range ops {
		allowed[o] = true
	}
	has := func(o string) bool {
		if ops != nil && !allowed[o] {
			return false
		}
		for _, x := range a.Ops {
			if x == o {
				return true
			}
		}
		return false
	}
	units := a.Usable
	if len(units) > 3 {
		units = []int{a.Usable[0], a.Usable[1], a.Usable[len(a.Usable)-1]}
	}
	// requests for a specific prefix also name the prefix just past the pool's end and one further out
	outside := []int{a.Geo.NUnits(), a.Geo.NUnits() + 2}
	for sub := 1; sub <= nsubs; sub++ {
		for _, o := range []string{"alloc", "release", "renew", "allocf", "allocm", "allocmf"} {
			if has(o) {
				s.events = append(s.events, core.Event{"op": o, "sub": sub, "arg": -1})
			}
		}
		for _, o := range []string{"specific", "setalloc"} {
			if has(o) {
				for _, u := range units {
					s.events = append(s.events, core.Event{"op": o, "sub": sub, "arg": u})
				}
				if sub == 1 {
					for _, u := range outside {
						s.events = append(s.events, core.Event{"op": o, "sub": sub, "arg": u})
					}
				}
			}
		}
	}
	if has("relunit") {
		for _, u := range append(append([]int{}, units...), outside[0]) {
			s.events = append(s.events, core.Event{"op": "relunit", "sub": 0, "arg": u})
		}
	}
	for _, o := range []string{"advance", "reload"} {
		if has(o) {
			s.events = append(s.events, core.Event{"op": o, "sub": 0, "arg": -1})
		}
	}
	return s
}

func (s *PoolSystem) Name() string { return s.A.Name() }
func (s *PoolSystem) Config() map[string]any {
	return map[string]any{"impl": s.A.Impl, "geo": s.A.Geo.Name, "mode": s.A.Mode, "grace": s.A.Grace,
		"nsubs": s.NSubs, "usable": s.A.Usable, "nunits": s.A.Geo.NUnits()}
}
func (s *PoolSystem) Events() []core.Event { return s.events }
func (s *PoolSystem) New() core.Instance   { return &poolInst{s: s, im: s.A.mk()} }

type poolInst struct {
	s  *PoolSystem
	im *impl
}

func errStr(err error) string {
	if err == nil {
		return ""
	}
	m := err.Error()
	if len(m) > 60 {
		m = m[:60]
	}
	return m
}

func res(ok bool, unit int, err error, fault bool) map[string]any {
	return map[string]any{"ok": ok, "unit": unit, "err": errStr(err), "fault": fault}
}

func (p *poolInst) Apply(ev core.Event) map[string]any {
	op := ev["op"].(string)
	sub := toInt(ev["sub"])
	arg := toInt(ev["arg"])
	id := ""
	if sub > 0 {
		id = p.s.A.subID(sub)
	}
	im := p.im
	switch op {
	case "alloc":
		u, err := im.alloc(id)
		return res(err == nil, u, err, false)
	case "allocf":
		u, err := im.allocF(id)
		return res(err == nil, u, err, true)
	case "allocm":
		u, err := im.allocM(id)
		return res(err == nil, u, err, false)
	case "allocmf":
		u, err := im.allocMF(id)
		return res(err == nil, u, err, true)
	case "release":
		err := im.release(id)
		return res(err == nil, -1, err, false)
	case "renew":
		err := im.renew(id)
		return res(err == nil, -1, err, false)
	case "advance":
		im.advance()
		return res(true, -1, nil, false)
	case "reload":
		err := im.reload()
		return res(err == nil, -1, err, false)
	case "specific":
		err := im.specific(id, arg)
		return res(err == nil, arg, err, false)
	case "setalloc":
		err := im.setalloc(id, arg)
		return res(err == nil, arg, err, false)
	case "relunit":
		err := im.relunit(arg)
		return res(err == nil, arg, err, false)
	}
	panic("unknown op " + op)
}

func toInt(v any) int {
	switch x := v.(type) {
	case int:
		return x
	case float64:
		return int(x)
	case int64:
		return int(x)
	}
	return 0
}

func (p *poolInst) Observe() map[string]any {
	lk := make([]int, p.s.NSubs)
	for i := 1; i <= p.s.NSubs; i++ {
		lk[i-1] = p.im.lookup(p.s.A.subID(i))
	}
	al, tot := -1, -1
	if p.im.stats != nil {
		al, tot = p.im.stats()
	}
	return map[string]any{"lookup": lk, "alloc": al, "total": tot, "drain": -1}
}

func (p *poolInst) Fingerprint() string {
	if p.im.fp != nil {
		return p.im.fp()
	}
	var sb strings.Builder
	for _, o := range p.im.objs {
		sb.WriteString(core.Fingerprint(o, fpOpt))
		sb.WriteString("##")
	}
	return sb.String()
}

// Probe drains the pool with fresh subscribers and reports how many addresses they obtained.
func (p *poolInst) Probe() map[string]any {
	if p.s.A.NoDrain {
		return map[string]any{"drain": -1}
	}
	n := 0
	seen := map[int]bool{}
	for i := 0; i < p.s.A.Geo.NUnits()+2; i++ {
		u, err := p.im.alloc(p.s.A.subID(1000 + i))
		if err != nil {
			break
		}
		if seen[u] {
			// a fresh subscriber was handed an address another fresh subscriber holds:
			// report an impossible count so the Drain clause fails
			return map[string]any{"drain": -2}
		}
		seen[u] = true
		n++
	}
	return map[string]any{"drain": n}
}

func (p *poolInst) Close() {
	if p.im.closeFn != nil {
		p.im.closeFn()
	}
}

// Geometries and adapter catalogue ------------------------------------------------------

var (
	G4_29    = Geometry{"v4-29-32", "10.0.0.0/29", 32}
	G4_30    = Geometry{"v4-30-32", "192.168.7.252/30", 32}
	G4_29hi  = Geometry{"v4-29-32-hi", "10.9.255.248/29", 32}
	G4_28_30 = Geometry{"v4-28-30", "10.1.2.16/28", 30}
	G4_28    = Geometry{"v4-28-32", "172.16.5.240/28", 32}
	G6_125   = Geometry{"v6-125-128", "2001:db8::8/125", 128}
	G6_61    = Geometry{"v6-61-64", "2001:db8:0:8::/61", 64}
	G6_57    = Geometry{"v6-57-60", "2001:db8:ab:80::/57", 60}
	G6_62    = Geometry{"v6-62-64", "2001:db8:ff:fffc::/62", 64}
	G4_24    = Geometry{"v4-24-32", "10.20.30.0/24", 32}
	G4_22    = Geometry{"v4-22-32", "10.20.252.0/22", 32}
	G4_23    = Geometry{"v4-23-32", "10.8.0.0/23", 32}
	G6_48_56 = Geometry{"v6-48-56", "2001:db8:77::/48", 56}
	G6_116   = Geometry{"v6-116-128", "2001:db8::f000/116", 128}
)

// Catalogue lists every (implementation, small geometry) pair explored exhaustively.
func Catalogue() []Adapter {
	var out []Adapter
	for _, g := range []Geometry{G4_29, G4_30, G4_28_30, G6_125, G6_61, G6_57} {
		out = append(out, bitmapAdapter(g))
	}
	for _, g := range []Geometry{G4_29, G4_29hi} {
		out = append(out, epochAdapter(g, 1), epochAdapter(g, 2))
	}
	out = append(out, epochAdapter(G4_30, 1)) // two usable addresses: three subscribers fill the pool and find it full

	for _, g := range []Geometry{G4_29, G6_61} {
		out = append(out, distributedAdapter(g, "session", 0))
	}
	out = append(out, distributedAdapter(G4_29, "lease", 1))
	for _, g := range []Geometry{G4_30, G6_62, G4_28_30} {
		out = append(out, poolAllocatorAdapter(g), localAllocatorAdapter(g))
	}
	out = append(out, poolAllocatorDualAdapter(G4_30))
	out = append(out, dhcpPoolAdapter(G4_29, 0), dhcpPoolAdapter(G4_29hi, 0), dhcpPoolAdapter(G4_28, 3), dhcpPoolAdapter(G4_30, 0)) // the /30 has one client address: a second holder of it is visible with two subscribers
	out = append(out, v6AddrPoolAdapter(G6_125), v6PrefixPoolAdapter(G6_61), v6PrefixPoolAdapter(G6_57))
	out = append(out, pppoePoolAdapter(G4_29), pppoePoolAdapter(G4_29hi))
	out = append(out, peerPoolAdapter(G4_29), peerPoolAdapter(G4_29hi), peerPoolFailoverAdapter(G4_29))
	out = append(out, nexusAdapter(G4_29, 3, defaultSubID), nexusAdapter(G4_30, 3, defaultSubID))
	return out
}

// LargeCatalogue lists the pairs driven by long random sequences.
func LargeCatalogue(nsubs int) []Adapter {
	return []Adapter{
		bitmapAdapter(G4_24), bitmapAdapter(G6_48_56), bitmapAdapter(G6_116),
		epochAdapter(G4_24, 1), epochAdapter(G4_22, 2),
		distributedAdapter(G4_24, "session", 0), distributedAdapter(G4_24, "lease", 1),
		poolAllocatorAdapter(G4_24), localAllocatorAdapter(G6_48_56),
		dhcpPoolAdapter(G4_24, 5), v6AddrPoolAdapter(G6_116), v6PrefixPoolAdapter(G6_48_56),
		pppoePoolAdapter(G4_24), peerPoolAdapter(G4_24), nexusAdapter(G4_24, nsubs, defaultSubID),
	}
}

func FindAdapter(name string, nsubs int) (Adapter, bool) {
	for _, a := range append(append(Catalogue(), LargeCatalogue(nsubs)...), dhcpPoolAdapterGW(G4_23, 0, 257)) {
		if a.Name() == name {
			return a, true
		}
	}
	return Adapter{}, false
}

var _ = fmt.Sprintf
