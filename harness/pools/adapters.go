package pools

import (
	"context"
	"encoding/json"
	"errors"
	"fmt"
	"net"
	"reflect"
	"sort"
	"strings"
	"sync"
	"time"

	"github.com/codelaboratoryltd/bng/pkg/allocator"
	"github.com/codelaboratoryltd/bng/pkg/dhcp"
	"github.com/codelaboratoryltd/bng/pkg/dhcpv6"
	"github.com/codelaboratoryltd/bng/pkg/nexus"
	"github.com/codelaboratoryltd/bng/pkg/pool"
	"github.com/codelaboratoryltd/bng/pkg/pppoe"
	"go.uber.org/zap"

	"verifharness/core"
)

var bg = context.Background()

// impl is one live pool object behind a uniform face.
type impl struct {
	objs     []any // everything that makes up the state (for the fingerprint)
	fp       func() string
	alloc    func(id string) (int, error)
	allocF   func(id string) (int, error) // allocation with the persistence write failing
	allocM   func(id string) (int, error) // AllocateWithMAC
	allocMF  func(id string) (int, error) // AllocateWithMAC with the persistence write failing
	release  func(id string) error
	releaseF func(id string) error // release with the persistence delete failing
	renew    func(id string) error
	advance  func()
	reload   func() error
	specific func(id string, u int) error
	setalloc func(id string, u int) error
	relunit  func(u int) error
	lookup   func(id string) int
	stats    func() (int, int)
	closeFn  func()
	// gateSave (pools persisting through an AllocationStore): the next SaveAllocation parks before it writes;
	// parked is closed when it got there, open lets it go on
	gateSave func() (parked <-chan struct{}, open func())
	// gateSaveFail: the next store write parks and, once let go, FAILS
	gateSaveFail func() (parked <-chan struct{}, open func())
}

// Adapter describes one (implementation, geometry) pair.
type Adapter struct {
	Impl    string
	Geo     Geometry
	Mode    string // "session" | "lease"
	Grace   int
	Usable  []int
	Ops     []string
	NoDrain bool
	mk      func() *impl
	subID   func(i int) string
}

func (a Adapter) Name() string { return a.Impl + "/" + a.Geo.Name + fmt.Sprintf("/g%d", a.Grace) }

func defaultSubID(i int) string { return fmt.Sprintf("sub-%d", i) }
func macSubID(i int) string     { return fmt.Sprintf("02:00:00:00:%02x:%02x", i/256, i%256) }

var fpOpt = &core.FPOptions{SkipTypes: []string{"*pools.KVStore"}, SkipFields: map[string]bool{"AllocatedAt": true, "UpdatedAt": true, "ExpiresAt": true, "LastRenewed": true}}

// ---------------------------------------------------------------------------------------
// allocator.IPAllocator

func bitmapAdapter(g Geometry) Adapter {
	n := g.NUnits()
	return Adapter{Impl: "allocator.IPAllocator", Geo: g, Mode: "session", Usable: seq(0, n-1),
		Ops: []string{"alloc", "release", "reload", "specific", "setalloc", "relunit"}, subID: defaultSubID,
		mk: func() *impl {
			a, err := allocator.NewIPAllocator(g.CIDR, g.Alloc)
			if err != nil {
				panic(err)
			}
			im := &impl{}
			im.objs = []any{a}
			im.alloc = func(id string) (int, error) {
				p, err := a.Allocate(id)
				if err != nil {
					return -1, err
				}
				return g.UnitOfNet(p), nil
			}
			im.release = func(id string) error { return a.Release(id) }
			im.specific = func(id string, u int) error { return a.AllocateSpecific(id, g.UnitNet(u)) }
			im.setalloc = func(id string, u int) error { return a.SetAllocation(id, g.UnitNet(u)) }
			im.relunit = func(u int) error { return a.ReleasePrefix(g.UnitNet(u)) }
			im.lookup = func(id string) int {
				p := a.Lookup(id)
				if p == nil {
					return -1
				}
				return g.UnitOfNet(p)
			}
			im.stats = func() (int, int) { al, tot, _ := a.Stats(); return int(al), int(tot) }
			im.reload = func() error {
				b, err := json.Marshal(a)
				if err != nil {
					return err
				}
				na := &allocator.IPAllocator{}
				if err := json.Unmarshal(b, na); err != nil {
					return err
				}
				a = na
				im.objs = []any{a}
				return nil
			}
			return im
		}}
}

// ---------------------------------------------------------------------------------------
// allocator.EpochBitmapAllocator (IPv4 only)

func epochAdapter(g Geometry, grace int) Adapter {
	n := g.NUnits()
	return Adapter{Impl: "allocator.EpochBitmapAllocator", Geo: g, Mode: "lease", Grace: grace, Usable: seq(1, n-2),
		Ops: []string{"alloc", "release", "renew", "advance", "reload"}, subID: defaultSubID,
		mk: func() *impl {
			a, err := allocator.NewEpochBitmapAllocator(allocator.EpochBitmapConfig{BaseNetwork: g.CIDR, PrefixLength: g.Alloc, GracePeriod: uint64(grace)})
			if err != nil {
				panic(err)
			}
			im := &impl{}
			im.objs = []any{a}
			im.alloc = func(id string) (int, error) {
				ip, err := a.Allocate(bg, id)
				if err != nil {
					return -1, err
				}
				return g.UnitOfIP(ip), nil
			}
			im.release = func(id string) error { return a.Release(bg, id) }
			im.renew = func(id string) error { return a.Renew(bg, id) }
			im.advance = func() { a.AdvanceEpoch() }
			im.lookup = func(id string) int {
				ip := a.Lookup(id)
				if ip == nil {
					return -1
				}
				return g.UnitOfIP(ip)
			}
			im.stats = func() (int, int) { al, tot, _ := a.Stats(); return int(al), int(tot) }
			im.reload = func() error {
				b, err := json.Marshal(a)
				if err != nil {
					return err
				}
				na := &allocator.EpochBitmapAllocator{}
				if err := json.Unmarshal(b, na); err != nil {
					return err
				}
				a = na
				im.objs = []any{a}
				return nil
			}
			return im
		}}
}

// ---------------------------------------------------------------------------------------
// scripted allocator.Store (synchronous, deterministic query order, injectable failures)

type KVStore struct {
	mu       sync.Mutex
	Data     map[string][]byte
	FailPut  bool // next Put fails
	FailDel  bool // next Delete fails
	watchers []func(key string, value []byte, deleted bool)
	Calls    int
	Perm     int // index of the permutation applied to the sorted Query result
	// scheduler gate: the next Put parks before it touches the store and, once let go, fails
	gmu                  sync.Mutex
	gateParked, gateOpen chan struct{}
}

// ArmFailingPut: the next Put parks (parked is closed when it got there); after open() it returns the injected error.
func (s *KVStore) ArmFailingPut() (<-chan struct{}, func()) {
	parked, open := make(chan struct{}), make(chan struct{})
	s.gmu.Lock()
	s.gateParked, s.gateOpen = parked, open
	s.gmu.Unlock()
	var once sync.Once
	return parked, func() { once.Do(func() { close(open) }) }
}

// nthPerm returns the k-th permutation (Lehmer order) of 0..n-1.
func nthPerm(n, k int) []int {
	idx := make([]int, n)
	for i := range idx {
		idx[i] = i
	}
	out := make([]int, 0, n)
	f := 1
	for i := 2; i < n; i++ {
		f *= i
	}
	for i := n - 1; i >= 0; i-- {
		d := 0
		if f > 0 {
			d = (k / f) % (i + 1)
		}
		out = append(out, idx[d])
		idx = append(idx[:d], idx[d+1:]...)
		if i > 0 {
			f /= i
		}
		if f == 0 {
			f = 1
		}
	}
	return out
}

// Deliver invokes the registered watch callbacks synchronously (a change made by another node).
func (s *KVStore) Deliver(key string, value []byte, deleted bool) {
	s.mu.Lock()
	if deleted {
		delete(s.Data, key)
	} else {
		s.Data[key] = value
	}
	ws := append([]func(string, []byte, bool){}, s.watchers...)
	s.mu.Unlock()
	// only the most recently started allocator instance is alive
	if len(ws) > 0 {
		ws[len(ws)-1](key, value, deleted)
	}
}

// Announce calls the watch callback without changing the store: an announcement that conflicts with what the
// store records for another subscriber (made by a node that had not seen that record yet; the store never
// holds both).
func (s *KVStore) Announce(key string, value []byte) {
	s.mu.Lock()
	ws := append([]func(string, []byte, bool){}, s.watchers...)
	s.mu.Unlock()
	if len(ws) > 0 {
		ws[len(ws)-1](key, value, false)
	}
}

var errInjected = errors.New("injected store failure")

func NewKVStore() *KVStore { return &KVStore{Data: map[string][]byte{}} }

// Canon renders the store contents without wall-clock fields.
func (s *KVStore) Canon() map[string]string {
	s.mu.Lock()
	defer s.mu.Unlock()
	out := map[string]string{}
	for k, v := range s.Data {
		var m map[string]any
		if json.Unmarshal(v, &m) == nil {
			delete(m, "allocated_at")
			b, _ := json.Marshal(m)
			out[k] = string(b)
		} else {
			out[k] = string(v)
		}
	}
	return out
}

func (s *KVStore) Get(ctx context.Context, key string) ([]byte, error) {
	s.mu.Lock()
	defer s.mu.Unlock()
	if v, ok := s.Data[key]; ok {
		return v, nil
	}
	return nil, errors.New("not found")
}
func (s *KVStore) Put(ctx context.Context, key string, value []byte) error {
	s.gmu.Lock()
	parked, open := s.gateParked, s.gateOpen
	s.gateParked, s.gateOpen = nil, nil
	s.gmu.Unlock()
	if parked != nil {
		close(parked)
		<-open
		return errInjected
	}
	s.mu.Lock()
	defer s.mu.Unlock()
	if s.FailPut {
		s.FailPut = false
		return errInjected
	}
	s.Data[key] = value
	return nil
}
func (s *KVStore) Delete(ctx context.Context, key string) error {
	s.mu.Lock()
	defer s.mu.Unlock()
	if s.FailDel {
		s.FailDel = false
		return errInjected
	}
	delete(s.Data, key)
	return nil
}
func (s *KVStore) Query(ctx context.Context, prefix string) ([]allocator.KeyValue, error) {
	s.mu.Lock()
	defer s.mu.Unlock()
	var keys []string
	for k := range s.Data {
		if strings.HasPrefix(k, prefix) {
			keys = append(keys, k)
		}
	}
	sort.Strings(keys)
	var out []allocator.KeyValue
	for _, i := range nthPerm(len(keys), s.Perm) {
		k := keys[i]
		out = append(out, allocator.KeyValue{Key: k, Value: s.Data[k]})
	}
	return out, nil
}
func (s *KVStore) Watch(prefix string, cb func(key string, value []byte, deleted bool)) {
	s.mu.Lock()
	defer s.mu.Unlock()
	s.watchers = append(s.watchers, cb)
}

func distributedAdapter(g Geometry, mode allocator.PoolMode, grace int) Adapter {
	n := g.NUnits()
	ad := Adapter{Impl: "allocator.DistributedAllocator-" + string(mode), Geo: g, subID: defaultSubID}
	if mode == allocator.PoolModeLease {
		ad.Mode, ad.Grace, ad.Usable = "lease", grace, seq(1, n-2)
		ad.Ops = []string{"alloc", "release", "renew", "advance", "allocf", "allocm", "allocmf"}
	} else {
		ad.Mode, ad.Usable = "session", seq(0, n-1)
		ad.Ops = []string{"alloc", "release", "reload", "allocf", "allocm", "allocmf"}
	}
	ad.mk = func() *impl {
		st := NewKVStore()
		ctx, cancel := context.WithCancel(bg)
		mkDA := func() *allocator.DistributedAllocator {
			da, err := allocator.NewDistributedAllocator(allocator.DistributedConfig{PoolID: "p", BaseNetwork: g.CIDR, PrefixLen: g.Alloc, Mode: mode, EpochGrace: grace, EpochPeriod: 1000 * time.Hour}, st)
			if err != nil {
				panic(err)
			}
			if err := da.Start(ctx); err != nil {
				panic(err)
			}
			return da
		}
		da := mkDA()
		im := &impl{closeFn: cancel}
		im.fp = func() string { return core.Fingerprint(da, fpOpt) + "##" + core.Fingerprint(st.Canon(), nil) }
		doAlloc := func(id string) (int, error) {
			p, err := da.Allocate(bg, id)
			if err != nil {
				return -1, err
			}
			return g.UnitOfNet(p), nil
		}
		im.alloc = doAlloc
		im.gateSaveFail = st.ArmFailingPut
		im.allocF = func(id string) (int, error) {
			st.FailPut = true
			u, err := doAlloc(id)
			st.FailPut = false
			return u, err
		}
		doAllocM := func(id string) (int, error) {
			p, err := da.AllocateWithMAC(bg, id, net.HardwareAddr{2, 0, 0, 0, 9, byte(len(id))})
			if err != nil {
				return -1, err
			}
			return g.UnitOfNet(p), nil
		}
		im.allocM = doAllocM
		im.allocMF = func(id string) (int, error) {
			st.FailPut = true
			u, err := doAllocM(id)
			st.FailPut = false
			return u, err
		}
		im.release = func(id string) error { return da.Release(bg, id) }
		im.lookup = func(id string) int {
			p, ok := da.Get(id)
			if !ok || p == nil {
				return -1
			}
			return g.UnitOfNet(p)
		}
		im.stats = func() (int, int) { s := da.Stats(); return s.Allocated, s.Total }
		if mode == allocator.PoolModeLease {
			im.renew = func(id string) error { return da.Renew(bg, id) }
			im.advance = func() { da.AdvanceEpoch() }
		} else {
			im.reload = func() error {
				da = mkDA()
				return nil
			}
		}
		return im
	}
	return ad
}

// ---------------------------------------------------------------------------------------
// allocator.PoolAllocator + MemoryAllocationStore, allocator.LocalAllocator

type failingAllocStore struct {
	*allocator.MemoryAllocationStore
	failSave bool
}

func (f *failingAllocStore) SaveAllocation(ctx context.Context, a allocator.AllocationRecord) error {
	if f.failSave {
		f.failSave = false
		return errInjected
	}
	return f.MemoryAllocationStore.SaveAllocation(ctx, a)
}

// gateAllocStore parks one SaveAllocation on request (scheduler gate for the window between the in-memory
// allocation and its persistence; harness code, no hook in /repo).
type gateAllocStore struct {
	*allocator.MemoryAllocationStore
	mu     sync.Mutex
	parked chan struct{}
	open   chan struct{}
}

func (g *gateAllocStore) SaveAllocation(ctx context.Context, a allocator.AllocationRecord) error {
	g.mu.Lock()
	parked, open := g.parked, g.open
	g.parked, g.open = nil, nil
	g.mu.Unlock()
	if parked != nil {
		close(parked)
		<-open
	}
	return g.MemoryAllocationStore.SaveAllocation(ctx, a)
}

func (g *gateAllocStore) arm() (<-chan struct{}, func()) {
	parked, open := make(chan struct{}), make(chan struct{})
	g.mu.Lock()
	g.parked, g.open = parked, open
	g.mu.Unlock()
	var once sync.Once
	return parked, func() { once.Do(func() { close(open) }) }
}

func poolAllocatorAdapter(g Geometry) Adapter {
	n := g.NUnits()
	return Adapter{Impl: "allocator.PoolAllocator", Geo: g, Mode: "session", Usable: seq(0, n-1),
		Ops: []string{"alloc", "release", "allocf"}, subID: defaultSubID,
		mk: func() *impl {
			st := &failingAllocStore{MemoryAllocationStore: allocator.NewMemoryAllocationStore()}
			pa, err := allocator.NewPoolAllocator("p", g.CIDR, g.Alloc, st)
			if err != nil {
				panic(err)
			}
			im := &impl{objs: []any{pa}}
			im.alloc = func(id string) (int, error) {
				p, err := pa.Allocate(bg, id, "")
				if err != nil {
					return -1, err
				}
				return g.UnitOfNet(p), nil
			}
			im.allocF = func(id string) (int, error) {
				st.failSave = true
				u, err := im.alloc(id)
				st.failSave = false
				return u, err
			}
			im.release = func(id string) error { return pa.Release(bg, id) }
			im.lookup = func(id string) int {
				p := pa.Lookup(id)
				if p == nil {
					return -1
				}
				return g.UnitOfNet(p)
			}
			im.stats = func() (int, int) { al, tot, _ := pa.Stats(); return int(al), int(tot) }
			return im
		}}
}

// poolAllocatorDualAdapter: the pool under test shares its store with a second pool (another address family)
// in which every subscriber already holds a record, as a dual-stack subscriber does.
func poolAllocatorDualAdapter(g Geometry) Adapter {
	a := poolAllocatorAdapter(g)
	a.Impl = "allocator.PoolAllocator-dual"
	a.mk = func() *impl {
		st := &failingAllocStore{MemoryAllocationStore: allocator.NewMemoryAllocationStore()}
		other, err := allocator.NewPoolAllocatorWithType(allocator.PoolAllocatorConfig{PoolID: "q", BaseNetwork: "2001:db8:77::/48", PrefixLength: 56, Store: st})
		if err != nil {
			panic(err)
		}
		for i := 1; i <= 3; i++ {
			if _, err := other.Allocate(bg, defaultSubID(i), ""); err != nil {
				panic(err)
			}
		}
		pa, err := allocator.NewPoolAllocator("p", g.CIDR, g.Alloc, st)
		if err != nil {
			panic(err)
		}
		im := &impl{objs: []any{pa}}
		im.alloc = func(id string) (int, error) {
			p, err := pa.Allocate(bg, id, "")
			if err != nil {
				return -1, err
			}
			return g.UnitOfNet(p), nil
		}
		im.allocF = func(id string) (int, error) {
			st.failSave = true
			u, err := im.alloc(id)
			st.failSave = false
			return u, err
		}
		im.release = func(id string) error { return pa.Release(bg, id) }
		im.lookup = func(id string) int {
			p := pa.Lookup(id)
			if p == nil {
				return -1
			}
			return g.UnitOfNet(p)
		}
		im.stats = func() (int, int) { al, tot, _ := pa.Stats(); return int(al), int(tot) }
		return im
	}
	return a
}

func localAllocatorAdapter(g Geometry) Adapter {
	n := g.NUnits()
	return Adapter{Impl: "allocator.LocalAllocator", Geo: g, Mode: "session", Usable: seq(0, n-1),
		Ops: []string{"alloc", "release"}, subID: defaultSubID,
		mk: func() *impl {
			la, err := allocator.NewLocalAllocator(allocator.LocalAllocatorConfig{Pools: []allocator.PoolConfig{{ID: "p", CIDR: g.CIDR, PrefixLength: g.Alloc}}})
			if err != nil {
				panic(err)
			}
			im := &impl{objs: []any{la}}
			// the pool persists through the allocator's own store; put the gate in between (the pool's store field is an interface)
			if pa, ok := la.GetPool("p"); ok {
				gs := &gateAllocStore{MemoryAllocationStore: core.Field(la, "store").Interface().(*allocator.MemoryAllocationStore)}
				core.Field(pa, "store").Set(reflect.ValueOf(gs))
				im.gateSave = gs.arm
			}
			im.alloc = func(id string) (int, error) {
				p, err := la.Allocate(bg, id, "p")
				if err != nil {
					return -1, err
				}
				return g.UnitOfNet(p), nil
			}
			im.release = func(id string) error { return la.Release(bg, id, "p") }
			im.lookup = func(id string) int {
				infos, err := la.Lookup(bg, id)
				if err != nil || len(infos) == 0 {
					return -1
				}
				if len(infos) > 1 {
					return -2
				}
				return g.UnitOfNet(infos[0].Prefix)
			}
			im.stats = func() (int, int) {
				al, tot, _, err := la.Stats(bg, "p")
				if err != nil {
					return -1, -1
				}
				return int(al), int(tot)
			}
			return im
		}}
}

// ---------------------------------------------------------------------------------------
// dhcp.Pool (IPv4; gateway = unit 1; optionally reserved head/tail)

func dhcpPoolAdapter(g Geometry, reserved int) Adapter { return dhcpPoolAdapterGW(g, reserved, 1) }

// dhcpPoolAdapterGW: the gateway is unit gw of the pool network (production pools put it on .1 of the first /24;
// a wider pool may have it anywhere).
func dhcpPoolAdapterGW(g Geometry, reserved, gw int) Adapter {
	n := g.NUnits()
	usable := without(seq(1, n-2), gw)
	name := "dhcp.Pool"
	if gw != 1 {
		name = fmt.Sprintf("dhcp.Pool-gw%d", gw)
	}
	if reserved > 0 {
		// first `reserved` and last `reserved` host addresses are reserved
		usable = without(seq(1+reserved, n-2-reserved), gw)
		name = fmt.Sprintf("dhcp.Pool-res%d", reserved)
	}
	return Adapter{Impl: name, Geo: g, Mode: "session", Usable: usable,
		Ops: []string{"alloc", "release", "relunit"}, subID: macSubID,
		mk: func() *impl {
			p, err := dhcp.NewPool(dhcp.PoolConfig{ID: 1, Name: "p", Network: g.CIDR, Gateway: g.UnitIP(gw).String(), LeaseTime: time.Hour, ReservedStart: reserved, ReservedEnd: reserved})
			if err != nil {
				panic(err)
			}
			im := &impl{objs: []any{p}}
			mac := func(id string) net.HardwareAddr { m, _ := net.ParseMAC(id); return m }
			im.lookup = func(id string) int {
				v := core.Field(p, "allocated").MapIndex(reflect.ValueOf(mac(id).String()))
				if !v.IsValid() {
					return -1
				}
				return g.UnitOfIP(net.IP(v.Bytes()))
			}
			im.alloc = func(id string) (int, error) {
				ip, err := p.Allocate(mac(id))
				if err != nil {
					return -1, err
				}
				return g.UnitOfIP(ip), nil
			}
			im.release = func(id string) error {
				u := im.lookup(id)
				if u < 0 {
					return errors.New("not allocated")
				}
				p.Release(g.UnitIP(u))
				return nil
			}
			// Release is by address (the server calls it with whatever address a lease record carries, on
			// RELEASE and again on expiry): any address, held, free, reserved or foreign
			im.relunit = func(u int) error { p.Release(g.UnitIP(u)); return nil }
			im.stats = func() (int, int) { s := p.Stats(); return s.Allocated, s.Total }
			return im
		}}
}

// ---------------------------------------------------------------------------------------
// dhcpv6.AddressPool / dhcpv6.PrefixPool

func v6AddrPoolAdapter(g Geometry) Adapter {
	n := g.NUnits()
	if n > 1001 {
		n = 1001 // the pool materialises at most the first 1000 addresses
	}
	return Adapter{Impl: "dhcpv6.AddressPool", Geo: g, Mode: "session", Usable: seq(1, n-1),
		Ops: []string{"alloc", "release"}, subID: defaultSubID,
		mk: func() *impl {
			p, err := dhcpv6.NewAddressPool(g.CIDR, 3600, 7200)
			if err != nil {
				panic(err)
			}
			im := &impl{objs: []any{p}}
			im.lookup = func(id string) int {
				v := core.Field(p, "allocated").MapIndex(reflect.ValueOf(id))
				if !v.IsValid() {
					return -1
				}
				return g.UnitOfIP(net.IP(v.Bytes()))
			}
			im.alloc = func(id string) (int, error) {
				ip := p.Allocate(id)
				if ip == nil {
					return -1, errors.New("exhausted")
				}
				return g.UnitOfIP(ip), nil
			}
			im.release = func(id string) error { p.Release(id); return nil }
			return im
		}}
}

func v6PrefixPoolAdapter(g Geometry) Adapter {
	n := g.NUnits()
	return Adapter{Impl: "dhcpv6.PrefixPool", Geo: g, Mode: "session", Usable: seq(0, n-1),
		Ops: []string{"alloc", "release"}, subID: defaultSubID,
		mk: func() *impl {
			p, err := dhcpv6.NewPrefixPool(g.CIDR, uint8(g.Alloc), 3600, 7200)
			if err != nil {
				panic(err)
			}
			im := &impl{objs: []any{p}}
			im.lookup = func(id string) int {
				v := core.Field(p, "allocated").MapIndex(reflect.ValueOf(id))
				if !v.IsValid() || v.IsNil() {
					return -1
				}
				ipn := &net.IPNet{IP: net.IP(v.Elem().FieldByName("IP").Bytes()), Mask: net.IPMask(v.Elem().FieldByName("Mask").Bytes())}
				return g.UnitOfNet(ipn)
			}
			im.alloc = func(id string) (int, error) {
				pf := p.Allocate(id)
				if pf == nil {
					return -1, errors.New("exhausted")
				}
				return g.UnitOfNet(pf), nil
			}
			im.release = func(id string) error { p.Release(id); return nil }
			return im
		}}
}

// ---------------------------------------------------------------------------------------
// pppoe.IPPool (gateway = unit 1)

func pppoePoolAdapter(g Geometry) Adapter {
	n := g.NUnits()
	// the pool serves point-to-point /32s: every address of the network after the base except the
	// gateway and 255.255.255.255 is usable (DESIGN.md section 6)
	return Adapter{Impl: "pppoe.IPPool", Geo: g, Mode: "session", Usable: without(seq(1, n-1), 1),
		Ops: []string{"alloc", "release"}, subID: defaultSubID,
		mk: func() *impl {
			p, err := pppoe.NewIPPool(g.CIDR, g.UnitIP(1).String())
			if err != nil {
				panic(err)
			}
			im := &impl{objs: []any{p}}
			im.lookup = func(id string) int {
				v := core.Field(p, "allocated").MapIndex(reflect.ValueOf(id))
				if !v.IsValid() {
					return -1
				}
				return g.UnitOfIP(net.IP(v.Bytes()))
			}
			im.alloc = func(id string) (int, error) {
				ip := p.Allocate(id)
				if ip == nil {
					return -1, errors.New("exhausted")
				}
				return g.UnitOfIP(ip), nil
			}
			im.release = func(id string) error { p.Release(id); return nil }
			return im
		}}
}

// ---------------------------------------------------------------------------------------
// pool.PeerPool (single node: every subscriber is locally owned)

func peerPoolAdapter(g Geometry) Adapter {
	n := g.NUnits()
	return Adapter{Impl: "pool.PeerPool-local", Geo: g, Mode: "session", Usable: without(seq(1, n-2), 1),
		Ops: []string{"alloc", "release"}, subID: defaultSubID,
		mk: func() *impl {
			p, err := pool.NewPeerPool(pool.PeerPoolConfig{NodeID: "n1", Network: g.CIDR, Gateway: g.UnitIP(1).String(), LeaseTime: time.Hour, Logger: zap.NewNop()})
			if err != nil {
				panic(err)
			}
			im := &impl{objs: []any{core.Field(p, "localPool").Interface()}}
			im.lookup = func(id string) int {
				r, ok := p.Get(id)
				if !ok {
					return -1
				}
				return g.UnitOfIP(net.ParseIP(r.IP))
			}
			im.alloc = func(id string) (int, error) {
				r, err := p.Allocate(bg, id, nil)
				if err != nil {
					return -1, err
				}
				return g.UnitOfIP(net.ParseIP(r.IP)), nil
			}
			im.release = func(id string) error { return p.Release(bg, id) }
			im.stats = func() (int, int) { s := p.Stats(); return s.Allocated, s.Total }
			return im
		}}
}

// pool.PeerPool with one peer that is down: subscribers that hash to the dead peer are served from the local
// pool by fail-over (as the health loop arranges after its failure threshold); the others are local anyway.
const deadPeer = "127.0.0.1:1"

// failoverSubID names subscriber i so that the first two hash to the dead peer and the rest to this node.
func failoverSubID(i int) string {
	probe, err := pool.NewPeerPool(pool.PeerPoolConfig{NodeID: "n1", Peers: []string{deadPeer}, Network: "10.250.0.0/24", Gateway: "10.250.0.1", LeaseTime: time.Hour, Logger: zap.NewNop()})
	if err != nil {
		panic(err)
	}
	want := "n1"
	if i <= 2 {
		want = deadPeer
	}
	for k := 0; ; k++ {
		id := fmt.Sprintf("sub-%d-%d", i, k)
		if probe.GetOwner(id) == want {
			return id
		}
	}
}

func peerPoolFailoverAdapter(g Geometry) Adapter {
	ad := peerPoolAdapter(g)
	ad.Impl = "pool.PeerPool-failover"
	ids := map[int]string{}
	var idMu sync.Mutex
	ad.subID = func(i int) string {
		idMu.Lock()
		defer idMu.Unlock()
		if _, ok := ids[i]; !ok {
			ids[i] = failoverSubID(i)
		}
		return ids[i]
	}
	ad.mk = func() *impl {
		p, err := pool.NewPeerPool(pool.PeerPoolConfig{NodeID: "n1", Peers: []string{deadPeer}, Network: g.CIDR, Gateway: g.UnitIP(1).String(), LeaseTime: time.Hour, Logger: zap.NewNop()})
		if err != nil {
			panic(err)
		}
		p.VerifSetPeerHealth(deadPeer, false)
		lp := core.Field(p, "localPool")
		im := &impl{objs: []any{lp.Interface()}}
		// what this node's pool holds for the subscriber (PeerPool.Get would ask the dead owner)
		im.lookup = func(id string) int {
			v := core.Field(lp.Interface(), "allocations").MapIndex(reflect.ValueOf(id))
			if !v.IsValid() {
				return -1
			}
			return g.UnitOfIP(net.IP(v.Bytes()))
		}
		im.alloc = func(id string) (int, error) {
			r, err := p.Allocate(bg, id, nil)
			if err != nil {
				return -1, err
			}
			return g.UnitOfIP(net.ParseIP(r.IP)), nil
		}
		im.release = func(id string) error { return p.Release(bg, id) }
		im.stats = func() (int, int) { s := p.Stats(); return s.Allocated, s.Total }
		return im
	}
	return ad
}

// ---------------------------------------------------------------------------------------
// nexus.Client hash-based central allocation over a synchronous store

type syncNexusStore struct {
	mu       sync.Mutex
	data     map[string][]byte
	watchers map[string][]nexus.WatchCallback
}

func newSyncNexusStore() *syncNexusStore {
	return &syncNexusStore{data: map[string][]byte{}, watchers: map[string][]nexus.WatchCallback{}}
}
func (s *syncNexusStore) Get(ctx context.Context, key string) ([]byte, error) {
	s.mu.Lock()
	defer s.mu.Unlock()
	if v, ok := s.data[key]; ok {
		return v, nil
	}
	return nil, nexus.ErrNotFound
}
func (s *syncNexusStore) notify(key string, value []byte, deleted bool) {
	s.mu.Lock()
	var cbs []nexus.WatchCallback
	for p, l := range s.watchers {
		if strings.HasPrefix(key, p) {
			cbs = append(cbs, l...)
		}
	}
	s.mu.Unlock()
	for _, cb := range cbs {
		cb(key, value, deleted)
	}
}
func (s *syncNexusStore) Put(ctx context.Context, key string, value []byte) error {
	s.mu.Lock()
	s.data[key] = value
	s.mu.Unlock()
	s.notify(key, value, false)
	return nil
}
func (s *syncNexusStore) Delete(ctx context.Context, key string) error {
	s.mu.Lock()
	delete(s.data, key)
	s.mu.Unlock()
	s.notify(key, nil, true)
	return nil
}
func (s *syncNexusStore) Query(ctx context.Context, prefix string) ([]nexus.KeyValue, error) {
	s.mu.Lock()
	defer s.mu.Unlock()
	var keys []string
	for k := range s.data {
		if strings.HasPrefix(k, prefix) {
			keys = append(keys, k)
		}
	}
	sort.Strings(keys)
	var out []nexus.KeyValue
	for _, k := range keys {
		out = append(out, nexus.KeyValue{Key: k, Value: s.data[k]})
	}
	return out, nil
}
func (s *syncNexusStore) Watch(prefix string, cb nexus.WatchCallback) {
	s.mu.Lock()
	defer s.mu.Unlock()
	s.watchers[prefix] = append(s.watchers[prefix], cb)
}
func (s *syncNexusStore) Close() error { return nil }

func nexusAdapter(g Geometry, nsubsTotal int, ids func(i int) string) Adapter {
	n := g.NUnits()
	return Adapter{Impl: "nexus.Client-hash", Geo: g, Mode: "session", Usable: seq(1, n-2),
		Ops: []string{"alloc", "release"}, subID: ids, NoDrain: true,
		mk: func() *impl {
			st := newSyncNexusStore()
			cfg := nexus.DefaultClientConfig()
			cfg.HeartbeatInterval = 1000 * time.Hour
			c := nexus.NewClient(cfg, st, zap.NewNop())
			if err := c.Pools.Put(bg, "pool1", &nexus.IPPool{ID: "pool1", CIDR: g.CIDR, Type: "residential"}); err != nil {
				panic(err)
			}
			for i := 1; i <= nsubsTotal; i++ {
				if err := c.Subscribers.Put(bg, ids(i), &nexus.Subscriber{ID: ids(i), IPv4Pool: "pool1", State: "active"}); err != nil {
					panic(err)
				}
			}
			if err := c.Start(); err != nil {
				panic(err)
			}
			im := &impl{closeFn: func() { c.Stop() }}
			im.fp = func() string {
				var sb strings.Builder
				for i := 1; i <= nsubsTotal; i++ {
					ip, _ := c.LookupSubscriberIP(ids(i))
					sb.WriteString(ip + ";")
					s, _ := c.Subscribers.Get(bg, ids(i))
					if s != nil {
						sb.WriteString(s.IPv4Addr)
					}
					sb.WriteString("|")
				}
				return sb.String()
			}
			im.lookup = func(id string) int {
				ip, ok := c.LookupSubscriberIP(id)
				if !ok {
					return -1
				}
				return g.UnitOfIP(net.ParseIP(ip))
			}
			im.alloc = func(id string) (int, error) {
				ip, err := c.AllocateIPForSubscriber(bg, id)
				if err != nil {
					return -1, err
				}
				return g.UnitOfIP(net.ParseIP(ip)), nil
			}
			im.release = func(id string) error { return c.ReleaseSubscriberIP(bg, id) }
			return im
		}}
}
