//go:build verif

package pools

import (
	"encoding/json"
	"fmt"
	"math/rand"
	"os"
	"testing"

	"verifharness/core"
)

type replayCase struct {
	ID     string       `json:"id"`
	System string       `json:"system"`
	NSubs  int          `json:"nsubs"`
	Events []core.Event `json:"events"`
}

type replayFile struct {
	Property string       `json:"property"`
	Cases    []replayCase `json:"cases"`
}

type runStats struct {
	Systems     int                `json:"systems"`
	Nodes       int                `json:"nodes"`
	Edges       int                `json:"edges"`
	Chains      int                `json:"chains"`
	ChainEvents int                `json:"chain_events"`
	Closed      int                `json:"closed_systems"`
	Panics      []core.PanicRecord `json:"panics"`
	PerSystem   map[string][3]int  `json:"per_system"` // nodes, edges, closed(1/0)
}

// TestExplore extracts the transition tables of every small pool and runs long random
// sequences on the large ones; the bundle is checked by TLC against PoolContract.
func TestExplore(t *testing.T) {
	out := core.OutDir()
	if rf := os.Getenv("VERIF_REPLAY"); rf != "" {
		replay(t, rf, out)
		return
	}
	tier := core.Tier()
	seed := core.Seed()
	depth, maxNodes, nsubs := 6, 4000, 3
	nchains, chainLen, bigSubs := 6, 300, 40
	if tier == "thorough" {
		depth, maxNodes = 9, 60000
		nchains, chainLen, bigSubs = 40, 1500, 60
	}
	bundle := &core.Bundle{}
	st := runStats{PerSystem: map[string][3]int{}}
	for _, a := range Catalogue() {
		sys := NewPoolSystem(a, nsubs, nil)
		tab, panics, err := core.Explore(sys, core.ExploreOptions{MaxDepth: depth, MaxNodes: maxNodes, AdequacySample: 5, Seed: seed})
		if err != nil {
			t.Fatalf("explore %s: %v", a.Name(), err)
		}
		st.Panics = append(st.Panics, panics...)
		bundle.Systems = append(bundle.Systems, tab)
		ne := 0
		for _, es := range tab.Edges {
			ne += len(es)
		}
		c := 0
		if tab.Closed {
			c = 1
			st.Closed++
		}
		st.PerSystem[a.Name()] = [3]int{len(tab.Nodes), ne, c}
		st.Systems++
		st.Nodes += len(tab.Nodes)
		st.Edges += ne
	}
	// the allocator over the scripted store with remote changes, restarts and failing writes (also C12)
	for _, ps := range []*PersistSystem{NewPersistSystem(G4_29, "lease", 1, nsubs), NewPersistSystem(G4_30, "session", 0, nsubs)} {
		d, mn := 4, 2500
		if tier == "thorough" {
			d, mn = 6, 25000
		}
		tab, panics, err := core.Explore(ps, core.ExploreOptions{MaxDepth: d, MaxNodes: mn, AdequacySample: 3, Seed: seed})
		if err != nil {
			t.Fatalf("explore %s: %v", ps.Name(), err)
		}
		st.Panics = append(st.Panics, panics...)
		bundle.Systems = append(bundle.Systems, tab)
		ne := 0
		for _, es := range tab.Edges {
			ne += len(es)
		}
		st.PerSystem[ps.Name()] = [3]int{len(tab.Nodes), ne, 0}
		st.Systems++
		st.Nodes += len(tab.Nodes)
		st.Edges += ne
	}
	// two gateways sharing one store (cross-node uniqueness)
	for _, tn := range twoNodeSystems() {
		d, mn := 5, 3000
		if tier == "thorough" {
			d, mn = 7, 30000
		}
		tab, panics, err := core.Explore(tn, core.ExploreOptions{MaxDepth: d, MaxNodes: mn, AdequacySample: 3, Seed: seed})
		if err != nil {
			t.Fatalf("explore %s: %v", tn.Name(), err)
		}
		st.Panics = append(st.Panics, panics...)
		bundle.Systems = append(bundle.Systems, tab)
		ne := 0
		for _, es := range tab.Edges {
			ne += len(es)
		}
		st.PerSystem[tn.Name()] = [3]int{len(tab.Nodes), ne, 0}
		st.Systems++
		st.Nodes += len(tab.Nodes)
		st.Edges += ne
	}
	rng := rand.New(rand.NewSource(seed))
	for _, a := range LargeCatalogue(bigSubs) {
		sys := NewPoolSystem(a, bigSubs, nil)
		evs := sys.Events()
		for c := 0; c < nchains; c++ {
			// bias: phases of mostly-allocate and mostly-release so exhaustion and reuse are reached
			var seqv []core.Event
			for i := 0; i < chainLen; i++ {
				seqv = append(seqv, evs[rng.Intn(len(evs))])
			}
			tab, pr := core.Chain(sys, fmt.Sprintf("%s#%d", a.Name(), c), seqv, true)
			if pr != nil {
				st.Panics = append(st.Panics, *pr)
				continue
			}
			bundle.Systems = append(bundle.Systems, tab)
			st.Chains++
			st.ChainEvents += len(seqv)
		}
	}
	// a pool wider than a /24 whose gateway lies beyond its first 256 addresses: one subscriber allocating and
	// releasing walks through the pool's free list (released addresses go to its end), so every address the pool
	// would hand out is judged - the special addresses of such a pool are reached only by the 256th request
	{
		a := dhcpPoolAdapterGW(G4_23, 0, 257)
		sys := NewPoolSystem(a, 3, nil)
		var seqv []core.Event
		for i := 0; i < a.Geo.NUnits()+8; i++ {
			seqv = append(seqv, core.Event{"op": "alloc", "sub": 1 + i%2, "arg": -1}, core.Event{"op": "release", "sub": 1 + i%2, "arg": -1})
		}
		tab, pr := core.Chain(sys, a.Name()+"#walk", seqv, true)
		if pr != nil {
			st.Panics = append(st.Panics, *pr)
		} else {
			bundle.Systems = append(bundle.Systems, tab)
			st.Chains++
			st.ChainEvents += len(seqv)
		}
	}
	if err := core.WriteJSON(out, "bundle.json", bundle); err != nil {
		t.Fatal(err)
	}
	if err := core.WriteJSON(out, "stats.json", st); err != nil {
		t.Fatal(err)
	}
}

// TestExplorePersist extracts the tables of DistributedAllocator over the scripted store (C12)
// and of the allocators that support a marshal round trip.
func TestExplorePersist(t *testing.T) {
	out := core.OutDir()
	if rf := os.Getenv("VERIF_REPLAY"); rf != "" {
		replay(t, rf, out)
		return
	}
	tier := core.Tier()
	seed := core.Seed()
	depth, maxNodes, nsubs := 5, 2500, 3
	if tier == "thorough" {
		depth, maxNodes = 7, 20000
	}
	bundle := &core.Bundle{}
	st := runStats{PerSystem: map[string][3]int{}}
	var systems []core.System
	for _, s := range persistSystems(nsubs) {
		if s.NSubs == nsubs {
			systems = append(systems, s)
		}
	}
	for _, a := range Catalogue() {
		for _, o := range a.Ops {
			if o == "reload" && a.Impl != "allocator.DistributedAllocator-session" {
				systems = append(systems, NewPoolSystem(a, nsubs, nil))
			}
		}
	}
	for _, sys := range systems {
		tab, panics, err := core.Explore(sys, core.ExploreOptions{MaxDepth: depth, MaxNodes: maxNodes, AdequacySample: 5, Seed: seed})
		if err != nil {
			t.Fatalf("explore %s: %v", sys.Name(), err)
		}
		st.Panics = append(st.Panics, panics...)
		bundle.Systems = append(bundle.Systems, tab)
		ne := 0
		for _, es := range tab.Edges {
			ne += len(es)
		}
		c := 0
		if tab.Closed {
			c = 1
			st.Closed++
		}
		st.PerSystem[sys.Name()] = [3]int{len(tab.Nodes), ne, c}
		st.Systems++
		st.Nodes += len(tab.Nodes)
		st.Edges += ne
	}
	// long random chains on larger pools
	rng := rand.New(rand.NewSource(seed))
	nchains, chainLen := 6, 200
	if tier == "thorough" {
		nchains, chainLen = 40, 800
	}
	for _, ps := range []*PersistSystem{NewPersistSystem(G4_28, "session", 0, 4), NewPersistSystem(G4_28, "lease", 1, 4), NewPersistSystem(G6_57, "session", 0, 4)} {
		evs := ps.Events()
		for c := 0; c < nchains; c++ {
			var seqv []core.Event
			for i := 0; i < chainLen; i++ {
				seqv = append(seqv, evs[rng.Intn(len(evs))])
			}
			tab, pr := core.Chain(ps, fmt.Sprintf("%s#%d", ps.Name(), c), seqv, false)
			if pr != nil {
				st.Panics = append(st.Panics, *pr)
				continue
			}
			bundle.Systems = append(bundle.Systems, tab)
			st.Chains++
			st.ChainEvents += len(seqv)
		}
	}
	if err := core.WriteJSON(out, "bundle.json", bundle); err != nil {
		t.Fatal(err)
	}
	if err := core.WriteJSON(out, "stats.json", st); err != nil {
		t.Fatal(err)
	}
}

func twoNodeSystems() []*TwoNodeSystem {
	return []*TwoNodeSystem{NewTwoNodeSystem(G4_29, "lease", 1, 3), NewTwoNodeSystem(G4_30, "session", 0, 3)}
}

func persistSystems(nsubs int) []*PersistSystem {
	return []*PersistSystem{
		NewPersistSystem(G4_29, "session", 0, nsubs),
		NewPersistSystem(G4_30, "session", 0, nsubs),
		NewPersistSystem(G6_61, "session", 0, nsubs),
		NewPersistSystem(G4_28_30, "session", 0, nsubs),
		NewPersistSystem(G4_29, "lease", 1, nsubs),
		NewPersistSystem(G4_29hi, "lease", 2, nsubs),
		NewPersistSystem(G4_28, "session", 0, 4), NewPersistSystem(G4_28, "lease", 1, 4), NewPersistSystem(G6_57, "session", 0, 4),
		NewPersistSystem(G4_30, "session", 0, nsubs).WithLineIDs(), NewPersistSystem(G4_29, "lease", 1, nsubs).WithLineIDs(),
	}
}

func findSystem(name string, nsubs int) (core.System, bool) {
	for _, ps := range persistSystems(nsubs) {
		if ps.Name() == name && ps.NSubs == nsubs {
			return ps, true
		}
	}
	for _, tn := range twoNodeSystems() {
		if tn.Name() == name {
			return tn, true
		}
	}
	if a, ok := FindAdapter(name, nsubs); ok {
		return NewPoolSystem(a, nsubs, nil), true
	}
	return nil, false
}

func replay(t *testing.T, file, out string) {
	b, err := os.ReadFile(file)
	if err != nil {
		t.Fatal(err)
	}
	var rf replayFile
	if err := json.Unmarshal(b, &rf); err != nil {
		t.Fatal(err)
	}
	st := runStats{PerSystem: map[string][3]int{}}
	bundle := &core.Bundle{}
	for _, c := range rf.Cases {
		name := c.System
		for i := 0; i < len(name); i++ {
			if name[i] == '#' {
				name = name[:i]
				break
			}
		}
		sys, ok := findSystem(name, c.NSubs)
		if !ok {
			t.Fatalf("unknown system %q", c.System)
		}
		tab, pr := core.Chain(sys, name+"#"+c.ID, c.Events, true)
		if pr != nil {
			st.Panics = append(st.Panics, *pr)
			continue
		}
		bundle.Systems = append(bundle.Systems, tab)
		st.Chains++
	}
	if err := core.WriteJSON(out, "bundle.json", bundle); err != nil {
		t.Fatal(err)
	}
	core.WriteJSON(out, "stats.json", st)
}
