// Package pools binds every address/prefix pool implementation of the gateway to the
// PoolContract specification (properties C01, C05; C12 builds on the same adapters).
package pools

import (
	"math/big"
	"net"
)

// Geometry describes one pool layout. Units are abstract indices 0..N-1: unit u is the
// prefix base + u*2^(bits-alloc).
type Geometry struct {
	Name  string
	CIDR  string
	Alloc int // allocated prefix length
}

func (g Geometry) parse() (base net.IP, poolLen, bits int) {
	_, n, err := net.ParseCIDR(g.CIDR)
	if err != nil {
		panic(err)
	}
	poolLen, bits = n.Mask.Size()
	return n.IP, poolLen, bits
}

func (g Geometry) NUnits() int {
	_, pl, _ := g.parse()
	return 1 << (g.Alloc - pl)
}

func (g Geometry) IsV6() bool { _, _, bits := g.parse(); return bits == 128 }

// UnitIP returns the first address of unit u.
func (g Geometry) UnitIP(u int) net.IP {
	base, _, bits := g.parse()
	b := new(big.Int).SetBytes(base.To16())
	step := new(big.Int).Lsh(big.NewInt(1), uint(bits-g.Alloc))
	b.Add(b, new(big.Int).Mul(step, big.NewInt(int64(u))))
	raw := b.Bytes()
	out := make([]byte, 16)
	copy(out[16-len(raw):], raw)
	if bits == 32 {
		return net.IP(out[12:])
	}
	return net.IP(out)
}

func (g Geometry) UnitNet(u int) *net.IPNet {
	_, _, bits := g.parse()
	return &net.IPNet{IP: g.UnitIP(u), Mask: net.CIDRMask(g.Alloc, bits)}
}

// UnitOfIP maps an address to its unit; -2 when it is outside the pool or not on a unit boundary.
func (g Geometry) UnitOfIP(ip net.IP) int {
	if ip == nil {
		return -2
	}
	base, _, bits := g.parse()
	if (bits == 32) != (ip.To4() != nil) {
		return -2
	}
	off := new(big.Int).Sub(new(big.Int).SetBytes(ip.To16()), new(big.Int).SetBytes(base.To16()))
	if off.Sign() < 0 {
		return -2
	}
	step := new(big.Int).Lsh(big.NewInt(1), uint(bits-g.Alloc))
	q, r := new(big.Int).QuoRem(off, step, new(big.Int))
	if r.Sign() != 0 || q.Cmp(big.NewInt(int64(g.NUnits()))) >= 0 {
		return -2
	}
	return int(q.Int64())
}

// UnitOfNet additionally requires the mask length to be the allocation length.
func (g Geometry) UnitOfNet(n *net.IPNet) int {
	if n == nil {
		return -2
	}
	ones, _ := n.Mask.Size()
	if ones != g.Alloc {
		return -2
	}
	return g.UnitOfIP(n.IP)
}

func seq(from, to int) []int {
	var out []int
	for i := from; i <= to; i++ {
		out = append(out, i)
	}
	return out
}

func without(xs []int, drop ...int) []int {
	var out []int
outer:
	for _, x := range xs {
		for _, d := range drop {
			if x == d {
				continue outer
			}
		}
		out = append(out, x)
	}
	return out
}
