//go:build verif

package pools

import (
	"context"
	"encoding/json"
	"fmt"
	"net"
	"time"

	"github.com/codelaboratoryltd/bng/pkg/allocator"

	"verifharness/core"
)

// PersistSystem drives allocator.DistributedAllocator over the scripted store with store
// faults, restarts from the store under every query order, and changes announced by
// another node (property C12).
type PersistSystem struct {
	Geo   Geometry
	Mode  allocator.PoolMode
	Grace int
	NSubs int
	// LineIDs: subscribers are named like access lines ("olt-1/0/<n>": the identifier itself contains the key separator)
	LineIDs bool
	events  []core.Event
}

// WithLineIDs returns a copy of s whose subscriber identifiers contain '/'.
func (s *PersistSystem) WithLineIDs() *PersistSystem {
	c := *s
	c.LineIDs = true
	return &c
}

func (s *PersistSystem) subID(i int) string {
	if s.LineIDs {
		return fmt.Sprintf("olt-1/0/%d", i)
	}
	return defaultSubID(i)
}

func NewPersistSystem(g Geometry, mode allocator.PoolMode, grace, nsubs int) *PersistSystem {
	s := &PersistSystem{Geo: g, Mode: mode, Grace: grace, NSubs: nsubs}
	for sub := 1; sub <= nsubs; sub++ {
		for _, o := range []string{"alloc", "release", "allocf", "releasef", "allocm", "allocmf"} {
			s.events = append(s.events, core.Event{"op": o, "sub": sub, "arg": -1})
		}
		if mode == allocator.PoolModeLease {
			s.events = append(s.events, core.Event{"op": "renew", "sub": sub, "arg": -1}, core.Event{"op": "renewf", "sub": sub, "arg": -1})
		}
		for _, u := range s.usable()[:2] {
			s.events = append(s.events, core.Event{"op": "rput", "sub": sub, "arg": u})
		}
		s.events = append(s.events, core.Event{"op": "rdel", "sub": sub, "arg": -1})
	}
	nperm := 1
	for i := 2; i <= nsubs; i++ {
		nperm *= i
	}
	for k := 0; k < nperm; k++ {
		s.events = append(s.events, core.Event{"op": "restart", "sub": 0, "arg": k})
	}
	if mode == allocator.PoolModeLease {
		s.events = append(s.events, core.Event{"op": "advance", "sub": 0, "arg": -1})
	}
	return s
}

func (s *PersistSystem) usable() []int {
	n := s.Geo.NUnits()
	if s.Mode == allocator.PoolModeLease {
		return seq(1, n-2)
	}
	return seq(0, n-1)
}

func (s *PersistSystem) Name() string {
	if s.LineIDs {
		return fmt.Sprintf("persist.DistributedAllocator-%s/%s/g%d/lineids", s.Mode, s.Geo.Name, s.Grace)
	}
	return fmt.Sprintf("persist.DistributedAllocator-%s/%s/g%d", s.Mode, s.Geo.Name, s.Grace)
}
func (s *PersistSystem) Config() map[string]any {
	mode := "session"
	if s.Mode == allocator.PoolModeLease {
		mode = "lease"
	}
	return map[string]any{"impl": "persist.DistributedAllocator-" + mode, "geo": s.Geo.Name, "mode": mode, "grace": s.Grace,
		"nsubs": s.NSubs, "usable": s.usable(), "nunits": s.Geo.NUnits()}
}
func (s *PersistSystem) Events() []core.Event { return s.events }

type persistInst struct {
	s      *PersistSystem
	st     *KVStore
	da     *allocator.DistributedAllocator
	ctx    context.Context
	cancel context.CancelFunc
}

func (s *PersistSystem) New() core.Instance {
	p := &persistInst{s: s, st: NewKVStore()}
	p.ctx, p.cancel = context.WithCancel(bg)
	p.start()
	return p
}

func (p *persistInst) start() {
	da, err := allocator.NewDistributedAllocator(allocator.DistributedConfig{PoolID: "p", BaseNetwork: p.s.Geo.CIDR, PrefixLen: p.s.Geo.Alloc,
		Mode: p.s.Mode, EpochGrace: p.s.Grace, EpochPeriod: 1000 * time.Hour}, p.st)
	if err != nil {
		panic(err)
	}
	if err := da.Start(p.ctx); err != nil {
		panic(err)
	}
	p.da = da
}

func (p *persistInst) key(sub int) string { return "/allocation/p/" + p.s.subID(sub) }

func (p *persistInst) Apply(ev core.Event) map[string]any {
	op := ev["op"].(string)
	sub := toInt(ev["sub"])
	arg := toInt(ev["arg"])
	id := p.s.subID(sub)
	g := p.s.Geo
	switch op {
	case "alloc", "allocf":
		p.st.FailPut = op == "allocf"
		pf, err := p.da.Allocate(bg, id)
		p.st.FailPut = false
		if err != nil {
			return res(false, -1, err, op == "allocf")
		}
		return res(true, g.UnitOfNet(pf), nil, op == "allocf")
	case "allocm", "allocmf": // AllocateWithMAC: its own copy of the allocate / persist / roll back sequence
		p.st.FailPut = op == "allocmf"
		pf, err := p.da.AllocateWithMAC(bg, id, net.HardwareAddr{2, 0, 0, 0, 0, byte(sub)})
		p.st.FailPut = false
		if err != nil {
			return res(false, -1, err, op == "allocmf")
		}
		return res(true, g.UnitOfNet(pf), nil, op == "allocmf")
	case "release", "releasef":
		p.st.FailDel = op == "releasef"
		err := p.da.Release(bg, id)
		p.st.FailDel = false
		return res(err == nil, -1, err, op == "releasef")
	case "renew", "renewf":
		p.st.FailPut = op == "renewf"
		err := p.da.Renew(bg, id)
		p.st.FailPut = false
		return res(err == nil, -1, err, op == "renewf")
	case "advance":
		p.da.VerifEpochTick(bg) // one iteration of the allocator's epoch loop
		return res(true, -1, nil, false)
	case "restart":
		p.st.Perm = arg
		p.start()
		p.st.Perm = 0
		return res(true, -1, nil, false)
	case "rput":
		// environment assumption: another node never announces an address the store already
		// records for a different subscriber (cross-node uniqueness is the store's contract)
		for i := 1; i <= p.s.NSubs; i++ {
			if i == sub {
				continue
			}
			if raw, ok := p.st.Data[p.key(i)]; ok {
				var other allocator.DistributedAllocation
				if json.Unmarshal(raw, &other) == nil && other.Prefix == g.UnitNet(arg).String() {
					// the conflicting announcement reaches the watch callback only; the statement is silent about what
					// it should do with it (ok = false: no claim), but whatever it does must not break anything else
					rec := allocator.DistributedAllocation{PoolID: "p", SubscriberID: id, Prefix: g.UnitNet(arg).String(), Epoch: p.da.GetCurrentEpoch(), AllocatedAt: time.Unix(0, 0).UTC()}
					b, _ := json.Marshal(rec)
					p.st.Announce(p.key(sub), b)
					return res(false, arg, fmt.Errorf("conflict: address recorded for another subscriber; announced to the watch callback only"), false)
				}
			}
		}
		rec := allocator.DistributedAllocation{PoolID: "p", SubscriberID: id, Prefix: g.UnitNet(arg).String(), Epoch: p.da.GetCurrentEpoch(), AllocatedAt: time.Unix(0, 0).UTC()}
		b, _ := json.Marshal(rec)
		p.st.Deliver(p.key(sub), b, false)
		return res(true, arg, nil, false)
	case "rdel":
		p.st.Deliver(p.key(sub), nil, true)
		return res(true, -1, nil, false)
	}
	panic("unknown op " + op)
}

func (p *persistInst) Observe() map[string]any {
	lk := make([]int, p.s.NSubs)
	stv := make([]int, p.s.NSubs)
	for i := 1; i <= p.s.NSubs; i++ {
		lk[i-1] = -1
		if pf, ok := p.da.Get(p.s.subID(i)); ok && pf != nil {
			lk[i-1] = p.s.Geo.UnitOfNet(pf)
		}
		stv[i-1] = -1
		if raw, ok := p.st.Data[p.key(i)]; ok {
			var rec allocator.DistributedAllocation
			if json.Unmarshal(raw, &rec) == nil {
				if _, n, err := net.ParseCIDR(rec.Prefix); err == nil {
					stv[i-1] = p.s.Geo.UnitOfNet(n)
				} else {
					stv[i-1] = -2
				}
			}
		}
	}
	st := p.da.Stats()
	return map[string]any{"lookup": lk, "store": stv, "alloc": st.Allocated, "total": st.Total, "drain": -1}
}

func (p *persistInst) Fingerprint() string {
	return core.Fingerprint(p.da, fpOpt) + "##" + core.Fingerprint(p.st.Canon(), nil)
}

// Probe drains the pool with fresh subscribers (as in PoolSystem).
func (p *persistInst) Probe() map[string]any {
	n := 0
	seen := map[int]bool{}
	for i := 0; i < p.s.Geo.NUnits()+2; i++ {
		pf, err := p.da.Allocate(bg, p.s.subID(1000+i))
		if err != nil {
			break
		}
		u := p.s.Geo.UnitOfNet(pf)
		if seen[u] {
			return map[string]any{"drain": -2}
		}
		seen[u] = true
		n++
	}
	return map[string]any{"drain": n}
}
func (p *persistInst) Close() { p.cancel() }
