package coa

import (
	"encoding/hex"
	"encoding/json"
	"fmt"
	"math/rand"
	"os"
	"sort"
	"strings"
	"sync"
	"testing"

	"verifharness/core"
)

type replayCase struct {
	ID     string         `json:"id"`
	System string         `json:"system"`
	Events []core.Event   `json:"events"`
	Cfg    map[string]any `json:"cfg"`
}

type replayFile struct {
	Property string       `json:"property"`
	Cases    []replayCase `json:"cases"`
}

type runStats struct {
	Chains          int                `json:"chains"`
	ChainEvents     int                `json:"chain_events"`
	Listeners       int                `json:"listener_secrets"`
	ByKind          map[string]int     `json:"by_kind"`
	ByClass         map[string]int     `json:"by_class"`
	AbstractClasses int                `json:"abstract_classes_from_tlc"`
	ClassesCovered  int                `json:"abstract_classes_concretised"`
	Crashes         int                `json:"child_crashes"`
	DeadListeners   int                `json:"dead_listeners"`
	ChildProcesses  int                `json:"child_processes"`
	Tripped         bool               `json:"circuit_breaker_tripped"`
	Skipped         int                `json:"skipped_events"`
	Panics          []core.PanicRecord `json:"panics"`
}

// TestChild is the body of the child process that hosts the real listener.
func TestChild(t *testing.T) {
	if os.Getenv("VERIF_COA_CHILD") != "1" {
		t.Skip("child mode only")
	}
	childMain()
}

var listenerSecrets = [][]byte{
	[]byte("testing123"),
	// leading and trailing white space is part of the secret ("all secrets"): the configured bytes are
	// the key, verbatim
	[]byte(" s3cret with spaces\t\n"),
	[]byte("s"),
	[]byte("a-rather-long-shared-secret-that-is-longer-than-one-md5-block-of-64-bytes-0123456789"),
	{0x00, 0xff, 0x80, 'b', 'i', 'n', 0x0a, 0x00},
	[]byte("s\xc3\xa9cret \xe2\x9c\x93"),
}

func loadClasses(t *testing.T) []absClass {
	paths := []string{os.Getenv("VERIF_COA_CLASSES"), "../tlc_MC_design/classes.json"}
	for _, p := range paths {
		if p == "" {
			continue
		}
		b, err := os.ReadFile(p)
		if err != nil {
			continue
		}
		var cs []absClass
		if err := json.Unmarshal(b, &cs); err != nil {
			t.Fatalf("classes file %s: %v", p, err)
		}
		return cs
	}
	t.Fatalf("abstract classes (classes.json written by the TLC run of CoaAuthDesign) not found in %v", paths)
	return nil
}

type chainJob struct {
	name   string
	secret []byte
	evs    []core.Event
}

func toEvents(ds []dg) []core.Event {
	out := make([]core.Event, len(ds))
	for i, d := range ds {
		out[i] = core.Event{"op": "dgram", "kind": d.Kind, "hex": hex.EncodeToString(d.B)}
		if len(d.Prior) > 0 {
			var ps []string
			for _, pb := range d.Prior {
				ps = append(ps, hex.EncodeToString(pb))
			}
			out[i]["prior"] = ps
		}
	}
	return out
}

// TestExplore delivers the datagram corpus to real listeners and writes every (abstract datagram,
// observed outcome) as chain events for TLC.
func TestExplore(t *testing.T) {
	out := core.OutDir()
	if rf := os.Getenv("VERIF_REPLAY"); rf != "" {
		replay(t, rf, out)
		return
	}
	thorough := core.Tier() == "thorough"
	seed := core.Seed()
	rng := rand.New(rand.NewSource(seed))
	classes := loadClasses(t)
	st := runStats{ByKind: map[string]int{}, ByClass: map[string]int{}, AbstractClasses: len(classes)}

	chainLen := 100
	var jobs []chainJob
	nsecrets := 2
	if thorough {
		nsecrets = len(listenerSecrets)
	}
	for si := 0; si < nsecrets; si++ {
		secret := listenerSecrets[si]
		var ds []dg
		bases := baseRequests(secret, rng, thorough)
		full := si == 0 // the complete corpus against the first listener, a reduced one against the others
		if full {
			// every abstract class enumerated by TLC, concretised
			for _, c := range classes {
				b, err := concretise(c, secret, rng)
				if err != nil {
					t.Fatalf("generator: %v", err)
				}
				ds = append(ds, dg{Kind: "class:" + c.Expect, B: b})
				st.ClassesCovered++
			}
		}
		for bi, base := range bases {
			if !full && bi >= 3 {
				break
			}
			ds = append(ds, mutationsOf(base, secret, rng, thorough, thorough && full)...)
		}
		nrandom := 1200
		if thorough {
			nrandom = 6000
		}
		if !full {
			nrandom /= 4
		}
		ds = append(ds, globalDatagrams(bases, secret, rng, nrandom)...)
		ds = append(ds, pairDatagrams(bases, secret, rng, full)...)
		evs := toEvents(ds)
		for k := 0; k*chainLen < len(evs); k++ {
			hi := (k + 1) * chainLen
			if hi > len(evs) {
				hi = len(evs)
			}
			jobs = append(jobs, chainJob{fmt.Sprintf("coa-secret%d#%d", si, k), secret, evs[k*chainLen : hi]})
		}
		st.Listeners++
	}
	tabs, pools := runJobs(t, out, jobs, 4)
	bundle := &core.Bundle{}
	for _, tab := range tabs {
		bundle.Systems = append(bundle.Systems, tab)
		st.Chains++
		for _, es := range tab.Edges {
			for _, e := range es {
				if e.Ev["op"] == "skipped" {
					st.Skipped++
					continue
				}
				st.ChainEvents++
				st.ByKind[strings.SplitN(fmt.Sprint(e.Ev["kind"]), ":", 2)[0]]++
				st.ByClass[fmt.Sprint(e.Ev["class"])]++
			}
		}
	}
	for _, p := range pools {
		st.Crashes += p.Crashes
		st.DeadListeners += p.Dead
		st.ChildProcesses += p.Spawns
		st.Tripped = st.Tripped || p.Tripped
	}
	if err := core.WriteJSON(out, "bundle.json", bundle); err != nil {
		t.Fatal(err)
	}
	if err := core.WriteJSON(out, "stats.json", st); err != nil {
		t.Fatal(err)
	}
	t.Logf("chains=%d events=%d crashes=%d dead=%d children=%d tripped=%v", st.Chains, st.ChainEvents, st.Crashes, st.DeadListeners, st.ChildProcesses, st.Tripped)
}

// runJobs executes the chains on `workers` child processes; the result order is the job order.
func runJobs(t *testing.T, out string, jobs []chainJob, workers int) ([]*core.Table, []*pool) {
	if workers > len(jobs) {
		workers = len(jobs)
	}
	if workers < 1 {
		workers = 1
	}
	tabs := make([]*core.Table, len(jobs))
	fails := make([]string, len(jobs))
	pools := make([]*pool, workers)
	var wg sync.WaitGroup
	next := make(chan int)
	for w := 0; w < workers; w++ {
		dir := out
		if w > 0 {
			dir = fmt.Sprintf("%s/w%d", out, w)
			os.MkdirAll(dir, 0o755)
		}
		p, err := newPool(dir)
		if err != nil {
			t.Fatal(err)
		}
		pools[w] = p
		wg.Add(1)
		go func(p *pool) {
			defer wg.Done()
			defer p.shutdown()
			for j := range next {
				sys := &coaSystem{name: strings.SplitN(jobs[j].name, "#", 2)[0], secret: jobs[j].secret, p: p}
				tab, pr := core.Chain(sys, jobs[j].name, jobs[j].evs, false)
				if pr != nil {
					fails[j] = pr.Msg
					p.mu.Lock()
					p.kill()
					p.mu.Unlock()
					continue
				}
				tabs[j] = tab
			}
		}(p)
	}
	for j := range jobs {
		next <- j
	}
	close(next)
	wg.Wait()
	for j, f := range fails {
		if f != "" {
			// a failure of the harness itself (never of the code under test): no verdict
			t.Fatalf("harness failure in chain %s: %s", jobs[j].name, f)
		}
	}
	return tabs, pools
}

func replay(t *testing.T, file, out string) {
	b, err := os.ReadFile(file)
	if err != nil {
		t.Fatal(err)
	}
	var rf replayFile
	if err := json.Unmarshal(b, &rf); err != nil {
		t.Fatal(err)
	}
	st := runStats{ByKind: map[string]int{}, ByClass: map[string]int{}}
	var jobs []chainJob
	for _, c := range rf.Cases {
		name := strings.SplitN(c.System, "#", 2)[0]
		sh, _ := c.Cfg["secret"].(string)
		secret, err := hex.DecodeString(sh)
		if err != nil || len(secret) == 0 {
			t.Fatalf("replay case %s: no listener secret in cfg", c.ID)
		}
		var evs []core.Event
		for _, e := range c.Events {
			ne := core.Event{"op": "dgram", "kind": e["kind"], "hex": e["hex"]}
			if pv, ok := e["prior"]; ok {
				ne["prior"] = pv
			}
			evs = append(evs, ne)
		}
		jobs = append(jobs, chainJob{name + "#" + c.ID, secret, evs})
	}
	// one fresh child process per case: a replay never shares a process with another case
	bundle := &core.Bundle{}
	for i := range jobs {
		dir := fmt.Sprintf("%s/case%d", out, i)
		os.MkdirAll(dir, 0o755)
		tabs, pools := runJobs(t, dir, jobs[i:i+1], 1)
		bundle.Systems = append(bundle.Systems, tabs[0])
		st.Chains++
		st.ChainEvents += len(jobs[i].evs)
		st.Crashes += pools[0].Crashes
		st.DeadListeners += pools[0].Dead
		st.ChildProcesses += pools[0].Spawns
	}
	sort.SliceStable(bundle.Systems, func(a, b int) bool { return bundle.Systems[a].Name < bundle.Systems[b].Name })
	if err := core.WriteJSON(out, "bundle.json", bundle); err != nil {
		t.Fatal(err)
	}
	core.WriteJSON(out, "stats.json", st)
}
