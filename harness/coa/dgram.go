// Package coa binds property C15 (CoA / Disconnect requests are acted on only if authentic)
// to the real radius.CoAServer + radius.CoAProcessor.
//
// Trusted base of this family (everything else is judged by TLC against specs/CoaAuth):
//   - classify(): bytes -> abstract datagram [len, declared, code, id, authOK, attrsWF], with the
//     harness's own MD5 (reqAuth) and its own strict attribute walk (attrsWellFormed);
//   - respVerifies(): Response Authenticator check with the harness's own MD5;
//   - the delivery / observation protocol in child.go (one datagram, then a correctly signed
//     sentinel from a second socket; everything that arrives on the first socket is a response
//     to the datagram, every handler invocation that is not the sentinel's belongs to it).
package coa

import (
	"crypto/md5"
	"encoding/binary"
	"encoding/hex"
	"fmt"
	"math/rand"
)

// ---- trusted decoding -------------------------------------------------------------------------

// reqAuth is the RFC 5176 Request Authenticator of the first `declared` bytes of b.
func reqAuth(b []byte, declared int, secret []byte) [16]byte {
	h := md5.New()
	h.Write(b[0:4])
	h.Write(make([]byte, 16))
	h.Write(b[20:declared])
	h.Write(secret)
	var out [16]byte
	copy(out[:], h.Sum(nil))
	return out
}

// attrsWellFormed: the area is a sequence of whole attributes (type, length >= 2, value).
func attrsWellFormed(a []byte) bool {
	off := 0
	for off < len(a) {
		if off+2 > len(a) {
			return false
		}
		l := int(a[off+1])
		if l < 2 || off+l > len(a) {
			return false
		}
		off += l
	}
	return true
}

type absDgram struct {
	Len, Declared, Code, ID int
	AuthOK, AttrsWF         bool
}

func classify(b, secret []byte) absDgram {
	d := absDgram{Len: len(b), Declared: -1, Code: -1, ID: -1}
	if len(b) >= 1 {
		d.Code = int(b[0])
	}
	if len(b) >= 2 {
		d.ID = int(b[1])
	}
	if len(b) >= 4 {
		d.Declared = int(binary.BigEndian.Uint16(b[2:4]))
	}
	if d.Len >= 20 && d.Declared >= 20 && d.Declared <= d.Len {
		want := reqAuth(b, d.Declared, secret)
		d.AuthOK = string(want[:]) == string(b[4:20])
		d.AttrsWF = attrsWellFormed(b[20:d.Declared])
	}
	return d
}

// class is a coarse, human-readable name of the abstract class (used only to group reports).
func (d absDgram) class() string {
	complete := d.Len >= 20 && d.Declared >= 20 && d.Declared <= d.Len
	req := d.Code == 40 || d.Code == 43
	switch {
	case d.Len < 20:
		return "short"
	case d.Declared < 20:
		return "declared<20"
	case d.Declared > d.Len:
		return "declared>len"
	case complete && !d.AuthOK:
		return "bad-authenticator"
	case !req:
		return "authentic-other-code"
	case !d.AttrsWF:
		return "authentic-malformed-attrs"
	case d.Declared > 4096:
		return "authentic-oversize"
	}
	return "authentic-request"
}

// respVerifies: r is a complete RADIUS packet whose Response Authenticator verifies against the
// request's authenticator field (bytes 4..19 of the request as sent).
func respVerifies(r, req, secret []byte) bool {
	if len(r) < 20 || len(req) < 20 {
		return false
	}
	decl := int(binary.BigEndian.Uint16(r[2:4]))
	if decl < 20 || decl > len(r) {
		return false
	}
	h := md5.New()
	h.Write(r[0:4])
	h.Write(req[4:20])
	h.Write(r[20:decl])
	h.Write(secret)
	return string(h.Sum(nil)) == string(r[4:20])
}

// ---- construction of concrete datagrams ---------------------------------------------------------

type dg struct {
	Kind string
	B    []byte
	// datagrams the listener receives from the same source address and port immediately before B
	Prior [][]byte
}

func attr(t byte, v []byte) []byte {
	return append([]byte{t, byte(2 + len(v))}, v...)
}

func cat(parts ...[]byte) []byte {
	var out []byte
	for _, p := range parts {
		out = append(out, p...)
	}
	return out
}

func setLen(b []byte, l int) { binary.BigEndian.PutUint16(b[2:4], uint16(l)) }

// signAs writes the Request Authenticator over b[:declared] (declared clipped to what exists;
// below 20 the attribute area is empty).
func signAs(b []byte, declared int, secret []byte) {
	if len(b) < 20 {
		return
	}
	if declared > len(b) {
		declared = len(b)
	}
	if declared < 20 {
		declared = 20
	}
	a := reqAuth(b, declared, secret)
	copy(b[4:20], a[:])
}

func packet(code, id byte, attrs, secret []byte) []byte {
	b := make([]byte, 20+len(attrs))
	b[0], b[1] = code, id
	setLen(b, len(b))
	copy(b[20:], attrs)
	signAs(b, len(b), secret)
	return b
}

func clone(b []byte) []byte { return append([]byte{}, b...) }

func u32(v uint32) []byte { b := make([]byte, 4); binary.BigEndian.PutUint32(b, v); return b }

// tile fills n bytes with whole attributes (n = 0 or n >= 2).
func tile(n int, rng *rand.Rand) []byte {
	var out []byte
	for n > 0 {
		l := 255
		if n < l {
			l = n
		}
		if n-l == 1 {
			l--
		}
		v := make([]byte, l-2)
		rng.Read(v)
		out = append(out, attr(18, v)...)
		n -= l
	}
	return out
}

// baseRequests are correctly signed CoA / Disconnect requests. Sessions sess-1, sess-2, the address
// 10.0.0.5 and the MAC aa:bb:cc:00:00:01 exist in the harness's session table.
func baseRequests(secret []byte, rng *rand.Rand, thorough bool) [][]byte {
	user := fmt.Sprintf("user%03d", rng.Intn(1000))
	id := func() byte { return byte(rng.Intn(256)) }
	bs := [][]byte{
		packet(43, id(), cat(attr(1, []byte(user)), attr(44, []byte("sess-1")), attr(11, []byte("gold"))), secret),
		packet(40, id(), cat(attr(44, []byte("sess-2")), attr(4, []byte{192, 0, 2, 1})), secret),
		packet(43, id(), cat(attr(8, []byte{10, 0, 0, 5}), attr(27, u32(3600)), attr(28, u32(uint32(rng.Intn(900)+1)))), secret),
		packet(40, id(), attr(31, []byte("aa:bb:cc:00:00:09")), secret),
		packet(43, id(), nil, secret),
		packet(40, id(), cat(attr(26, append(u32(9), 1, 6, 0, 0, 0, 1)), attr(25, nil), attr(44, []byte("nope"))), secret),
	}
	if thorough {
		long := make([]byte, 253)
		rng.Read(long)
		bs = append(bs,
			packet(43, id(), cat(attr(44, []byte("sess-1")), attr(18, long), attr(27, u32(60))), secret),
			packet(40, id(), cat(attr(31, []byte("aa:bb:cc:00:00:01")), attr(1, []byte(user))), secret),
		)
	}
	return bs
}

// wrongSecrets are near misses of s.
func wrongSecrets(s []byte) [][]byte {
	rev := clone(s)
	for i, j := 0, len(rev)-1; i < j; i, j = i+1, j-1 {
		rev[i], rev[j] = rev[j], rev[i]
	}
	up := clone(s)
	up[0] ^= 0x20
	shorter := clone(s[:len(s)-1])
	out := [][]byte{append(clone(s), 'x'), append(clone(s), 0), up, {}, []byte("other-secret"), shorter}
	if string(rev) != string(s) {
		out = append(out, rev)
	}
	return out
}

// mutationsOf yields the datagrams derived from one correctly signed request.
func mutationsOf(base, secret []byte, rng *rand.Rand, thorough bool, byteChanges bool) []dg {
	var out []dg
	add := func(kind string, b []byte) { out = append(out, dg{Kind: kind, B: b}) }
	n := len(base)
	add("valid", clone(base))
	add("valid-duplicate", clone(base))

	// every single-bit flip of header (code, id, length) and Request Authenticator
	for bit := 0; bit < 160; bit++ {
		b := clone(base)
		b[bit/8] ^= 1 << (bit % 8)
		add("bitflip-header", b)
	}
	// every single-bit flip of the attributes, as is and re-signed
	for i := 20; i < n; i++ {
		for bit := 0; bit < 8; bit++ {
			b := clone(base)
			b[i] ^= 1 << bit
			add("bitflip-attr", b)
			c := clone(b)
			signAs(c, n, secret)
			add("bitflip-attr-resigned", c)
		}
	}
	if byteChanges {
		// every single-byte change of the attributes; the re-signed twin for attribute headers
		// and for a sample of value bytes
		off, hdr := 20, map[int]bool{}
		for off+1 < n {
			hdr[off], hdr[off+1] = true, true
			l := int(base[off+1])
			if l < 2 {
				break
			}
			off += l
		}
		for i := 20; i < n; i++ {
			for x := 1; x < 256; x++ {
				b := clone(base)
				b[i] ^= byte(x)
				add("bytechange-attr", b)
				if hdr[i] || rng.Intn(16) == 0 {
					c := clone(b)
					signAs(c, n, secret)
					add("bytechange-attr-resigned", c)
				}
			}
		}
	}
	// truncations: every proper prefix; with the length field adjusted; adjusted and re-signed
	for k := 0; k < n; k++ {
		add("truncate", clone(base[:k]))
		if k >= 4 {
			b := clone(base[:k])
			setLen(b, k)
			add("truncate-fixlen", b)
			if k >= 20 {
				c := clone(b)
				signAs(c, k, secret)
				add("truncate-fixlen-resigned", c)
			}
		}
	}
	// what the listener's reused receive buffer still holds: the genuine request, then a prefix of it that keeps
	// the original Length (the missing bytes are exactly what the previous datagram left behind); twice, so that
	// a cut between two chains cannot separate every pair
	for _, k := range []int{20, 21, n / 2, n - 1} {
		if k >= 4 && k < n {
			add("genuine-again", clone(base))
			add("truncate-after-genuine", clone(base[:k]))
			add("genuine-again", clone(base))
			add("truncate-after-genuine", clone(base[:k]))
		}
	}
	// length-field tampering: < 20, < n, > n, far beyond
	ls := []int{255, 256, 257, 4095, 4096, 4097, 0x7fff, 0x8000, 0xffff, (n & 0xff) << 8}
	for l := 0; l <= n+24; l++ {
		ls = append(ls, l)
	}
	for _, l := range ls {
		if l == n {
			continue
		}
		b := clone(base)
		setLen(b, l)
		add("length-tamper", b)
		c := clone(b)
		signAs(c, l, secret)
		add("length-tamper-resigned", c)
		if l > n && l <= 4200 && (l <= n+24 || thorough) {
			// the datagram really is that long (zero filled): complete, attributes malformed
			p := append(clone(base), make([]byte, l-n)...)
			setLen(p, l)
			add("length-grow", clone(p))
			signAs(p, l, secret)
			add("length-grow-resigned", p)
		}
	}
	// padding after the declared length (authentic, octets beyond Length are padding)
	for _, extra := range []int{1, 2, 3, 16, 255, 4096 - n, 4097 - n, 5000 - n} {
		p := make([]byte, extra)
		rng.Read(p)
		add("padded", append(clone(base), p...))
	}
	// other ways to fill the authenticator field
	{
		b := clone(base)
		copy(b[4:20], make([]byte, 16))
		add("auth-zero", b)
		b = clone(base)
		rng.Read(b[4:20])
		add("auth-random", b)
		variants := [][][]byte{
			{base[0:4], base[20:], secret},                   // without the 16 zero bytes
			{secret, base[0:4], make([]byte, 16), base[20:]}, // secret first
			{base[0:4], make([]byte, 16), base[20:]},         // no secret
			{base[0:4], base[4:20], base[20:], secret},       // response style over its own authenticator
			{base[0:4], make([]byte, 16), secret},            // attributes not covered
			{base[0:2], make([]byte, 16), base[20:], secret}, // length not covered
		}
		for _, parts := range variants {
			h := md5.New()
			for _, p := range parts {
				h.Write(p)
			}
			b = clone(base)
			copy(b[4:20], h.Sum(nil))
			add("auth-variant", b)
		}
	}
	// signed under a different secret
	for _, ws := range wrongSecrets(secret) {
		b := clone(base)
		signAs(b, n, ws)
		add("wrong-secret", b)
	}
	return out
}

func globalDatagrams(bases [][]byte, secret []byte, rng *rand.Rand, nrandom int) []dg {
	var out []dg
	add := func(kind string, b []byte) { out = append(out, dg{Kind: kind, B: b}) }
	// every code and every identifier, correctly signed
	for _, base := range bases[:2] {
		for c := 0; c < 256; c++ {
			b := clone(base)
			b[0] = byte(c)
			signAs(b, len(b), secret)
			add("code-resigned", b)
		}
	}
	for i := 0; i < 256; i++ {
		b := clone(bases[(i/64)%len(bases)])
		b[1] = byte(i)
		signAs(b, len(b), secret)
		add("id-resigned", b)
	}
	// full-size packets
	for _, l := range []int{4095, 4096} {
		add("max-size", packet(43, byte(l), tile(l-20, rng), secret))
	}
	{
		b := make([]byte, 4097)
		b[0], b[1] = 40, 9
		setLen(b, 4097)
		copy(b[20:], tile(4097-20, rng))
		signAs(b, 4097, secret)
		add("over-size", b)
	}
	// random bytes
	for i := 0; i < nrandom; i++ {
		var l int
		switch rng.Intn(4) {
		case 0:
			l = rng.Intn(24)
		case 1:
			l = 20 + rng.Intn(60)
		case 2:
			l = rng.Intn(400)
		default:
			l = 20 + rng.Intn(20)
		}
		b := make([]byte, l)
		rng.Read(b)
		switch rng.Intn(3) {
		case 0: // pure noise
		case 1: // plausible header
			if l >= 4 {
				b[0] = []byte{40, 43}[rng.Intn(2)]
				setLen(b, l)
			}
		case 2: // plausible header and attributes, random authenticator
			if l >= 22 {
				b[0] = []byte{40, 43}[rng.Intn(2)]
				setLen(b, l)
				copy(b[20:], tile(l-20, rng))
			}
		}
		add("random", b)
	}
	return out
}

// absClass is one element of the abstract datagram space enumerated by TLC (classes.json).
type absClass struct {
	Len      int    `json:"len"`
	Declared int    `json:"declared"`
	Code     int    `json:"code"`
	ID       int    `json:"id"`
	AuthOK   bool   `json:"authOK"`
	AttrsWF  bool   `json:"attrsWF"`
	Expect   string `json:"expect"`
}

// concretise builds a datagram of abstract class c for a listener with the given secret.
func concretise(c absClass, secret []byte, rng *rand.Rand) ([]byte, error) {
	b := make([]byte, c.Len)
	rng.Read(b)
	if c.Len >= 1 {
		b[0] = byte(c.Code)
	}
	if c.Len >= 2 {
		b[1] = byte(c.ID)
	}
	if c.Len >= 4 {
		setLen(b, c.Declared)
	}
	complete := c.Len >= 20 && c.Declared >= 20 && c.Declared <= c.Len
	if complete {
		area := b[20:c.Declared]
		if c.AttrsWF {
			copy(area, tile(len(area), rng))
		} else {
			// whole attributes followed by one that overruns the end (or a stray byte)
			switch {
			case len(area) == 1:
				area[0] = 18
			case len(area) == 3:
				area[0], area[1] = 18, 9
			case len(area) >= 2:
				copy(area, tile(len(area)-2, rng))
				area[len(area)-2], area[len(area)-1] = 18, 9
			}
		}
		signAs(b, c.Declared, secret)
		if !c.AuthOK {
			b[4+rng.Intn(16)] ^= 1 << rng.Intn(8)
		}
	}
	got := classify(b, secret)
	want := absDgram{c.Len, c.Declared, c.Code, c.ID, c.AuthOK, c.AttrsWF}
	if got != want {
		return nil, fmt.Errorf("class %+v concretised to %+v (%s)", c, got, hex.EncodeToString(b[:min(len(b), 24)]))
	}
	return b, nil
}

// pairDatagrams are datagrams judged in the position "directly after another datagram from the same
// source": the statement quantifies over every datagram, whatever the listener has seen before, and
// a listener that remembers anything per source (retransmission cache, rate limiter, replay window)
// is only exercised by adjacent datagrams from one socket. The datagram under test is judged on its
// own, by the same decision contract; the priors are authentic requests the listener answers.
func pairDatagrams(bases [][]byte, secret []byte, rng *rand.Rand, full bool) []dg {
	var out []dg
	withID := func(b []byte, id byte) []byte { // b re-identified and re-signed
		c := clone(b)
		c[1] = id
		signAs(c, len(c), secret)
		return c
	}
	n := len(bases)
	if !full && n > 3 {
		n = 3
	}
	for i := 0; i < n; i++ {
		first := bases[i]
		id := first[1]
		// the exact retransmission: still a complete authentic packet, still answered
		out = append(out, dg{"pair:retransmit", clone(first), [][]byte{first}})
		for j := 0; j < n; j++ {
			if j == i {
				continue
			}
			// a DIFFERENT authentic request that reuses the identifier (identifier space wrapped,
			// or the client numbers per code)
			out = append(out, dg{"pair:same-id", withID(bases[j], id), [][]byte{first}})
		}
		// same request re-signed after an attribute was added (same id, other authenticator)
		more := packet(first[0], id, cat(first[20:], attr(18, []byte("again"))), secret)
		out = append(out, dg{"pair:same-id-more-attrs", more, [][]byte{first}})
		// forged variants directly after the authentic original: same id, authenticator off by a bit /
		// signed with a near-miss secret / body changed under the original authenticator
		f1 := clone(first)
		f1[4+rng.Intn(16)] ^= 1 << uint(rng.Intn(8))
		out = append(out, dg{"pair:forged-auth-bit", f1, [][]byte{first}})
		f2 := clone(first)
		signAs(f2, len(f2), wrongSecrets(secret)[0])
		out = append(out, dg{"pair:forged-wrong-secret", f2, [][]byte{first}})
		if len(first) > 22 {
			f3 := clone(first)
			f3[len(f3)-1] ^= 0x01
			out = append(out, dg{"pair:forged-body", f3, [][]byte{first}})
		}
		f4 := clone(bases[(i+1)%n])
		f4[1] = id // other request, identifier overwritten without re-signing
		out = append(out, dg{"pair:forged-id-overwritten", f4, [][]byte{first}})
		// truncated copy of the original right after it
		out = append(out, dg{"pair:truncated", clone(first[:len(first)-1]), [][]byte{first}})
		// two priors: the identifier comes round again after another request in between
		out = append(out, dg{"pair:same-id-after-two", withID(bases[(i+1)%n], id), [][]byte{first, withID(bases[(i+2)%n], id+1)}})
		// every identifier once directly after the original (the cache key space), code swapped
		if full && i < 2 {
			other := bases[1-i]
			for k := 0; k < 256; k += 17 {
				out = append(out, dg{"pair:id-sweep", withID(other, byte(k)), [][]byte{withID(first, byte(k))}})
			}
		}
	}
	return out
}
