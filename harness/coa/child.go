package coa

import (
	"bufio"
	"context"
	"encoding/hex"
	"encoding/json"
	"fmt"
	"net"
	"os"
	"runtime"
	"strconv"
	"strings"
	"sync"
	"syscall"
	"time"
	"unsafe"

	"github.com/codelaboratoryltd/bng/pkg/radius"
	"go.uber.org/zap"

	"verifharness/core"
)

// The child process hosts the real listener. It is a separate process because the listener
// goroutine belongs to the code under test: a panic there kills the process (DESIGN 5.1 crash
// containment). The parent logs every datagram before handing it over, so a dead child is
// attributed to exactly one input.
//
// Protocol (one JSON object per line on stdin / stdout):
//   {"cmd":"new","secret":hex}   -> {"ok":true}
//   {"cmd":"dgram","hex":hex[,"prior":[hex...]]} -> {"hcalls":n,"effects":n,"resps":[hex...],"dead":bool,"stats":{...}}
//   {"cmd":"close"}              -> {"ok":true}

type childCmd struct {
	Cmd    string `json:"cmd"`
	Secret string `json:"secret,omitempty"`
	Hex    string `json:"hex,omitempty"`
	// datagrams sent from socket A immediately before the datagram under test, with NO sentinel in
	// between (the listener sees consecutive datagrams from one source address and port)
	Prior []string `json:"prior,omitempty"`
}

type childReply struct {
	OK      bool           `json:"ok,omitempty"`
	Err     string         `json:"err,omitempty"`
	HCalls  int            `json:"hcalls"`
	Effects int            `json:"effects"`
	Resps   []string       `json:"resps"`
	Dead    bool           `json:"dead"`
	// priors that got no answer within priorWait (a sentinel round was run instead to make sure the
	// listener had finished with them)
	PriorUnanswered int `json:"prior_unanswered,omitempty"`
	Stats   map[string]int `json:"stats,omitempty"`
}

// pinToOneCPU restricts every thread of this process to one CPU. Loopback delivery is FIFO per
// sending CPU; with one CPU "datagram before sentinel" and "responses to the datagram before the
// response to the sentinel" are guaranteed, not merely very likely.
func pinToOneCPU() {
	var cur [16]uint64
	if _, _, e := syscall.RawSyscall(syscall.SYS_SCHED_GETAFFINITY, 0, unsafe.Sizeof(cur), uintptr(unsafe.Pointer(&cur[0]))); e != 0 {
		return
	}
	var allowed []int
	for i := 0; i < 16*64; i++ {
		if cur[i/64]&(1<<(uint(i)%64)) != 0 {
			allowed = append(allowed, i)
		}
	}
	if len(allowed) == 0 {
		return
	}
	cpu := allowed[os.Getpid()%len(allowed)]
	var set [16]uint64
	set[cpu/64] = 1 << (uint(cpu) % 64)
	runtime.GOMAXPROCS(1)
	ents, err := os.ReadDir("/proc/self/task")
	if err != nil {
		return
	}
	for _, e := range ents {
		tid, err := strconv.Atoi(e.Name())
		if err != nil {
			continue
		}
		syscall.RawSyscall(syscall.SYS_SCHED_SETAFFINITY, uintptr(tid), unsafe.Sizeof(set), uintptr(unsafe.Pointer(&set[0])))
	}
}

type call struct {
	kind    string // "coa" | "dm"
	session string
}

type host struct {
	secret []byte
	srv    *radius.CoAServer
	proc   *radius.CoAProcessor
	cancel context.CancelFunc
	addr   *net.UDPAddr
	a, b   *net.UDPConn // a: carries the datagram under test, b: carries the sentinel

	mu      sync.Mutex
	calls   []call
	effects int
	nonce   int

	sentinelCalls int
}

var knownSessions = map[string]bool{"sess-1": true, "sess-2": true}

func newHost(secret []byte) (*host, error) {
	h := &host{secret: secret}
	logger := zap.NewNop()
	srv, err := radius.NewCoAServer(radius.CoAServerConfig{Address: "127.0.0.1:0", Secret: string(secret)}, logger)
	if err != nil {
		return nil, err
	}
	proc := radius.NewCoAProcessor(logger)
	info := func(id string) *radius.SessionInfo {
		return &radius.SessionInfo{SessionID: id, Username: "u", FramedIP: net.IPv4(10, 0, 0, 5), State: "active"}
	}
	proc.SetSessionLookup(func(id string) (*radius.SessionInfo, bool) {
		if knownSessions[id] {
			return info(id), true
		}
		return nil, false
	})
	proc.SetSessionLookupByIP(func(ip net.IP) (*radius.SessionInfo, bool) {
		if ip.Equal(net.IPv4(10, 0, 0, 5)) {
			return info("sess-1"), true
		}
		return nil, false
	})
	proc.SetSessionLookupByMAC(func(mac string) (*radius.SessionInfo, bool) {
		if mac == "aa:bb:cc:00:00:01" {
			return info("sess-2"), true
		}
		return nil, false
	})
	effect := func() {
		h.mu.Lock()
		h.effects++
		h.mu.Unlock()
	}
	proc.SetSessionTerminator(func(ctx context.Context, id string, reason uint32) error { effect(); return nil })
	proc.SetSessionPolicyUpdater(func(ctx context.Context, id string, u *radius.PolicyUpdate) error { effect(); return nil })
	proc.SetEBPFQoSUpdater(func(id string, d, u uint64) error { effect(); return nil })
	// the handlers registered with the listener are the real processor's, wrapped only to count
	srv.SetCoAHandler(func(ctx context.Context, req *radius.CoARequest) *radius.CoAResponse {
		h.mu.Lock()
		h.calls = append(h.calls, call{"coa", req.SessionID})
		h.mu.Unlock()
		return proc.HandleCoA(ctx, req)
	})
	srv.SetDisconnectHandler(func(ctx context.Context, req *radius.DisconnectRequest) *radius.DisconnectResponse {
		h.mu.Lock()
		h.calls = append(h.calls, call{"dm", req.SessionID})
		h.mu.Unlock()
		return proc.HandleDisconnect(ctx, req)
	})
	ctx, cancel := context.WithCancel(context.Background())
	if err := srv.Start(ctx); err != nil {
		cancel()
		return nil, err
	}
	conn, _ := core.Field(srv, "conn").Interface().(*net.UDPConn)
	if conn == nil {
		cancel()
		return nil, fmt.Errorf("CoAServer.conn not found")
	}
	h.srv, h.proc, h.cancel = srv, proc, cancel
	h.addr = conn.LocalAddr().(*net.UDPAddr)
	lo := &net.UDPAddr{IP: net.IPv4(127, 0, 0, 1)}
	if h.a, err = net.ListenUDP("udp4", lo); err != nil {
		return nil, err
	}
	if h.b, err = net.ListenUDP("udp4", lo); err != nil {
		return nil, err
	}
	return h, nil
}

func (h *host) close() {
	h.cancel()
	h.srv.Stop()
	h.a.Close()
	h.b.Close()
}

// drain returns everything queued on c without waiting.
func drain(c *net.UDPConn) [][]byte {
	var out [][]byte
	rc, err := c.SyscallConn()
	if err != nil {
		return nil
	}
	buf := make([]byte, 70000)
	for {
		n, got := 0, false
		rc.Read(func(fd uintptr) bool {
			m, _, e := syscall.Recvfrom(int(fd), buf, syscall.MSG_DONTWAIT)
			if e == nil {
				n, got = m, true
			}
			return true // never wait
		})
		if !got {
			return out
		}
		out = append(out, append([]byte{}, buf[:n]...))
	}
}

const sentinelWait = 3 * time.Second

const priorWait = 2 * time.Second

// sentinelRound sends correctly signed sentinels from socket B until one is answered (at most two).
func (h *host) sentinelRound() (alive bool, err error) {
	prefix := fmt.Sprintf("sentinel-%d-", os.Getpid())
	for try := 0; try < 2 && !alive; try++ {
		h.nonce++
		sid := prefix + strconv.Itoa(h.nonce)
		s := packet(43, byte(h.nonce), attr(44, []byte(sid)), h.secret)
		if _, err := h.b.WriteToUDP(s, h.addr); err != nil {
			return false, err
		}
		h.b.SetReadDeadline(time.Now().Add(sentinelWait))
		buf := make([]byte, 4096)
		if _, _, err := h.b.ReadFromUDP(buf); err == nil {
			alive = true
		}
	}
	return alive, nil
}

// sendPriors delivers the datagrams that precede the one under test, from the same socket. Each is
// a request the listener answers; its answer on socket A is the barrier "the listener has finished
// with it" (the answer is the last thing the listener does for a datagram). No sentinel is sent in
// between, so the listener sees consecutive datagrams from one source. A prior that is not answered
// within priorWait falls back to a sentinel round (sound, but the pair is then no longer adjacent).
func (h *host) sendPriors(priors [][]byte, rep *childReply) {
	for _, pb := range priors {
		drain(h.a)
		if _, err := h.a.WriteToUDP(pb, h.addr); err != nil {
			rep.Err = "send prior: " + err.Error()
			return
		}
		h.a.SetReadDeadline(time.Now().Add(priorWait))
		buf := make([]byte, 70000)
		if _, _, err := h.a.ReadFromUDP(buf); err != nil {
			rep.PriorUnanswered++
			if _, err := h.sentinelRound(); err != nil {
				rep.Err = "send sentinel: " + err.Error()
				return
			}
		}
	}
}

// deliver sends one datagram to the real listener and observes what the listener did with it.
func (h *host) deliver(b []byte, priors ...[]byte) childReply {
	var rep childReply
	rep.Resps = []string{}
	if len(priors) > 0 {
		h.sendPriors(priors, &rep)
		if rep.Err != "" {
			return rep
		}
		// the handler's return precedes the answer; give a deferred tail of it a moment
		runtime.Gosched()
	}
	prefix := fmt.Sprintf("sentinel-%d-", os.Getpid())
	h.mu.Lock()
	for _, c := range h.calls { // sentinels of a fallback round in sendPriors
		if strings.HasPrefix(c.session, prefix) {
			h.sentinelCalls++
		}
	}
	h.calls, h.effects = nil, 0
	h.mu.Unlock()
	drain(h.a)
	drain(h.b)
	if _, err := h.a.WriteToUDP(b, h.addr); err != nil {
		rep.Err = "send: " + err.Error()
		return rep
	}
	// sentinel: a correctly signed CoA-Request for a session that does not exist (no effects),
	// from the second socket; any answer on that socket means the listener has finished with b.
	alive, serr := h.sentinelRound()
	if serr != nil {
		rep.Err = "send sentinel: " + serr.Error()
		return rep
	}
	rep.Dead = !alive
	resps := drain(h.a)
	h.mu.Lock()
	for _, c := range h.calls {
		if !strings.HasPrefix(c.session, prefix) {
			rep.HCalls++
		} else {
			h.sentinelCalls++
		}
	}
	rep.Effects = h.effects
	h.mu.Unlock()
	if len(resps) == 0 && rep.HCalls > 0 && alive {
		// a handler ran for b: its answer is sent right after; it cannot be later than the
		// sentinel's under FIFO delivery, but be generous before calling it missing
		h.a.SetReadDeadline(time.Now().Add(500 * time.Millisecond))
		buf := make([]byte, 70000)
		if n, _, err := h.a.ReadFromUDP(buf); err == nil {
			resps = append(resps, append([]byte{}, buf[:n]...))
			resps = append(resps, drain(h.a)...)
		}
	}
	for _, r := range resps {
		rep.Resps = append(rep.Resps, hex.EncodeToString(r))
	}
	rep.Stats = map[string]int{}
	for k, v := range h.srv.GetStats() {
		rep.Stats[k] = int(v)
	}
	ps := h.proc.GetStats()
	rep.Stats["proc_coa"] = int(ps.CoAProcessed)
	// the listener's own counters, without the sentinels (each is one CoA-Request answered by a NAK)
	for _, k := range []string{"coa_requests_received", "coa_naks_sent", "proc_coa"} {
		rep.Stats[k] -= h.sentinelCalls
	}
	rep.Stats["proc_dm"] = int(ps.DisconnectProcessed)
	return rep
}

// childMain is the body of the child process.
func childMain() {
	pinToOneCPU()
	in := bufio.NewReaderSize(os.Stdin, 1<<20)
	out := bufio.NewWriter(os.Stdout)
	var h *host
	reply := func(r childReply) {
		b, _ := json.Marshal(r)
		out.Write(b)
		out.WriteByte('\n')
		out.Flush()
	}
	for {
		line, err := in.ReadBytes('\n')
		if err != nil {
			if h != nil {
				h.close()
			}
			return
		}
		var c childCmd
		if err := json.Unmarshal(line, &c); err != nil {
			reply(childReply{Err: "bad command: " + err.Error()})
			continue
		}
		switch c.Cmd {
		case "new":
			if h != nil {
				h.close()
				h = nil
			}
			sec, _ := hex.DecodeString(c.Secret)
			nh, err := newHost(sec)
			if err != nil {
				reply(childReply{Err: "new: " + err.Error()})
				continue
			}
			h = nh
			reply(childReply{OK: true})
		case "dgram":
			if h == nil {
				reply(childReply{Err: "no listener"})
				continue
			}
			b, _ := hex.DecodeString(c.Hex)
			var priors [][]byte
			for _, ph := range c.Prior {
				pb, _ := hex.DecodeString(ph)
				priors = append(priors, pb)
			}
			r := h.deliver(b, priors...)
			if r.Dead && r.Err == "" {
				// give later datagrams a working listener again
				sec := h.secret
				h.close()
				if nh, err := newHost(sec); err == nil {
					h = nh
				} else {
					h = nil
					r.Err = "restart after dead listener: " + err.Error()
				}
			}
			reply(r)
		case "close":
			if h != nil {
				h.close()
				h = nil
			}
			reply(childReply{OK: true})
		default:
			reply(childReply{Err: "unknown command"})
		}
	}
}
