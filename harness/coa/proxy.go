package coa

import (
	"bufio"
	"bytes"
	"encoding/hex"
	"encoding/json"
	"fmt"
	"io"
	"os"
	"os/exec"
	"strings"
	"sync"

	"verifharness/core"
)

// childProc is one child process hosting listeners (see child.go).
type childProc struct {
	cmd    *exec.Cmd
	in     io.WriteCloser
	out    *bufio.Reader
	stderr *bytes.Buffer
}

// pool owns the child process on behalf of all chains of one explorer run and keeps the
// before-delivery input log.
type pool struct {
	mu      sync.Mutex
	cp      *childProc
	log     *os.File
	seq     int
	Crashes int
	Dead    int
	Spawns  int
	Tripped bool
	// circuit breakers: an implementation that dies or falls silent on (nearly) every datagram is
	// reported from the first such events; the rest of the run is skipped instead of taking hours
	MaxCrashes, MaxDead int
}

func newPool(outdir string) (*pool, error) {
	f, err := os.Create(outdir + "/inputs.log")
	if err != nil {
		return nil, err
	}
	return &pool{log: f, MaxCrashes: 600, MaxDead: 3}, nil
}

func (p *pool) spawn() error {
	exe, err := os.Executable()
	if err != nil {
		return err
	}
	cmd := exec.Command(exe, "-test.run", "^TestChild$", "-test.count=1", "-test.timeout", "0")
	cmd.Env = append(os.Environ(), "VERIF_COA_CHILD=1")
	in, err := cmd.StdinPipe()
	if err != nil {
		return err
	}
	outp, err := cmd.StdoutPipe()
	if err != nil {
		return err
	}
	se := &bytes.Buffer{}
	cmd.Stderr = se
	if err := cmd.Start(); err != nil {
		return err
	}
	p.cp = &childProc{cmd: cmd, in: in, out: bufio.NewReaderSize(outp, 1<<20), stderr: se}
	p.Spawns++
	return nil
}

func (p *pool) kill() {
	if p.cp != nil {
		p.cp.in.Close()
		p.cp.cmd.Process.Kill()
		p.cp.cmd.Wait()
		p.cp = nil
	}
}

func (p *pool) shutdown() {
	p.mu.Lock()
	defer p.mu.Unlock()
	p.kill()
	p.log.Close()
}

// call sends one command; died = the child process ended before answering.
func (p *pool) call(c childCmd) (r childReply, died bool, note string) {
	if p.cp == nil {
		if err := p.spawn(); err != nil {
			panic("coa harness: cannot start child: " + err.Error())
		}
	}
	b, _ := json.Marshal(c)
	b = append(b, '\n')
	if _, err := p.cp.in.Write(b); err != nil {
		died = true
	}
	var line []byte
	if !died {
		for {
			l, err := p.cp.out.ReadBytes('\n')
			if err != nil {
				died = true
				break
			}
			// the test binary may print its own lines (PASS etc.) only at exit; ours start with '{'
			if len(l) > 0 && l[0] == '{' {
				line = l
				break
			}
		}
	}
	if died {
		p.cp.in.Close()
		p.cp.cmd.Wait()
		note = firstLines(p.cp.stderr.String(), 6)
		p.cp = nil
		return
	}
	if err := json.Unmarshal(line, &r); err != nil {
		panic("coa harness: bad reply from child: " + string(line))
	}
	if r.Err != "" {
		panic("coa harness: child reports: " + r.Err)
	}
	return
}

func firstLines(s string, n int) string {
	ls := strings.Split(strings.TrimSpace(s), "\n")
	var keep []string
	for _, l := range ls {
		l = strings.TrimSpace(l)
		if l == "" || strings.HasPrefix(l, "[signal") {
			continue
		}
		keep = append(keep, l)
		if len(keep) >= n {
			break
		}
	}
	out := strings.Join(keep, " | ")
	if len(out) > 400 {
		out = out[:400]
	}
	return out
}

// ---- core.System / core.Instance ----------------------------------------------------------------

type coaSystem struct {
	name   string
	secret []byte
	p      *pool
}

func (s *coaSystem) Name() string { return s.name }
func (s *coaSystem) Config() map[string]any {
	return map[string]any{"impl": "radius.CoAServer", "secret": hex.EncodeToString(s.secret), "nsubs": 0}
}
func (s *coaSystem) Events() []core.Event { return nil }
func (s *coaSystem) New() core.Instance {
	return &coaInst{s: s, stats: map[string]int{}}
}

type coaInst struct {
	s      *coaSystem
	up     bool // the child currently hosts this instance's listener
	stats  map[string]int
	events int
}

func (i *coaInst) ensure() {
	p := i.s.p
	for try := 0; !i.up; try++ {
		if try > 3 {
			panic("coa harness: cannot create a listener in the child")
		}
		if _, died, note := p.call(childCmd{Cmd: "new", Secret: hex.EncodeToString(i.s.secret)}); died {
			// starting a listener must not kill anything; not attributable to a datagram
			if try == 3 {
				panic("coa harness: child died while creating the listener: " + note)
			}
			continue
		}
		i.up = true
	}
}

var statKeys = []string{"coa_requests_received", "coa_acks_sent", "coa_naks_sent", "disconnect_requests_received",
	"disconnect_acks_sent", "disconnect_naks_sent", "proc_coa", "proc_dm"}

func (i *coaInst) Apply(ev core.Event) map[string]any {
	p := i.s.p
	p.mu.Lock()
	defer p.mu.Unlock()
	hx, _ := ev["hex"].(string)
	b, err := hex.DecodeString(hx)
	if err != nil {
		panic("coa harness: bad hex in event")
	}
	var priors []string
	switch pv := ev["prior"].(type) {
	case []string:
		priors = pv
	case []any:
		for _, x := range pv {
			priors = append(priors, fmt.Sprint(x))
		}
	}
	d := classify(b, i.s.secret)
	res := map[string]any{
		"len": d.Len, "declared": d.Declared, "code": d.Code, "id": d.ID, "authOK": d.AuthOK, "attrsWF": d.AttrsWF, "class": d.class(),
		"crashed": false, "dead": false, "hcalls": 0, "effects": 0, "resps": []map[string]any{}, "note": "",
	}
	if p.Tripped {
		res["op"] = "skipped"
		return res
	}
	i.ensure()
	// logged and flushed before delivery: a dead child is attributed to the last line
	p.seq++
	fmt.Fprintf(p.log, "%d %s %s %s", p.seq, i.s.name, hex.EncodeToString(i.s.secret), hx)
	for _, ph := range priors {
		fmt.Fprintf(p.log, " after:%s", ph)
	}
	fmt.Fprintln(p.log)
	r, died, note := p.call(childCmd{Cmd: "dgram", Hex: hx, Prior: priors})
	i.events++
	if died {
		p.Crashes++
		i.up = false
		res["crashed"] = true
		res["note"] = note
		if p.Crashes >= p.MaxCrashes {
			p.Tripped = true
		}
		return res
	}
	if r.Dead {
		p.Dead++
		if p.Dead >= p.MaxDead {
			p.Tripped = true
		}
	}
	res["dead"] = r.Dead
	if len(priors) > 0 {
		res["prior_unanswered"] = r.PriorUnanswered
	}
	res["hcalls"] = r.HCalls
	res["effects"] = r.Effects
	var resps []map[string]any
	for _, rh := range r.Resps {
		rb, _ := hex.DecodeString(rh)
		rid, rcode := -1, -1
		if len(rb) >= 2 {
			rcode, rid = int(rb[0]), int(rb[1])
		}
		resps = append(resps, map[string]any{"id": rid, "code": rcode, "authOK": respVerifies(rb, b, i.s.secret)})
	}
	if resps != nil {
		res["resps"] = resps
	}
	if r.Stats != nil {
		i.stats = r.Stats
	}
	return res
}

func (i *coaInst) Observe() map[string]any {
	o := map[string]any{}
	for _, k := range statKeys {
		o[k] = i.stats[k]
	}
	return o
}
func (i *coaInst) Fingerprint() string   { return "" }
func (i *coaInst) Probe() map[string]any { return nil }
func (i *coaInst) Close() {
	p := i.s.p
	p.mu.Lock()
	defer p.mu.Unlock()
	if i.up && p.cp != nil {
		p.call(childCmd{Cmd: "close"})
	}
	i.up = false
}
