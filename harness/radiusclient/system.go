//go:build verif

// Package radiusclient binds the RadiusClient contract (specs/RadiusClient) to the real
// radius.Client of /repo (pkg/radius/client.go: NewClient, Authenticate, SendAccounting), driven
// against scripted RADIUS servers on loopback UDP (peer.go).  The real path runs: the x/time
// rate limiters, layeh.com/radius Exchange with its own socket per attempt, its one-second
// retransmission ticker and its MaxPacketErrors, the kernel's UDP stack.  No hook in /repo.
//
// Virtual time: systems without silent servers live in a testing/synctest bubble (every replay
// its own).  A goroutine blocked in a network read is not durably blocked, so the bubble's
// clock stands still while an exchange is in flight and moves only while the client sleeps in
// its rate limiter or the harness sleeps: every exchange takes zero virtual time, limiter waits
// are exact.  Systems with silent servers (rt) cannot live in a bubble (the clock could never
// reach the attempt's timeout); they run in real time with a short Timeout and are judged only
// by clauses that a slow machine cannot break (see RadiusClient.tla: cfg.rt).
package radiusclient

import (
	"bytes"
	"context"
	"crypto/hmac"
	"crypto/md5"
	"fmt"
	"net"
	"sort"
	"strings"
	"sync"
	"sync/atomic"
	"syscall"
	"testing"
	"testing/synctest"
	"time"
	"unsafe"

	bng "github.com/codelaboratoryltd/bng/pkg/radius"
	"go.uber.org/zap"
	"golang.org/x/time/rate"
	lr "layeh.com/radius"
	"layeh.com/radius/rfc2865"
	"layeh.com/radius/rfc2866"
	"layeh.com/radius/rfc2869"

	"verifharness/core"
)

var theT *testing.T

var harnessErrs struct {
	sync.Mutex
	l []string
}

func harnessFail(msg string) {
	harnessErrs.Lock()
	if len(harnessErrs.l) < 20 {
		harnessErrs.l = append(harnessErrs.l, msg)
	}
	harnessErrs.Unlock()
}

// realNow is the wall clock (time.Now is virtual inside a bubble).
func realNow() time.Duration {
	var ts syscall.Timespec
	syscall.Syscall(syscall.SYS_CLOCK_GETTIME, 1 /* CLOCK_MONOTONIC */, uintptr(unsafe.Pointer(&ts)), 0)
	return time.Duration(ts.Nano())
}

func realSleep(d time.Duration) {
	ts := syscall.NsecToTimespec(int64(d))
	syscall.Nanosleep(&ts, nil)
}

// stall detector for the real-time systems: a goroutine outside every bubble that notices when
// this process was not scheduled for a while; a chain during which that happened is run again.
var stallEpoch atomic.Int64
var stallOnce sync.Once

const stallGap = 120 * time.Millisecond

func startStallDetector() {
	stallOnce.Do(func() {
		go func() {
			last := realNow()
			for {
				realSleep(4 * time.Millisecond)
				now := realNow()
				if now-last > stallGap {
					stallEpoch.Add(1)
				}
				last = now
			}
		}()
	})
}

// --- request templates --------------------------------------------------------------------

const NTpl = 3

func tplMAC(t int) net.HardwareAddr { return net.HardwareAddr{0x02, 0xab, 0, 0, 0, byte(t)} }

// the format radius.formatMAC documents: "uppercase with dashes"
func tplMACText(t int) string { return fmt.Sprintf("02-AB-00-00-00-%02X", t) }

var authTpl = []*bng.AuthRequest{nil,
	{Username: "user-1", Password: "pw-one", MAC: tplMAC(1), CallingID: "cid-1", CalledID: "called-1", NASPort: 101, NASPortType: 15, CircuitID: "circ-1", RemoteID: "rem-1"},
	{Username: "user-22", MAC: tplMAC(2), NASPort: 102, NASPortType: 5},
	{Username: "user-333", Password: "a-much-longer-password-than-16-octets", CalledID: "called-3", NASPort: 103, NASPortType: 19},
}

var acctTpl = []*bng.AcctRequest{nil,
	{SessionID: "sess-1", Username: "user-1", MAC: tplMAC(1), FramedIP: net.IPv4(10, 0, 0, 1).To4(), StatusType: bng.AcctStatusStart, Class: []byte("class-1"), NASPort: 101,
		InputOctets: 1111, OutputOctets: 1112, InputPackets: 1113, OutputPackets: 1114, SessionTime: 1115},
	{SessionID: "sess-2", Username: "user-22", StatusType: bng.AcctStatusStop, NASPort: 102,
		InputOctets: 5_000_000_002, OutputOctets: 7, InputPackets: 2002, OutputPackets: 2003, SessionTime: 2004, TerminateCause: bng.TerminateCauseUserRequest},
	{SessionID: "sess-3", Username: "user-333", MAC: tplMAC(3), FramedIP: net.IPv4(10, 0, 0, 3).To4(), StatusType: bng.AcctStatusInterimUpdate, NASPort: 103,
		InputOctets: 33, OutputOctets: 9_000_000_003, InputPackets: 3002, OutputPackets: 3003, SessionTime: 3004, TerminateCause: bng.TerminateCauseAdminReset},
}

func cfgTemplates() (a, c []map[string]any) {
	for t := 1; t <= NTpl; t++ {
		r := authTpl[t]
		calling := "none"
		if r.CallingID != "" {
			calling = "id"
		} else if r.MAC != nil {
			calling = "mac"
		}
		a = append(a, map[string]any{"pass": r.Password != "", "calling": calling, "called": r.CalledID != ""})
		q := acctTpl[t]
		c = append(c, map[string]any{"status": int(q.StatusType), "mac": q.MAC != nil, "ip": q.FramedIP != nil, "class": q.Class != nil, "cause": q.TerminateCause != 0})
	}
	return
}

// projection: index of the template whose value equals v; 0 absent; -1 none
func proj(present bool, match func(t int) bool) int {
	if !present {
		return 0
	}
	for t := 1; t <= NTpl; t++ {
		if match(t) {
			return t
		}
	}
	return -1
}

// --- system ---------------------------------------------------------------------------------

const ctxDeadline = 300 * time.Millisecond

type CSystem struct {
	name     string
	NSrv     int
	Retries  int
	Timeout  time.Duration
	Rate     int // requests per second, 0 = the client's default (1000/s, burst 100: never waits here)
	Burst    int
	RT       bool // real time (silent servers)
	Distinct bool // every server has its own secret
	AcctMA   bool // judge the Message-Authenticator of Accounting-Requests
	Gated    bool // every authentication port keeps requests back; calls are started / failed / answered one step at a time
	Alphabet []core.Event
	MaxDepth int
}

const rtSlack = 8 * time.Second

func (s *CSystem) Name() string { return s.name }
func (s *CSystem) Config() map[string]any {
	a, c := cfgTemplates()
	return map[string]any{"impl": s.name, "kind": "client", "nsrv": s.NSrv, "retries": s.Retries, "timeout": int(s.Timeout / time.Millisecond),
		"limited": s.Rate > 0, "rate": max(s.Rate, 1), "burst": max(s.Burst, 1), "ctxdl": int(ctxDeadline / time.Millisecond), "rt": s.RT,
		"slack": int(rtSlack / time.Millisecond), "acctma": s.AcctMA, "distinct": s.Distinct, "gated": s.Gated, "atpl": a, "ctpl": c, "nsubs": 0}
}
func (s *CSystem) Events() []core.Event { return s.Alphabet }

var (
	peersMu  sync.Mutex
	thePeers *peerSet
)

// peers returns the process-wide server set; must first be called from outside any bubble.
func peers() *peerSet {
	peersMu.Lock()
	defer peersMu.Unlock()
	if thePeers == nil {
		ps, err := newPeerSet(3)
		if err != nil {
			panic("scripted RADIUS servers: " + err.Error())
		}
		thePeers = ps
	}
	return thePeers
}

func (s *CSystem) Wrap(f func()) {
	peers()
	if s.RT {
		f()
		return
	}
	synctest.Test(theT, func(t *testing.T) { f() })
}

type slot struct {
	on   bool
	tpl  int
	done atomic.Bool
	resp *bng.AuthResponse
	err  error
}

type inst struct {
	sys   *CSystem
	ps    *peerSet
	cl    *bng.Client
	slots [3]*slot // 1, 2
}

func (s *CSystem) New() core.Instance {
	ps := peers()
	if err := ps.reset(s.Distinct); err != nil {
		panic("reset servers: " + err.Error())
	}
	cfg := bng.ClientConfig{NASID: nasID, Timeout: s.Timeout, Retries: s.Retries}
	for i := 1; i <= s.NSrv; i++ {
		cfg.Servers = append(cfg.Servers, bng.ServerConfig{Host: "127.0.0.1", Port: ps.srv[i-1].port, Secret: secretOf(i, s.Distinct)})
	}
	if s.Rate > 0 {
		cfg.RateLimit = bng.RateLimitConfig{RequestsPerSecond: float64(s.Rate), BurstSize: s.Burst}
	}
	cl, err := bng.NewClient(cfg, zap.NewNop())
	if err != nil {
		panic("NewClient: " + err.Error())
	}
	in := &inst{sys: s, ps: ps, cl: cl}
	if s.Gated {
		for i := 0; i < s.NSrv; i++ {
			ps.srv[i].setMode("auth", "hold")
		}
		in.slots[1], in.slots[2] = &slot{}, &slot{}
	}
	return in
}

// Close ends the calls still in flight (a bubble cannot end while its goroutines live).
func (in *inst) Close() {
	if !in.sys.Gated {
		return
	}
	for c := 1; c <= 2; c++ {
		sl := in.slots[c]
		t0 := realNow()
		for sl.on && !sl.done.Load() {
			in.ps.release(authTpl[sl.tpl].Username, lr.CodeAccessAccept)
			realSleep(50 * time.Microsecond)
			if realNow()-t0 > 60*time.Second {
				harnessFail("gated: a call in flight could not be ended")
				return
			}
		}
	}
}
func (in *inst) Probe() map[string]any { return nil }

func (in *inst) cur() int {
	return int(core.Field(in.cl, "currentIdx").Int()) + 1
}

func (in *inst) modes() map[string]any {
	a, c := make([]string, 0, in.sys.NSrv), make([]string, 0, in.sys.NSrv)
	for i := 0; i < in.sys.NSrv; i++ {
		a = append(a, in.ps.srv[i].mode("auth"))
		c = append(c, in.ps.srv[i].mode("acct"))
	}
	return map[string]any{"a": a, "c": c}
}

func (in *inst) Observe() map[string]any {
	o := map[string]any{"cur": in.cur()}
	if in.sys.Gated {
		fl := make([]any, 0, 2)
		for c := 1; c <= 2; c++ {
			fl = append(fl, map[string]any{"on": in.slots[c].on, "srv": in.ps.heldAt(authTpl[c].Username)})
		}
		o["fl"] = fl
	}
	return o
}

func (in *inst) Fingerprint() string {
	var sb strings.Builder
	fmt.Fprintf(&sb, "cur=%d", in.cur())
	lims := core.Field(in.cl, "limiters").Interface().([]*rate.Limiter)
	now := time.Now()
	for i, l := range lims {
		tok := l.TokensAt(now)
		if in.sys.Rate == 0 || in.sys.RT {
			tok = -1 // unlimited here: the bucket never runs dry, its level is irrelevant
		}
		fmt.Fprintf(&sb, " tok%d=%.3f", i, tok)
	}
	fmt.Fprintf(&sb, " modes=%v", in.modes())
	if in.sys.Gated {
		for c := 1; c <= 2; c++ {
			fmt.Fprintf(&sb, " slot%d=%v@%d#%d", c, in.slots[c].on, in.ps.heldAt(authTpl[c].Username), in.ps.seenOf(authTpl[c].Username))
		}
	}
	return sb.String()
}

func toInt(v any) int {
	switch x := v.(type) {
	case int:
		return x
	case int64:
		return int(x)
	case float64:
		return int(x)
	}
	return 0
}

func toStr(v any) string {
	if s, ok := v.(string); ok {
		return s
	}
	return ""
}

func emptyRes() map[string]any {
	return map[string]any{"res": "", "att": []any{}, "elapsed": 0, "outvar": 0, "reason": 0, "calls": []any{}, "sent": []any{}, "held": []any{},
		"hsrv": 0, "done": false, "skip": false}
}

func (in *inst) Apply(ev core.Event) map[string]any {
	r := emptyRes()
	switch toStr(ev["op"]) {
	case "mode":
		s := toInt(ev["s"])
		if s >= 1 && s <= in.sys.NSrv {
			if err := in.ps.srv[s-1].setMode(toStr(ev["pk"]), toStr(ev["m"])); err != nil {
				harnessFail("setMode: " + err.Error())
			}
		}
	case "adv":
		d := time.Duration(toInt(ev["dt"])) * time.Millisecond
		if in.sys.RT {
			realSleep(d)
		} else {
			time.Sleep(d)
		}
		r["elapsed"] = toInt(ev["dt"])
	case "auth", "acct":
		in.call(ev, r)
	case "par":
		in.par(ev, r)
	case "cstart", "cfail", "cans":
		in.gated(ev, r)
	default:
		harnessFail("unknown op " + toStr(ev["op"]))
	}
	r["modes"] = in.modes()
	return r
}

func (in *inst) ctxFor(ev core.Event) (context.Context, context.CancelFunc) {
	switch toStr(ev["ctx"]) {
	case "done":
		c, cancel := context.WithCancel(context.Background())
		cancel()
		return c, cancel
	case "dl":
		return context.WithTimeout(context.Background(), ctxDeadline)
	}
	if in.sys.RT { // so that a call that never gives up is observed (as exceeding its budget) instead of hanging the harness
		return context.WithTimeout(context.Background(), time.Duration(in.sys.Retries)*in.sys.Timeout+rtSlack+2*time.Second)
	}
	return context.WithCancel(context.Background())
}

func (in *inst) call(ev core.Event, r map[string]any) {
	t := toInt(ev["t"])
	if t < 1 || t > NTpl {
		harnessFail("bad template")
		return
	}
	in.ps.take()
	ctx, cancel := in.ctxFor(ev)
	defer cancel()
	var t0 time.Time
	var r0 time.Duration
	if in.sys.RT {
		r0 = realNow()
	} else {
		t0 = time.Now()
	}
	if toStr(ev["op"]) == "auth" {
		req := *authTpl[t]
		resp, err := in.cl.Authenticate(ctx, &req)
		switch {
		case err != nil:
			r["res"] = "err"
			r["err"] = trimErr(err)
		case resp.Accepted:
			r["res"] = "acc"
			r["outvar"] = projAccept(resp)
		default:
			r["res"] = "rej"
			r["reason"] = projReason(resp.RejectReason)
		}
	} else {
		req := *acctTpl[t]
		if err := in.cl.SendAccounting(ctx, &req); err != nil {
			r["res"] = "err"
			r["err"] = trimErr(err)
		} else {
			r["res"] = "ok"
		}
	}
	if in.sys.RT {
		r["elapsed"] = int((realNow() - r0) / time.Millisecond)
	} else {
		r["elapsed"] = int(time.Since(t0) / time.Millisecond)
	}
	in.ps.flush()
	r["att"] = in.attempts(in.ps.take())
}

// error texts carry ports and addresses of this run; keep only the stable part (informative, never judged)
func trimErr(err error) string {
	s := err.Error()
	for _, cut := range []string{": read udp", ": dial udp", ": write udp"} {
		if i := strings.Index(s, cut); i >= 0 {
			tail := s[i:]
			k := strings.LastIndex(tail, ": ")
			s = s[:i] + tail[k:]
		}
	}
	return s
}

func projAccept(resp *bng.AuthResponse) int {
	for v, av := range acceptVars {
		if resp.SessionTimeout == av.sto && resp.IdleTimeout == av.ito && resp.FramedIP.Equal(av.ip) && (resp.FramedIP == nil) == (av.ip == nil) &&
			resp.FilterID == av.filter && string(resp.Class) == av.class && resp.FramedPool == "" && resp.DownloadBPS == 0 && resp.UploadBPS == 0 && resp.RejectReason == "" {
			return v
		}
	}
	return -1
}

func projReason(s string) int {
	for v, m := range rejectMsgs {
		if s == m {
			return v
		}
	}
	return -1
}

// attempts groups the recorded datagrams (arrival order) into attempts and projects the first
// datagram of each.  In a bubble every datagram gets a terminal answer, so an attempt is one
// datagram; in real time the datagrams of one attempt come from one client socket.
func (in *inst) attempts(log []*dgram) []any {
	sort.Slice(log, func(i, j int) bool { return log[i].seq < log[j].seq })
	type grp struct {
		first *dgram
		ndg   int
		same  bool
		ended bool
		reps  []reply
	}
	var gs []*grp
	for _, d := range log {
		var g *grp
		if n := len(gs); n > 0 {
			l := gs[n-1]
			if !l.ended && l.first.srv == d.srv && l.first.pk == d.pk && l.first.sport == d.sport {
				g = l
			}
		}
		if g == nil {
			g = &grp{first: d, same: true}
			gs = append(gs, g)
		}
		g.ndg++
		if !bytes.Equal(d.raw, g.first.raw) {
			g.same = false
		}
		g.ended = g.ended || d.ended
		g.reps = append(g.reps, d.replies...)
	}
	out := make([]any, 0, len(gs))
	for _, g := range gs {
		a := in.project(g.first)
		a["ndg"] = g.ndg
		a["same"] = g.same
		reps := make([]any, 0, len(g.reps))
		for _, x := range g.reps {
			reps = append(reps, map[string]any{"kind": x.Kind, "valid": x.Valid, "idok": x.IDOK, "src": x.Src, "var": x.Var})
		}
		a["replies"] = reps
		out = append(out, a)
	}
	return out
}

// project decodes one request datagram into the abstract attempt record.  This is the trusted
// decoding step: attribute presence and value -> template index, cryptographic fields -> valid
// under the secret configured for the server the datagram ARRIVED at or not.
func (in *inst) project(d *dgram) map[string]any {
	a := map[string]any{"srv": d.srv, "pk": d.pk, "code": -1, "user": 0, "pass": 0, "nasid": 0, "nasport": 0, "porttype": 0, "calling": 0, "called": 0,
		"ma": 0, "ra": 1, "maz": 0, "sid": 0, "status": 0, "ip": 0, "class": 0, "inoct": 0, "outoct": 0, "inpkt": 0, "outpkt": 0, "stime": 0, "cause": 0}
	secret := secretOf(d.srv, in.sys.Distinct)
	pkt, err := lr.Parse(d.raw, []byte(secret))
	if err != nil {
		return a
	}
	a["code"] = int(pkt.Code)
	acct := pkt.Code == lr.CodeAccountingRequest
	at := func(t int) *bng.AuthRequest { return authTpl[t] }
	ct := func(t int) *bng.AcctRequest { return acctTpl[t] }
	if v, err := rfc2865.UserName_LookupString(pkt); true {
		a["user"] = proj(err == nil, func(t int) bool { return at(t).Username == v })
	}
	if v, err := rfc2865.UserPassword_LookupString(pkt); true {
		a["pass"] = proj(err == nil, func(t int) bool { return at(t).Password != "" && at(t).Password == v })
	}
	if v, err := rfc2865.NASIdentifier_LookupString(pkt); err == nil {
		if v == nasID {
			a["nasid"] = 1
		} else {
			a["nasid"] = -1
		}
	}
	if v, err := rfc2865.NASPort_Lookup(pkt); true {
		a["nasport"] = proj(err == nil, func(t int) bool { return at(t).NASPort == uint32(v) })
	}
	if v, err := rfc2865.NASPortType_Lookup(pkt); true {
		a["porttype"] = proj(err == nil, func(t int) bool { return at(t).NASPortType == uint32(v) })
	}
	if v, err := rfc2865.CallingStationID_LookupString(pkt); err == nil {
		a["calling"] = -1
		for t := 1; t <= NTpl; t++ {
			if at(t).CallingID != "" && at(t).CallingID == v {
				a["calling"] = t
			} else if v == tplMACText(t) {
				a["calling"] = 100 + t
			}
		}
	}
	if v, err := rfc2865.CalledStationID_LookupString(pkt); true {
		a["called"] = proj(err == nil, func(t int) bool { return at(t).CalledID != "" && at(t).CalledID == v })
	}
	if v, err := rfc2866.AcctSessionID_LookupString(pkt); true {
		a["sid"] = proj(err == nil, func(t int) bool { return ct(t).SessionID == v })
	}
	if v, err := rfc2866.AcctStatusType_Lookup(pkt); err == nil {
		a["status"] = int(v)
	}
	if v, err := rfc2865.FramedIPAddress_Lookup(pkt); true {
		a["ip"] = proj(err == nil, func(t int) bool { return ct(t).FramedIP != nil && ct(t).FramedIP.Equal(v) })
	}
	if v, err := rfc2865.Class_Lookup(pkt); true {
		a["class"] = proj(err == nil, func(t int) bool { return ct(t).Class != nil && bytes.Equal(ct(t).Class, v) })
	}
	// octet counters: the 64-bit value the two attributes (low word, gigawords) stand for
	oct := func(lo uint32, loErr error, gw uint32, gwErr error, want func(t int) uint64) int {
		if loErr != nil && gwErr != nil {
			return 0
		}
		if loErr != nil {
			return -1
		}
		v := uint64(lo)
		if gwErr == nil {
			v |= uint64(gw) << 32
		}
		return proj(true, func(t int) bool { return want(t) == v })
	}
	{
		lo, e1 := rfc2866.AcctInputOctets_Lookup(pkt)
		gw, e2 := rfc2869.AcctInputGigawords_Lookup(pkt)
		a["inoct"] = oct(uint32(lo), e1, uint32(gw), e2, func(t int) uint64 { return ct(t).InputOctets })
		lo2, e3 := rfc2866.AcctOutputOctets_Lookup(pkt)
		gw2, e4 := rfc2869.AcctOutputGigawords_Lookup(pkt)
		a["outoct"] = oct(uint32(lo2), e3, uint32(gw2), e4, func(t int) uint64 { return ct(t).OutputOctets })
	}
	if v, err := rfc2866.AcctInputPackets_Lookup(pkt); true {
		a["inpkt"] = proj(err == nil, func(t int) bool { return ct(t).InputPackets == uint64(v) })
	}
	if v, err := rfc2866.AcctOutputPackets_Lookup(pkt); true {
		a["outpkt"] = proj(err == nil, func(t int) bool { return ct(t).OutputPackets == uint64(v) })
	}
	if v, err := rfc2866.AcctSessionTime_Lookup(pkt); true {
		a["stime"] = proj(err == nil, func(t int) bool { return ct(t).SessionTime == uint32(v) })
	}
	if v, err := rfc2866.AcctTerminateCause_Lookup(pkt); true {
		a["cause"] = proj(err == nil, func(t int) bool { return ct(t).TerminateCause == uint32(v) })
	}
	if acct {
		if lr.IsAuthenticRequest(d.raw, []byte(secret)) {
			a["ra"] = 1
		} else {
			a["ra"] = -1
		}
		z, w := maCheck(d.raw, secret, true), maCheck(d.raw, secret, false)
		switch {
		case z == 0:
			a["maz"] = 0
		case z == 1 || w == 1:
			a["maz"] = 1
		default:
			a["maz"] = -1
		}
	} else {
		a["ma"] = maCheck(d.raw, secret, false)
	}
	return a
}

// maCheck: 0 no Message-Authenticator, 1 it verifies (RFC 2869 5.14: HMAC-MD5 over the packet
// with the attribute's value zeroed; zeroAuth: and the Request Authenticator field zeroed, the
// convention for packets whose authenticator is itself a hash), -1 it does not.
func maCheck(raw []byte, secret string, zeroAuth bool) int {
	c := append([]byte{}, raw...)
	var ma []byte
	for i := 20; i+2 <= len(c); {
		l := int(c[i+1])
		if l < 2 || i+l > len(c) {
			break
		}
		if c[i] == 80 && l == 18 {
			ma = append([]byte{}, c[i+2:i+18]...)
			for k := i + 2; k < i+18; k++ {
				c[k] = 0
			}
		}
		i += l
	}
	if ma == nil {
		return 0
	}
	if zeroAuth {
		for k := 4; k < 20; k++ {
			c[k] = 0
		}
	}
	h := hmac.New(md5.New, []byte(secret))
	h.Write(c)
	if hmac.Equal(h.Sum(nil), ma) {
		return 1
	}
	return -1
}

// --- op "par": concurrent calls ---------------------------------------------------------------

type parScenario struct {
	verdict [NTpl + 1]lr.Code // per template
	order   []int             // release order (templates)
}

var parScenarios = []parScenario{{},
	{verdict: [4]lr.Code{0, lr.CodeAccessAccept, lr.CodeAccessReject, lr.CodeAccessAccept}, order: []int{3, 2, 1}},
	{verdict: [4]lr.Code{0, lr.CodeAccessReject, lr.CodeAccessAccept, lr.CodeAccessReject}, order: []int{2, 3, 1}},
	{verdict: [4]lr.Code{0, lr.CodeAccessAccept, lr.CodeAccessAccept, lr.CodeAccessAccept}, order: []int{1, 2, 3}},
}

func (in *inst) par(ev core.Event, r map[string]any) {
	k := toInt(ev["k"])
	if k < 1 || k >= len(parScenarios) {
		harnessFail("bad par scenario")
		return
	}
	sc := parScenarios[k]
	in.ps.take()
	prev := make([]string, in.sys.NSrv)
	for i := 0; i < in.sys.NSrv; i++ {
		prev[i] = in.ps.srv[i].mode("auth")
		in.ps.srv[i].setMode("auth", "hold")
	}
	type cres struct {
		resp *bng.AuthResponse
		err  error
	}
	results := make([]cres, NTpl+1)
	var wg sync.WaitGroup
	for t := 1; t <= NTpl; t++ {
		wg.Add(1)
		go func() {
			defer wg.Done()
			req := *authTpl[t]
			resp, err := in.cl.Authenticate(context.Background(), &req)
			results[t] = cres{resp, err}
		}()
	}
	t0 := realNow()
	for in.ps.heldCount() < NTpl {
		if realNow()-t0 > 60*time.Second {
			harnessFail("par: the servers never held all requests")
			break
		}
		realSleep(50 * time.Microsecond)
	}
	// classes of (server, source port, Identifier) among the requests in flight
	in.ps.mu.Lock()
	held := append([]*heldReq{}, in.ps.held...)
	in.ps.mu.Unlock()
	sort.Slice(held, func(i, j int) bool {
		return rfc2865.UserName_GetString(held[i].pkt) < rfc2865.UserName_GetString(held[j].pkt)
	})
	hl := make([]any, 0, len(held))
	for i, h := range held {
		cls := i + 1
		for j := 0; j < i; j++ {
			if held[j].srv == h.srv && held[j].addr.Port == h.addr.Port && held[j].pkt.Identifier == h.pkt.Identifier {
				cls = j + 1
				break
			}
		}
		u := rfc2865.UserName_GetString(h.pkt)
		hl = append(hl, map[string]any{"srv": h.srv.idx, "user": proj(true, func(t int) bool { return authTpl[t].Username == u }), "cls": cls})
	}
	r["held"] = hl
	sent := make([]any, 0, NTpl)
	for _, t := range sc.order {
		if rep, ok := in.ps.release(authTpl[t].Username, sc.verdict[t]); ok {
			sent = append(sent, map[string]any{"user": t, "kind": rep.Kind, "valid": rep.Valid, "var": rep.Var})
		}
	}
	r["sent"] = sent
	wg.Wait()
	calls := make([]any, 0, NTpl)
	for t := 1; t <= NTpl; t++ {
		c := map[string]any{"t": t, "res": "err", "outvar": 0, "reason": 0}
		switch x := results[t]; {
		case x.err != nil:
		case x.resp.Accepted:
			c["res"] = "acc"
			c["outvar"] = projAccept(x.resp)
		default:
			c["res"] = "rej"
			c["reason"] = projReason(x.resp.RejectReason)
		}
		calls = append(calls, c)
	}
	r["calls"] = calls
	for i := 0; i < in.sys.NSrv; i++ {
		in.ps.srv[i].setMode("auth", prev[i])
	}
	in.ps.flush()
	in.ps.take()
}

// --- gated systems: calls in flight across steps ------------------------------------------------

// gated executes one step of a gated system.  Every authentication port is in mode "hold".
//
//	cstart  slot c starts Authenticate (request template c) on its own goroutine; the step ends
//	        when its request is held by a server
//	cfail   the held request of slot c gets ten invalid replies (the attempt fails); the step ends
//	        when the call's next request is held or the call has returned
//	cans    the held request gets an authentic Access-Accept / -Reject; the step ends when the
//	        call has returned
//
// While a request is held its goroutine sits in a network read, so the bubble's clock stands still.
func (in *inst) gated(ev core.Event, r map[string]any) {
	c := toInt(ev["c"])
	if !in.sys.Gated || c < 1 || c > 2 {
		harnessFail("gated op on a system that is not gated")
		return
	}
	sl := in.slots[c]
	user := authTpl[c].Username
	op := toStr(ev["op"])
	if (op == "cstart") == sl.on {
		r["skip"] = true
		return
	}
	await := func() {
		t0 := realNow()
		for in.ps.heldAt(user) == 0 && !sl.done.Load() {
			if realNow()-t0 > 60*time.Second {
				harnessFail("gated: the call neither sent a request nor returned")
				return
			}
			realSleep(30 * time.Microsecond)
		}
	}
	switch op {
	case "cstart":
		ns := &slot{on: true, tpl: c}
		in.slots[c] = ns
		sl = ns
		in.ps.forget(user)
		go func() {
			req := *authTpl[c]
			ns.resp, ns.err = in.cl.Authenticate(context.Background(), &req)
			ns.done.Store(true)
		}()
		await()
	case "cfail":
		if !in.ps.releaseFail(user) {
			harnessFail("gated: nothing held for the call to fail")
		}
		await()
	case "cans":
		code := lr.CodeAccessAccept
		if toStr(ev["m"]) == "rej" {
			code = lr.CodeAccessReject
		}
		if _, ok := in.ps.release(user, code); !ok {
			harnessFail("gated: nothing held for the call to answer")
		}
		t0 := realNow()
		for !sl.done.Load() && in.ps.heldAt(user) == 0 {
			if realNow()-t0 > 60*time.Second {
				harnessFail("gated: the answered call does not return")
				return
			}
			realSleep(30 * time.Microsecond)
		}
	}
	r["hsrv"] = in.ps.heldAt(user)
	if sl.done.Load() {
		r["done"] = true
		r["hsrv"] = 0
		switch {
		case sl.err != nil:
			r["res"] = "err"
		case sl.resp.Accepted:
			r["res"] = "acc"
		default:
			r["res"] = "rej"
		}
		sl.on = false
	}
}
