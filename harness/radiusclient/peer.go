//go:build verif

package radiusclient

import (
	"crypto/rand"
	"fmt"
	mrand "math/rand"
	"net"
	"os"
	"sync"
	"sync/atomic"
	"syscall"
	"time"
	"unsafe"

	lr "layeh.com/radius"
	"layeh.com/radius/rfc2865"
)

// The scripted RADIUS servers: N servers on loopback, each with an authentication socket on
// port P and an accounting socket on P+1 (what radius.Client expects: "Accounting uses port +1
// by convention").  They live OUTSIDE every synctest bubble (their goroutines block in network
// reads), one set per process, re-used by every replay.  A server does three things: it records
// every datagram it receives (raw bytes, source port, arrival order), it answers according to
// the mode its port is in, and it records what it answered (the recipe: kind of reply, built
// with the configured secret over this request or not, same Identifier or not, sent from the
// server's own socket or not).  Nothing is judged here.
//
// Modes of an authentication port (accounting ports: ok, odd, ref, bad-ws, nws-ok, sil):
//   acc rej chal odd   one authentic Access-Accept / -Reject / -Challenge / Accounting-Response
//   ref                the port refuses: the socket is connect()ed to another remote address, so
//                      the kernel finds no socket for the client's datagram and answers with ICMP
//                      port unreachable (the client sees ECONNREFUSED at once).  The port stays
//                      bound.  The server does not see the datagram.
//   bad-ws|ra|st|gb    ten invalid replies (wrong secret / random Response Authenticator / an
//                      authentic reply to ANOTHER request = replay / 7 bytes of garbage): the
//                      library gives the attempt up at the tenth
//   nws-rej nst-rej    three invalid Access-ACCEPTs (wrong secret / replayed), then the authentic
//                      Access-Reject
//   nra-acc ngb-acc    three invalid Access-REJECTs (random authenticator) / garbage, then the
//                      authentic Access-Accept
//   wid-rej            an authentic Access-Accept whose Identifier is not the request's, then the
//                      authentic Access-Reject
//   sil                no answer at all (real-time systems only)
//   osrc               an authentic Access-Accept sent from ANOTHER socket, nothing from the
//                      server's own (real-time systems only)
//   hold               the request is kept back until the harness releases it (op "par")
//
// Every terminal answer is followed by ten bytes-of-garbage datagrams ("trailer").  A client
// that returns on the authentic reply never reads them (its socket is closed); a client that
// wrongly ignores the authentic reply is not left waiting for ever inside a bubble whose clock
// cannot advance while a goroutine sits in a network read - its attempt fails at once and the
// result shows the deviation.

const nasID = "verif-x04"

func secretOf(i int, distinct bool) string {
	if distinct {
		return fmt.Sprintf("sec-%d", i)
	}
	return "sec-shared"
}

type reply struct {
	Kind  string `json:"kind"`
	Valid bool   `json:"valid"`
	IDOK  bool   `json:"idok"`
	Src   bool   `json:"src"`
	Var   int    `json:"var"`
}

type dgram struct {
	seq     int64
	srv     int    // 1-based
	pk      string // "auth" | "acct": the port it arrived on
	sport   int
	raw     []byte
	ended   bool // the server gave a terminal answer to this datagram
	replies []reply
}

type heldReq struct {
	srv  *server
	pkt  *lr.Packet
	addr *net.UDPAddr
	raw  []byte
}

type server struct {
	set        *peerSet
	idx        int
	auth, acct *net.UDPConn
	alt        *net.UDPConn
	port       int
	mu         sync.Mutex
	amode      string
	cmode      string
	arefused   bool
	crefused   bool
	flushA     atomic.Int64
	flushC     atomic.Int64
}

type peerSet struct {
	srv      []*server
	distinct bool
	mu       sync.Mutex
	log      []*dgram
	seq      int64
	held     []*heldReq
	heldSeen map[string]int
}

var sentinel = []byte("\xffVERIF-FLUSH")

func bindPair(port int) (*net.UDPConn, *net.UDPConn, error) {
	a, err := net.ListenUDP("udp4", &net.UDPAddr{IP: net.IPv4(127, 0, 0, 1), Port: port})
	if err != nil {
		return nil, nil, err
	}
	b, err := net.ListenUDP("udp4", &net.UDPAddr{IP: net.IPv4(127, 0, 0, 1), Port: port + 1})
	if err != nil {
		a.Close()
		return nil, nil, err
	}
	return a, b, nil
}

// newPeerSet binds n servers below the ephemeral port range (other harnesses on this machine
// bind port 0, i.e. ephemeral ports) and starts their goroutines.  Must be called from outside
// any bubble.
func newPeerSet(n int) (*peerSet, error) {
	ps := &peerSet{}
	rng := mrand.New(mrand.NewSource(time.Now().UnixNano() ^ int64(os.Getpid())<<20))
	for i := 1; i <= n; i++ {
		var s *server
		for try := 0; try < 400 && s == nil; try++ {
			p := 20000 + 2*rng.Intn(6000)
			if p == 1812 {
				continue
			}
			a, c, err := bindPair(p)
			if err != nil {
				continue
			}
			alt, err := net.ListenUDP("udp4", &net.UDPAddr{IP: net.IPv4(127, 0, 0, 1), Port: 0})
			if err != nil {
				a.Close()
				c.Close()
				return nil, err
			}
			s = &server{set: ps, idx: i, auth: a, acct: c, alt: alt, port: p, amode: "acc", cmode: "ok"}
		}
		if s == nil {
			return nil, fmt.Errorf("cannot bind two consecutive UDP ports for scripted RADIUS server %d", i)
		}
		ps.srv = append(ps.srv, s)
		go s.loop("auth", s.auth)
		go s.loop("acct", s.acct)
	}
	return ps, nil
}

// refuse makes the socket invisible for the client (connected elsewhere) or visible again.
func refuse(c *net.UDPConn, on bool) error {
	rc, err := c.SyscallConn()
	if err != nil {
		return err
	}
	var e error
	rc.Control(func(fd uintptr) {
		if on {
			e = syscall.Connect(int(fd), &syscall.SockaddrInet4{Port: 9, Addr: [4]byte{127, 0, 0, 2}})
			return
		}
		var sa syscall.RawSockaddrInet4
		sa.Family = syscall.AF_UNSPEC
		if _, _, en := syscall.Syscall(syscall.SYS_CONNECT, fd, uintptr(unsafe.Pointer(&sa)), unsafe.Sizeof(sa)); en != 0 {
			e = en
		}
	})
	return e
}

func (s *server) setMode(pk, m string) error {
	s.mu.Lock()
	defer s.mu.Unlock()
	conn, cur := s.auth, &s.arefused
	if pk == "acct" {
		conn, cur = s.acct, &s.crefused
		s.cmode = m
	} else {
		s.amode = m
	}
	want := m == "ref"
	if want != *cur {
		if err := refuse(conn, want); err != nil {
			return err
		}
		*cur = want
	}
	return nil
}

func (s *server) mode(pk string) string {
	s.mu.Lock()
	defer s.mu.Unlock()
	if pk == "acct" {
		return s.cmode
	}
	return s.amode
}

func (ps *peerSet) reset(distinct bool) error {
	ps.distinct = distinct
	for _, s := range ps.srv {
		if err := s.setMode("auth", "acc"); err != nil {
			return err
		}
		if err := s.setMode("acct", "ok"); err != nil {
			return err
		}
	}
	ps.flush()
	ps.mu.Lock()
	ps.log, ps.held, ps.heldSeen = nil, nil, nil
	ps.mu.Unlock()
	return nil
}

// flush returns once every datagram that reached a server socket before the call has been
// processed: a sentinel is sent to every visible socket (a socket's queue is first in first
// out) and awaited.  No wall-clock assumption.
func (ps *peerSet) flush() {
	c, err := net.ListenUDP("udp4", &net.UDPAddr{IP: net.IPv4(127, 0, 0, 1), Port: 0})
	if err != nil {
		harnessFail("flush socket: " + err.Error())
		return
	}
	defer c.Close()
	for _, s := range ps.srv {
		s.mu.Lock()
		ar, cr := s.arefused, s.crefused
		s.mu.Unlock()
		for _, x := range []struct {
			refused bool
			port    int
			ctr     *atomic.Int64
		}{{ar, s.port, &s.flushA}, {cr, s.port + 1, &s.flushC}} {
			if x.refused {
				continue
			}
			before := x.ctr.Load()
			t0 := realNow()
			next := time.Duration(0)
			for x.ctr.Load() == before {
				if d := realNow() - t0; d >= next { // (re)send: a sentinel may be dropped when the queue is full
					c.WriteToUDP(sentinel, &net.UDPAddr{IP: net.IPv4(127, 0, 0, 1), Port: x.port})
					next = d + 200*time.Millisecond
				}
				if realNow()-t0 > 60*time.Second {
					harnessFail(fmt.Sprintf("scripted server %d does not process its queue", s.idx))
					return
				}
				realSleep(20 * time.Microsecond)
			}
		}
	}
}

func (ps *peerSet) record(d *dgram) {
	ps.mu.Lock()
	ps.seq++
	d.seq = ps.seq
	ps.log = append(ps.log, d)
	ps.mu.Unlock()
}

func (ps *peerSet) take() []*dgram {
	ps.mu.Lock()
	defer ps.mu.Unlock()
	l := ps.log
	ps.log = nil
	return l
}

func (ps *peerSet) heldCount() int {
	ps.mu.Lock()
	defer ps.mu.Unlock()
	return len(ps.held)
}

// --- replies -------------------------------------------------------------------------------

// attribute variants of the authentic replies (projected back by the harness from AuthResponse)
type acceptVar struct {
	sto, ito uint32
	ip       net.IP
	filter   string
	class    string
}

var acceptVars = []acceptVar{
	{},
	{sto: 3600, ito: 300, ip: net.IPv4(10, 77, 0, 1).To4(), filter: "gold", class: "cls-one"},
	{sto: 60, class: "cls-two"},
}

var rejectMsgs = []string{"", "denied-one", "denied-two"}

func fill(r *lr.Packet, code lr.Code, v int) {
	switch code {
	case lr.CodeAccessAccept:
		av := acceptVars[v]
		if av.sto != 0 {
			rfc2865.SessionTimeout_Set(r, rfc2865.SessionTimeout(av.sto))
		}
		if av.ito != 0 {
			rfc2865.IdleTimeout_Set(r, rfc2865.IdleTimeout(av.ito))
		}
		if av.ip != nil {
			rfc2865.FramedIPAddress_Set(r, av.ip)
		}
		if av.filter != "" {
			rfc2865.FilterID_SetString(r, av.filter)
		}
		if av.class != "" {
			rfc2865.Class_SetString(r, av.class)
		}
	case lr.CodeAccessReject:
		rfc2865.ReplyMessage_SetString(r, rejectMsgs[v])
	}
}

func kindOf(code lr.Code) string {
	switch code {
	case lr.CodeAccessAccept:
		return "accept"
	case lr.CodeAccessReject:
		return "reject"
	case lr.CodeAccessChallenge:
		return "challenge"
	case lr.CodeAccountingResponse:
		return "acctresp"
	}
	return "other"
}

// build encodes one reply to pkt.  how: "good" (authentic), "ws" (wrong secret), "ra" (random
// Response Authenticator), "st" (authentic reply to another request: replay), "wid" (authentic
// but Identifier+1)
func build(pkt *lr.Packet, code lr.Code, secret string, how string, v int) []byte {
	r := pkt.Response(code)
	r.Secret = []byte(secret)
	fill(r, code, v)
	switch how {
	case "ws":
		r.Secret = []byte("not-" + secret)
	case "st":
		rand.Read(r.Authenticator[:])
	case "wid":
		r.Identifier = pkt.Identifier + 1
	}
	w, err := r.Encode()
	if err != nil {
		harnessFail("encode reply: " + err.Error())
		return nil
	}
	if how == "ra" {
		rand.Read(w[4:20])
	}
	return w
}

func garbage() []byte {
	b := make([]byte, 7)
	rand.Read(b)
	return b
}

// variant of the reply attributes: depends on the server and on the request's User-Name so that
// concurrent calls and different servers are told apart
func variantFor(srv int, pkt *lr.Packet) int {
	u := rfc2865.UserName_GetString(pkt)
	return 1 + (srv+len(u))%2
}

type out struct {
	wire []byte
	rec  reply
	alt  bool
}

func script(s *server, pk, mode string, pkt *lr.Packet, secret string) (outs []out, terminal bool) {
	v := variantFor(s.idx, pkt)
	good := func(code lr.Code) out {
		return out{wire: build(pkt, code, secret, "good", v), rec: reply{Kind: kindOf(code), Valid: true, IDOK: true, Src: true, Var: v}}
	}
	inval := func(code lr.Code, how string) out {
		return out{wire: build(pkt, code, secret, how, v), rec: reply{Kind: kindOf(code), Valid: false, IDOK: true, Src: true, Var: v}}
	}
	gb := func() out { return out{wire: garbage(), rec: reply{Kind: "garbage", Src: true, IDOK: true}} }
	rep := func(n int, f func() out) {
		for i := 0; i < n; i++ {
			outs = append(outs, f())
		}
	}
	verdictOK := lr.CodeAccessAccept
	if pk == "acct" {
		verdictOK = lr.CodeAccountingResponse
	}
	terminal = true
	switch mode {
	case "acc", "ok":
		outs = append(outs, good(verdictOK))
	case "rej":
		outs = append(outs, good(lr.CodeAccessReject))
	case "chal":
		outs = append(outs, good(lr.CodeAccessChallenge))
	case "odd": // authentic, but a code that is no answer to this kind of request
		if pk == "acct" {
			outs = append(outs, good(lr.CodeAccessAccept))
		} else {
			outs = append(outs, good(lr.CodeAccountingResponse))
		}
	case "bad-ws":
		rep(10, func() out { return inval(verdictOK, "ws") })
	case "bad-ra":
		rep(10, func() out { return inval(verdictOK, "ra") })
	case "bad-st":
		rep(10, func() out { return inval(verdictOK, "st") })
	case "bad-gb":
		rep(10, gb)
	case "nws-rej":
		rep(3, func() out { return inval(lr.CodeAccessAccept, "ws") })
		outs = append(outs, good(lr.CodeAccessReject))
	case "nst-rej":
		rep(3, func() out { return inval(lr.CodeAccessAccept, "st") })
		outs = append(outs, good(lr.CodeAccessReject))
	case "nra-acc":
		rep(3, func() out { return inval(lr.CodeAccessReject, "ra") })
		outs = append(outs, good(lr.CodeAccessAccept))
	case "ngb-acc":
		rep(3, gb)
		outs = append(outs, good(lr.CodeAccessAccept))
	case "nws-ok":
		rep(3, func() out { return inval(lr.CodeAccountingResponse, "ws") })
		outs = append(outs, good(lr.CodeAccountingResponse))
	case "wid-rej":
		o := out{wire: build(pkt, lr.CodeAccessAccept, secret, "wid", v), rec: reply{Kind: "accept", Valid: true, IDOK: false, Src: true, Var: v}}
		outs = append(outs, o, good(lr.CodeAccessReject))
	case "osrc":
		o := good(lr.CodeAccessAccept)
		o.rec.Src = false
		o.alt = true
		outs = append(outs, o)
		terminal = false
	case "sil":
		terminal = false
	default:
		harnessFail("unknown server mode " + mode)
		terminal = false
	}
	return
}

func (s *server) loop(pk string, conn *net.UDPConn) {
	buf := make([]byte, 8192)
	ctr := &s.flushA
	if pk == "acct" {
		ctr = &s.flushC
	}
	for {
		n, addr, err := conn.ReadFromUDP(buf)
		if err != nil {
			if ne, ok := err.(net.Error); ok && ne.Timeout() {
				continue
			}
			if isRefusedErr(err) { // ICMP for a reply that reached a closed client socket
				continue
			}
			return
		}
		if n == len(sentinel) && string(buf[:n]) == string(sentinel) {
			ctr.Add(1)
			continue
		}
		raw := append([]byte{}, buf[:n]...)
		d := &dgram{srv: s.idx, pk: pk, sport: addr.Port, raw: raw}
		mode := s.mode(pk)
		secret := secretOf(s.idx, s.set.distinct)
		pkt, err := lr.Parse(raw, []byte(secret))
		if err != nil {
			s.set.record(d)
			continue
		}
		if mode == "hold" {
			s.set.mu.Lock()
			s.set.seq++
			d.seq = s.set.seq
			s.set.log = append(s.set.log, d)
			s.set.held = append(s.set.held, &heldReq{srv: s, pkt: pkt, addr: addr, raw: raw})
			if s.set.heldSeen == nil {
				s.set.heldSeen = map[string]int{}
			}
			s.set.heldSeen[rfc2865.UserName_GetString(pkt)]++
			s.set.mu.Unlock()
			continue
		}
		outs, terminal := script(s, pk, mode, pkt, secret)
		for _, o := range outs {
			d.replies = append(d.replies, o.rec)
		}
		d.ended = terminal
		s.set.record(d) // recorded before anything is sent: when the client has its answer the record exists
		for _, o := range outs {
			if o.wire == nil {
				continue
			}
			if o.alt {
				s.alt.WriteToUDP(o.wire, addr)
			} else {
				conn.WriteToUDP(o.wire, addr)
			}
		}
		if terminal {
			for i := 0; i < 10; i++ {
				conn.WriteToUDP(garbage(), addr)
			}
		}
	}
}

func isRefusedErr(err error) bool {
	if oe, ok := err.(*net.OpError); ok {
		if se, ok := oe.Err.(*os.SyscallError); ok {
			return se.Err == syscall.ECONNREFUSED
		}
	}
	return false
}

// release answers the held request of user (User-Name) with an authentic reply of the given
// code and returns what was sent.
func (ps *peerSet) release(user string, code lr.Code) (reply, bool) {
	ps.mu.Lock()
	var h *heldReq
	for i, x := range ps.held {
		if rfc2865.UserName_GetString(x.pkt) == user {
			h = x
			ps.held = append(ps.held[:i], ps.held[i+1:]...)
			break
		}
	}
	ps.mu.Unlock()
	if h == nil {
		return reply{}, false
	}
	v := variantFor(h.srv.idx, h.pkt)
	w := build(h.pkt, code, secretOf(h.srv.idx, ps.distinct), "good", v)
	h.srv.auth.WriteToUDP(w, h.addr)
	for i := 0; i < 10; i++ {
		h.srv.auth.WriteToUDP(garbage(), h.addr)
	}
	return reply{Kind: kindOf(code), Valid: true, IDOK: true, Src: true, Var: v}, true
}

// heldAt: the server (1-based) that holds a request of user, 0 if none.
func (ps *peerSet) heldAt(user string) int {
	ps.mu.Lock()
	defer ps.mu.Unlock()
	for _, x := range ps.held {
		if rfc2865.UserName_GetString(x.pkt) == user {
			return x.srv.idx
		}
	}
	return 0
}

// seenOf: how many requests of user were held since the call began (part of the fingerprint: the attempt number).
func (ps *peerSet) seenOf(user string) int {
	ps.mu.Lock()
	defer ps.mu.Unlock()
	return ps.heldSeen[user]
}

func (ps *peerSet) forget(user string) {
	ps.mu.Lock()
	defer ps.mu.Unlock()
	if ps.heldSeen != nil {
		delete(ps.heldSeen, user)
	}
}

// releaseFail answers the held request of user with ten invalid replies: the attempt fails.
func (ps *peerSet) releaseFail(user string) bool {
	ps.mu.Lock()
	var h *heldReq
	for i, x := range ps.held {
		if rfc2865.UserName_GetString(x.pkt) == user {
			h = x
			ps.held = append(ps.held[:i], ps.held[i+1:]...)
			break
		}
	}
	ps.mu.Unlock()
	if h == nil {
		return false
	}
	for i := 0; i < 10; i++ {
		h.srv.auth.WriteToUDP(garbage(), h.addr)
	}
	return true
}
