//go:build verif

package radiusclient

import (
	"encoding/json"
	"fmt"
	"math/rand"
	"os"
	"os/exec"
	"path/filepath"
	"runtime"
	"strconv"
	"strings"
	"sync"
	"testing"
	"time"

	"verifharness/core"
)

type replayCase struct {
	ID     string         `json:"id"`
	System string         `json:"system"`
	Events []core.Event   `json:"events"`
	Cfg    map[string]any `json:"cfg"`
}

type replayFile struct {
	Property string       `json:"property"`
	Cases    []replayCase `json:"cases"`
}

type runStats struct {
	Systems     int                `json:"systems"`
	Nodes       int                `json:"nodes"`
	Edges       int                `json:"edges"`
	Chains      int                `json:"chains"`
	ChainEvents int                `json:"chain_events"`
	Closed      int                `json:"closed_systems"`
	Panics      []core.PanicRecord `json:"panics"`
	PerSystem   map[string][3]int  `json:"per_system"`
	Reruns      int                `json:"rt_chain_reruns"`
}

// --- alphabets -------------------------------------------------------------------------------

// every event carries the same fields (TLC reads records)
func cev(op string, kv ...any) core.Event {
	e := core.Event{"op": op, "t": 0, "s": 0, "pk": "", "m": "", "dt": 0, "ctx": "bg", "k": 0, "c": 0}
	for i := 0; i+1 < len(kv); i += 2 {
		e[kv[i].(string)] = kv[i+1]
	}
	return e
}
func evAuth(t int) core.Event                { return cev("auth", "t", t) }
func evAuthCtx(t int, ctx string) core.Event { return cev("auth", "t", t, "ctx", ctx) }
func evAcct(t int) core.Event                { return cev("acct", "t", t) }
func evAcctCtx(t int, ctx string) core.Event { return cev("acct", "t", t, "ctx", ctx) }
func evMode(s int, pk, m string) core.Event  { return cev("mode", "s", s, "pk", pk, "m", m) }
func evAdv(ms int) core.Event                { return cev("adv", "dt", ms) }
func evPar(k int) core.Event                 { return cev("par", "k", k) }
func evCStart(c int) core.Event              { return cev("cstart", "c", c, "t", c) }
func evCFail(c int) core.Event               { return cev("cfail", "c", c) }
func evCAns(c int, m string) core.Event      { return cev("cans", "c", c, "m", m) }

const bubbleTimeout = 2500 * time.Millisecond
const rtTimeout = 800 * time.Millisecond // < 1 s: the library's retransmission ticker never fires

// Catalogue: the configurations whose transition tables are extracted.
func Catalogue(tier string) []core.System {
	l := []core.System{
		// rate limiter of a single server: bucket levels x answers; contexts that end before / while waiting
		&CSystem{name: "one-lim", NSrv: 1, Retries: 3, Timeout: bubbleTimeout, Rate: 1, Burst: 2, Alphabet: []core.Event{
			evAuth(1), evAuthCtx(2, "dl"), evAuthCtx(3, "done"), evAcct(1), evAcctCtx(2, "dl"), evAdv(500),
			evMode(1, "auth", "rej"), evMode(1, "auth", "acc"), evMode(1, "auth", "bad-ws")}},
		// rotation between two servers: refusing / failing / answering, accounting does not rotate
		&CSystem{name: "two-rot", NSrv: 2, Retries: 3, Timeout: bubbleTimeout, Alphabet: []core.Event{
			evAuth(1), evAcct(2), evMode(1, "auth", "ref"), evMode(1, "auth", "acc"), evMode(2, "auth", "bad-ra"), evMode(2, "auth", "rej"),
			evMode(2, "auth", "ref"), evMode(1, "acct", "ref"), evMode(1, "acct", "ok")}},
		// per-server limiters and rotation together
		&CSystem{name: "two-lim", NSrv: 2, Retries: 2, Timeout: bubbleTimeout, Rate: 2, Burst: 1, Alphabet: []core.Event{
			evAuth(2), evAcct(3), evAdv(250), evMode(1, "auth", "ref"), evMode(1, "auth", "acc")}},
		// invalid replies before / instead of the authentic one, answers that are no verdict
		&CSystem{name: "forge1", NSrv: 1, Retries: 2, Timeout: bubbleTimeout, Alphabet: []core.Event{
			evAuth(1), evAuth(3), evAcct(2),
			evMode(1, "auth", "acc"), evMode(1, "auth", "nws-rej"), evMode(1, "auth", "nst-rej"), evMode(1, "auth", "nra-acc"), evMode(1, "auth", "ngb-acc"),
			evMode(1, "auth", "chal"), evMode(1, "auth", "odd"), evMode(1, "auth", "bad-st"), evMode(1, "auth", "bad-gb"),
			evMode(1, "acct", "ok"), evMode(1, "acct", "nws-ok"), evMode(1, "acct", "odd"), evMode(1, "acct", "bad-ws")}},
		// concurrent calls, answers in another order than the requests
		&CSystem{name: "par1", NSrv: 1, Retries: 2, Timeout: bubbleTimeout, Alphabet: []core.Event{evPar(1), evPar(2), evPar(3), evAuth(2)}},
		// every server its own secret (ServerConfig.Secret is per server)
		&CSystem{name: "secrets2", NSrv: 2, Retries: 2, Timeout: bubbleTimeout, Distinct: true, Alphabet: []core.Event{
			evAuth(1), evAcct(1), evMode(1, "auth", "ref"), evMode(1, "auth", "acc"), evMode(2, "auth", "rej")}},
		// Message-Authenticator of accounting requests
		&CSystem{name: "acctma1", NSrv: 1, Retries: 2, Timeout: bubbleTimeout, AcctMA: true, Alphabet: []core.Event{evAcct(1), evAcct(2), evAcct(3), evAuth(1)}},
		// two calls in flight at the same time: whose failure moves whom to which server
		&CSystem{name: "gated2", NSrv: 2, Retries: 2, Timeout: bubbleTimeout, Gated: true, Alphabet: []core.Event{
			evCStart(1), evCStart(2), evCFail(1), evCFail(2), evCAns(1, "acc"), evCAns(2, "rej")}},
		// a reply with a foreign Identifier
		&CSystem{name: "ident1", NSrv: 1, Retries: 2, Timeout: bubbleTimeout, Alphabet: []core.Event{evAuth(1), evMode(1, "auth", "wid-rej"), evMode(1, "auth", "acc")}},
	}
	// three servers, more attempts than servers (the rotation wraps round)
	three := &CSystem{name: "three-wrap", NSrv: 3, Retries: 4, Timeout: bubbleTimeout, Alphabet: []core.Event{evAuth(1), evAcct(1)}}
	for s := 1; s <= 3; s++ {
		for _, m := range []string{"acc", "ref", "bad-ws"} {
			three.Alphabet = append(three.Alphabet, evMode(s, "auth", m))
		}
	}
	if tier == "thorough" {
		l = append(l, three,
			&CSystem{name: "two-lim3", NSrv: 2, Retries: 3, Timeout: bubbleTimeout, Rate: 1, Burst: 2, Alphabet: []core.Event{
				evAuth(1), evAuthCtx(2, "dl"), evAcct(1), evAdv(500), evAdv(250), evMode(1, "auth", "ref"), evMode(1, "auth", "acc"), evMode(2, "auth", "bad-gb"), evMode(2, "auth", "acc")}},
			&CSystem{name: "gated3", NSrv: 3, Retries: 3, Timeout: bubbleTimeout, Gated: true, Alphabet: []core.Event{
				evCStart(1), evCStart(2), evCFail(1), evCFail(2), evCAns(1, "rej"), evCAns(2, "acc")}},
			&CSystem{name: "forge2", NSrv: 2, Retries: 3, Timeout: bubbleTimeout, Alphabet: []core.Event{
				evAuth(2), evAcct(3), evMode(1, "auth", "acc"), evMode(1, "auth", "ref"), evMode(1, "auth", "bad-st"), evMode(1, "auth", "nst-rej"),
				evMode(2, "auth", "acc"), evMode(2, "auth", "bad-gb"), evMode(2, "auth", "nra-acc"), evMode(2, "auth", "chal"),
				evMode(2, "acct", "ok"), evMode(2, "acct", "bad-ws"), evMode(2, "acct", "nws-ok")}},
			&CSystem{name: "one-retry1", NSrv: 1, Retries: 1, Timeout: bubbleTimeout, Alphabet: []core.Event{
				evAuth(1), evAcct(1), evMode(1, "auth", "bad-ws"), evMode(1, "auth", "ref"), evMode(1, "auth", "acc"), evMode(1, "acct", "ref"), evMode(1, "acct", "ok")}},
		)
	} else {
		three.Alphabet = []core.Event{evAuth(1), evMode(1, "auth", "ref"), evMode(1, "auth", "acc"), evMode(2, "auth", "bad-ws"), evMode(2, "auth", "acc"),
			evMode(3, "auth", "ref"), evMode(3, "auth", "acc")}
		l = append(l, three)
	}
	return l
}

// ChainCatalogue: configurations driven by long seeded random sequences.
func ChainCatalogue() []core.System {
	var rnd []core.Event
	for t := 1; t <= NTpl; t++ {
		rnd = append(rnd, evAuth(t), evAuth(t), evAuth(t), evAcct(t), evAcct(t), evAuthCtx(t, "dl"), evAcctCtx(t, "dl"))
	}
	rnd = append(rnd, evAuthCtx(1, "done"), evAcctCtx(2, "done"), evAdv(250), evAdv(250), evAdv(500), evAdv(500), evAdv(1000), evAdv(2000))
	for s := 1; s <= 3; s++ {
		for _, m := range []string{"acc", "acc", "rej", "chal", "odd", "ref", "ref", "bad-ws", "bad-ra", "bad-st", "bad-gb", "nws-rej", "nst-rej", "nra-acc", "ngb-acc"} {
			rnd = append(rnd, evMode(s, "auth", m))
		}
		for _, m := range []string{"ok", "ok", "odd", "ref", "bad-ws", "nws-ok"} {
			rnd = append(rnd, evMode(s, "acct", m))
		}
	}
	rnd2 := append([]core.Event{}, rnd...)
	rnd2 = append(rnd2, evPar(1), evPar(2), evPar(3))
	return []core.System{
		&CSystem{name: "rnd3", NSrv: 3, Retries: 3, Timeout: bubbleTimeout, Rate: 2, Burst: 2, Alphabet: rnd},
		&CSystem{name: "rnd2", NSrv: 2, Retries: 4, Timeout: bubbleTimeout, Rate: 1, Burst: 1, Alphabet: rnd},
		&CSystem{name: "rnd1", NSrv: 1, Retries: 2, Timeout: bubbleTimeout, Alphabet: rnd2},
	}
}

// RTCatalogue: real-time systems (silent servers); scripted histories plus seeded random ones.
func rtSystem(name string, nsrv, retries int, timeout time.Duration) *CSystem {
	return &CSystem{name: name, NSrv: nsrv, Retries: retries, Timeout: timeout, RT: true}
}

type rtChain struct {
	sys *CSystem
	id  string
	evs []core.Event
}

func rtChains(tier string, seed int64) []rtChain {
	s2 := rtSystem("rt-sil2", 2, 3, rtTimeout)
	s1 := rtSystem("rt-sil1", 1, 2, rtTimeout)
	l := []rtChain{
		{s2, "a", []core.Event{evAuth(1), evMode(1, "auth", "sil"), evAuth(2), evAuth(3), evMode(2, "auth", "sil"), evAuth(1), evMode(1, "auth", "acc"), evAuth(2), evAcct(1)}},
		{s2, "b", []core.Event{evMode(1, "auth", "osrc"), evAuth(1), evMode(1, "acct", "sil"), evAcct(2), evMode(2, "auth", "ref"), evAuth(3), evMode(2, "acct", "sil"), evAcct(3)}},
		{s1, "c", []core.Event{evMode(1, "auth", "sil"), evAuth(2), evMode(1, "auth", "rej"), evAuth(2), evMode(1, "acct", "sil"), evAcct(1), evMode(1, "auth", "osrc"), evAuth(1)}},
	}
	var alpha []core.Event
	for t := 1; t <= NTpl; t++ {
		alpha = append(alpha, evAuth(t), evAuth(t), evAcct(t))
	}
	for s := 1; s <= 2; s++ {
		for _, m := range []string{"acc", "acc", "rej", "sil", "osrc", "ref", "bad-ws"} {
			alpha = append(alpha, evMode(s, "auth", m))
		}
		for _, m := range []string{"ok", "ok", "sil", "ref"} {
			alpha = append(alpha, evMode(s, "acct", m))
		}
	}
	n, length := 2, 10
	if tier == "thorough" {
		n, length = 12, 20
		lg := rtSystem("rt-long1", 1, 2, 2500*time.Millisecond) // the library retransmits every second inside an attempt
		l = append(l, rtChain{lg, "d", []core.Event{evMode(1, "auth", "sil"), evAuth(1), evMode(1, "auth", "acc"), evAuth(1), evMode(1, "acct", "sil"), evAcct(2)}})
	}
	for c := 0; c < n; c++ {
		rng := rand.New(rand.NewSource(seed*7919 + int64(c)*104729 + 17))
		var evs []core.Event
		for len(evs) < length {
			evs = append(evs, alpha[rng.Intn(len(alpha))])
		}
		l = append(l, rtChain{s2, fmt.Sprintf("r%d", c), evs})
	}
	return l
}

func find(name string) core.System {
	for _, s := range append(append(Catalogue("quick"), Catalogue("thorough")...), ChainCatalogue()...) {
		if s.Name() == name {
			return s
		}
	}
	for _, c := range rtChains("thorough", 1) {
		if c.sys.name == name {
			return c.sys
		}
	}
	return nil
}

// fromCfg builds a system from a replay case's cfg (design counterexamples carry their own constants).
func fromCfg(name string, cfg map[string]any) core.System {
	if cfg == nil || cfg["kind"] != "client" {
		return nil
	}
	s := &CSystem{name: name, NSrv: toInt(cfg["nsrv"]), Retries: toInt(cfg["retries"]), Timeout: time.Duration(toInt(cfg["timeout"])) * time.Millisecond}
	if b, _ := cfg["limited"].(bool); b {
		s.Rate, s.Burst = toInt(cfg["rate"]), toInt(cfg["burst"])
	}
	s.RT, _ = cfg["rt"].(bool)
	s.Distinct, _ = cfg["distinct"].(bool)
	s.AcctMA, _ = cfg["acctma"].(bool)
	s.Gated, _ = cfg["gated"].(bool)
	if s.NSrv < 1 || s.NSrv > 3 || s.Retries < 1 {
		return nil
	}
	return s
}

// --- jobs --------------------------------------------------------------------------------------

type job struct {
	name   string
	table  core.System
	chain  core.System
	c0, c1 int
	rt     []rtChain
	extra  bool
}

func jobs(tier string, seed int64) []job {
	var l []job
	for _, s := range Catalogue(tier) {
		l = append(l, job{name: "table-" + s.Name(), table: s})
	}
	nchains, per := 4, 2
	if tier == "thorough" {
		nchains, per = 48, 6
	}
	for _, s := range ChainCatalogue() {
		for c := 0; c < nchains; c += per {
			l = append(l, job{name: fmt.Sprintf("chain-%s-%d", s.Name(), c), chain: s, c0: c, c1: min(c+per, nchains)})
		}
	}
	for i, c := range rtChains(tier, seed) {
		l = append(l, job{name: fmt.Sprintf("rt-%d", i), rt: []rtChain{c}})
	}
	if os.Getenv("VERIF_EXTRA_CASES") != "" {
		l = append(l, job{name: "extra", extra: true})
	}
	return l
}

func addTable(bundle *core.Bundle, st *runStats, tab *core.Table) {
	bundle.Systems = append(bundle.Systems, tab)
	ne := 0
	for _, es := range tab.Edges {
		ne += len(es)
	}
	if strings.Contains(tab.Name, "#") {
		st.Chains++
		st.ChainEvents += len(tab.Nodes) - 1
		return
	}
	c := 0
	if tab.Closed {
		c = 1
		st.Closed++
	}
	st.PerSystem[tab.Name] = [3]int{len(tab.Nodes), ne, c}
	st.Systems++
	st.Nodes += len(tab.Nodes)
	st.Edges += ne
}

// runChain executes one chain; a real-time chain during which this process was not scheduled for
// a while (the answer of a healthy server may then have missed the client's timeout) is run again.
func runChain(sys core.System, name string, evs []core.Event, st *runStats) (*core.Table, *core.PanicRecord) {
	cs, _ := sys.(*CSystem)
	for try := 0; ; try++ {
		ep := stallEpoch.Load()
		tab, pr := core.Chain(sys, name, evs, false)
		if cs == nil || !cs.RT || pr != nil || stallEpoch.Load() == ep || try >= 4 {
			return tab, pr
		}
		st.Reruns++
	}
}

func runJob(t *testing.T, j job, tier string, seed int64, bundle *core.Bundle, st *runStats) {
	switch {
	case j.table != nil:
		maxNodes := 600
		if tier == "thorough" {
			maxNodes = 5000
		}
		if v := os.Getenv("VERIF_MAXNODES"); v != "" {
			fmt.Sscan(v, &maxNodes)
		}
		opt := core.ExploreOptions{MaxNodes: maxNodes, AdequacySample: 6, Seed: seed, Workers: 1}
		tab, panics, err := core.Explore(j.table, opt)
		if err != nil {
			t.Fatalf("explore %s: %v", j.table.Name(), err)
		}
		st.Panics = append(st.Panics, panics...)
		addTable(bundle, st, tab)
	case j.chain != nil:
		evs := j.chain.Events()
		n := 60
		if tier == "thorough" {
			n = 300
		}
		for c := j.c0; c < j.c1; c++ {
			rng := rand.New(rand.NewSource(seed*1000003 + int64(c)*7919 + int64(len(j.chain.Name()))))
			var seqv []core.Event
			for len(seqv) < n {
				seqv = append(seqv, evs[rng.Intn(len(evs))])
			}
			tab, pr := runChain(j.chain, fmt.Sprintf("%s#%d", j.chain.Name(), c), seqv, st)
			if pr != nil {
				st.Panics = append(st.Panics, *pr)
				continue
			}
			addTable(bundle, st, tab)
		}
	case j.rt != nil:
		for _, c := range j.rt {
			tab, pr := runChain(c.sys, c.sys.name+"#"+c.id, c.evs, st)
			if pr != nil {
				st.Panics = append(st.Panics, *pr)
				continue
			}
			addTable(bundle, st, tab)
		}
	case j.extra:
		b, err := os.ReadFile(os.Getenv("VERIF_EXTRA_CASES"))
		if err != nil {
			t.Fatal(err)
		}
		var rf replayFile
		if err := json.Unmarshal(b, &rf); err != nil {
			t.Fatal(err)
		}
		for _, c := range rf.Cases {
			sys := fromCfg(c.System, c.Cfg)
			if sys == nil {
				t.Fatalf("extra case %s: no configuration", c.ID)
			}
			tab, pr := runChain(sys, c.System+"#"+c.ID, c.Events, st)
			if pr != nil {
				st.Panics = append(st.Panics, *pr)
				continue
			}
			addTable(bundle, st, tab)
		}
	}
}

func TestExplore(t *testing.T) {
	theT = t
	startStallDetector()
	defer func() {
		harnessErrs.Lock()
		defer harnessErrs.Unlock()
		if len(harnessErrs.l) > 0 {
			t.Fatalf("harness cannot represent the observed behaviour (infrastructure failure, not a verdict):\n%s", strings.Join(harnessErrs.l, "\n"))
		}
	}()
	out := core.OutDir()
	if rf := os.Getenv("VERIF_REPLAY"); rf != "" {
		replay(t, rf, out)
		return
	}
	tier, seed := core.Tier(), core.Seed()
	bundle := &core.Bundle{}
	st := runStats{PerSystem: map[string][3]int{}}
	all := jobs(tier, seed)
	if only := os.Getenv("VERIF_JOB"); only != "" { // child process: one job
		for _, j := range all {
			if j.name == only {
				runJob(t, j, tier, seed, bundle, &st)
			}
		}
		if err := core.WriteJSON(out, "bundle.json", bundle); err != nil {
			t.Fatal(err)
		}
		core.WriteJSON(out, "stats.json", st)
		return
	}
	// parent: every job in its own process (bubbles of one process run strictly one after the other:
	// go1.25.0's synctest is not safe with bubbles on several Ps), several processes at a time
	par := max(2, min(8, runtime.NumCPU()/2))
	if v, err := strconv.Atoi(os.Getenv("VERIF_PAR")); err == nil && v > 0 {
		par = v
	}
	type result struct {
		b   core.Bundle
		s   runStats
		err string
	}
	results := make([]result, len(all))
	sem := make(chan struct{}, par)
	var wg sync.WaitGroup
	for i, j := range all {
		wg.Add(1)
		go func() {
			defer wg.Done()
			sem <- struct{}{}
			defer func() { <-sem }()
			jd := filepath.Join(out, "jobs", j.name)
			os.MkdirAll(jd, 0o755)
			cmd := exec.Command(os.Args[0], "-test.run", "^TestExplore$", "-test.count=1", "-test.timeout", "3000s")
			cmd.Env = append(os.Environ(), "VERIF_JOB="+j.name, "VERIF_OUT="+jd)
			o, err := cmd.CombinedOutput()
			if err != nil {
				results[i].err = fmt.Sprintf("job %s: %v\n%s", j.name, err, tail(string(o), 4000))
				return
			}
			for f, v := range map[string]any{"bundle.json": &results[i].b, "stats.json": &results[i].s} {
				b, err := os.ReadFile(filepath.Join(jd, f))
				if err == nil {
					err = json.Unmarshal(b, v)
				}
				if err != nil {
					results[i].err = fmt.Sprintf("job %s: %s: %v", j.name, f, err)
					return
				}
			}
		}()
	}
	wg.Wait()
	for i := range all {
		r := results[i]
		if r.err != "" {
			t.Fatal(r.err)
		}
		bundle.Systems = append(bundle.Systems, r.b.Systems...)
		st.Systems += r.s.Systems
		st.Nodes += r.s.Nodes
		st.Edges += r.s.Edges
		st.Chains += r.s.Chains
		st.ChainEvents += r.s.ChainEvents
		st.Closed += r.s.Closed
		st.Reruns += r.s.Reruns
		st.Panics = append(st.Panics, r.s.Panics...)
		for k, v := range r.s.PerSystem {
			st.PerSystem[k] = v
		}
	}
	os.RemoveAll(filepath.Join(out, "jobs"))
	if err := core.WriteJSON(out, "bundle.json", bundle); err != nil {
		t.Fatal(err)
	}
	if err := core.WriteJSON(out, "stats.json", st); err != nil {
		t.Fatal(err)
	}
}

func tail(s string, n int) string {
	if len(s) > n {
		return s[len(s)-n:]
	}
	return s
}

func replay(t *testing.T, file, out string) {
	b, err := os.ReadFile(file)
	if err != nil {
		t.Fatal(err)
	}
	var rf replayFile
	if err := json.Unmarshal(b, &rf); err != nil {
		t.Fatal(err)
	}
	st := runStats{PerSystem: map[string][3]int{}}
	bundle := &core.Bundle{}
	for _, c := range rf.Cases {
		name := c.System
		if i := strings.IndexByte(name, '#'); i >= 0 {
			name = name[:i]
		}
		sys := find(name)
		if sys == nil {
			sys = fromCfg(name, c.Cfg)
		}
		if sys == nil {
			t.Fatalf("unknown system %q", c.System)
		}
		tab, pr := runChain(sys, name+"#"+c.ID, c.Events, &st)
		if pr != nil {
			st.Panics = append(st.Panics, *pr)
			continue
		}
		addTable(bundle, &st, tab)
	}
	if err := core.WriteJSON(out, "bundle.json", bundle); err != nil {
		t.Fatal(err)
	}
	core.WriteJSON(out, "stats.json", st)
}
