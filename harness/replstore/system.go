//go:build verif

// Package replstore binds the ReplStore contract (specs/ReplStore) to the real nexus.MemoryStore,
// nexus.CLSetStore and nexus.DistributedStore of /repo. Every replay lives in its own
// testing/synctest bubble (CLSetStore runs a sync ticker; watch callbacks are delivered on
// goroutines of their own, the harness lets them finish after every call). Two replicas are joined
// the way the package documents it: the insert / update / delete hooks of one ("Trigger hooks for
// CLSet sync") feed a FIFO queue, a harness step hands the oldest queued change to
// ApplyRemoteChange of the other ("called by the CLSet sync mechanism when changes are received").
// DistributedStore's read / write modes need a CRDT backend that this build does not have (build
// tag clset); the harness puts a real CLSetStore behind the store's backend interface (unexported
// fields set by reflection, no hook in /repo). The harness executes, observes and projects; it
// judges nothing.
package replstore

import (
	"context"
	"encoding/json"
	"errors"
	"fmt"
	"reflect"
	"runtime"
	"runtime/debug"
	"sort"
	"strings"
	"sync"
	"testing"
	"testing/synctest"
	"time"

	"github.com/codelaboratoryltd/bng/pkg/nexus"
	"go.uber.org/zap"

	"verifharness/core"
)

const (
	Unit      = time.Second // one unit of the specification's time
	Namespace = "ns"
	ForeignNS = "zz" // "another CRDT user"
	SelfID    = "self"
)

var theT *testing.T

var harnessErrs struct {
	sync.Mutex
	l []string
}

func harnessFail(msg string) {
	harnessErrs.Lock()
	if len(harnessErrs.l) < 20 {
		harnessErrs.l = append(harnessErrs.l, msg)
	}
	harnessErrs.Unlock()
}

// go1.25.0 testing/synctest: bubbles of this harness never run concurrently; the collector is
// switched off and run between bubbles (see harness/failover, harness/dnscache).
func init() { debug.SetGCPercent(-1) }

var wraps int

// RSystem is one configuration.
type RSystem struct {
	SysName  string     `json:"name"`
	Kind     string     `json:"kind"`     // "mem": MemoryStore; "dm": DistributedStore memory mode; "cl": CLSetStore; "dist": DistributedStore read/write over a CLSetStore
	NR       int        `json:"nr"`       // replicas (1 or 2)
	Keys     []string   `json:"keys"`     // the user's keys
	Prefixes []string   `json:"prefixes"` // prefixes used by Query / Watch
	NV       int        `json:"nv"`       // values v1..vNV
	Modes    []string   `json:"modes"`    // per replica: "plain" | "write" | "read"
	Writers  []int      `json:"writers"`  // replicas whose Put / Delete are in the alphabet (empty: all)
	Hooks    [][]string `json:"hooks"`    // per replica: which of "ins", "upd", "del" are installed
	Gossip   bool       `json:"gossip"`   // the hooks of one replica feed the queue of the other
	W0       [][]int    `json:"w0"`       // per replica: prefixes watched from the start (1-based)
	WatchPs  []int      `json:"watchps"`  // prefixes offered by the "watch" event
	WCap     int        `json:"wcap"`     // callbacks per replica at most
	QCap     int        `json:"qcap"`     // a replica with that many changes under way makes no further write (keeps tables finite)
	Reads    bool       `json:"reads"`    // get / query in the alphabet
	Foreign  bool       `json:"foreign"`  // remote changes of another namespace in the alphabet
	CloseEv  bool       `json:"closeev"`  // Close in the alphabet
	Put2     bool       `json:"put2"`     // two overlapping Puts of key 1 in the alphabet
	NPeer    int        `json:"npeer"`    // peers that can register with replica 1
	TTL      int        `json:"ttl"`      // PeerTTL, units
	Sync     int        `json:"sync"`     // SyncInterval, units
	MaxDepth int        `json:"maxdepth"`
}

func (s *RSystem) Name() string { return s.SysName }

func (s *RSystem) Config() map[string]any {
	pk := [][]bool{}
	for _, p := range s.Prefixes {
		row := []bool{}
		for _, k := range s.Keys {
			row = append(row, strings.HasPrefix(k, p))
		}
		pk = append(pk, row)
	}
	hooks := [][]string{}
	w0 := [][]int{}
	modes := []string{}
	for r := 0; r < s.NR; r++ {
		h, w, m := []string{}, []int{}, "plain"
		if r < len(s.Hooks) {
			h = append(h, s.Hooks[r]...)
		}
		if r < len(s.W0) {
			w = append(w, s.W0[r]...)
		}
		if r < len(s.Modes) {
			m = s.Modes[r]
		}
		hooks, w0, modes = append(hooks, h), append(w0, w), append(modes, m)
	}
	def, _ := json.Marshal(s)
	ttl, syn := s.TTL, s.Sync
	if s.NPeer == 0 {
		ttl, syn = 0, 0
	}
	return map[string]any{"impl": s.SysName, "kind": s.Kind, "nr": s.NR, "nk": len(s.Keys), "np": len(s.Prefixes), "nv": s.NV, "pk": pk,
		"mode": modes, "hooks": hooks, "gossip": s.Gossip, "w0": w0, "ttl": ttl, "sync": syn, "npeer": s.NPeer, "qcap": s.QCap, "nsubs": 0,
		"def": string(def)}
}

// fromCfg rebuilds a system from the cfg of a replay case.
func fromCfg(name string, cfg map[string]any) *RSystem {
	if cfg == nil {
		return nil
	}
	def, ok := cfg["def"].(string)
	if !ok {
		return nil
	}
	s := &RSystem{}
	if err := json.Unmarshal([]byte(def), s); err != nil {
		return nil
	}
	s.SysName = name
	return s
}

func toInt(v any) int {
	switch x := v.(type) {
	case int:
		return x
	case int64:
		return int(x)
	case float64:
		return int(x)
	}
	return 0
}

func toBool(v any) bool { b, _ := v.(bool); return b }

// mk builds an event of the alphabet; fields that are zero are left out (the specification never reads them for that
// operation, and TLC's JSON reader is slow: the bundle is kept small)
func mk(op string, r, k, v, v2, p int, d bool) core.Event {
	e := core.Event{"op": op, "r": r}
	for name, x := range map[string]int{"k": k, "v": v, "v2": v2, "p": p} {
		if x != 0 {
			e[name] = x
		}
	}
	if d {
		e["d"] = true
	}
	return e
}

// the result fields the specification reads, per operation (besides cbs and hooks)
var resultFields = map[string][]string{
	"put": {"skip", "err", "chg"}, "del": {"skip", "err", "chg"}, "put2": {"skip", "err", "chg", "fin"},
	"get": {"err", "val", "chg"}, "query": {"err", "res", "chg"}, "rc": {"skip"}, "rf": {"skip", "chg"},
	"watch": {"reg", "chg"}, "close": {"err"}, "reg": {"chg"}, "hb": {"skip", "chg"}, "adv": {"dt", "chg"},
}

func (s *RSystem) mode(r int) string {
	if r-1 < len(s.Modes) {
		return s.Modes[r-1]
	}
	return "plain"
}

func (s *RSystem) writer(r int) bool {
	if len(s.Writers) == 0 {
		return true
	}
	for _, w := range s.Writers {
		if w == r {
			return true
		}
	}
	return false
}

func (s *RSystem) clBacked() bool { return s.Kind == "cl" || s.Kind == "dist" }

func (s *RSystem) Events() []core.Event {
	var evs []core.Event
	for r := 1; r <= s.NR; r++ {
		for k := 1; k <= len(s.Keys); k++ {
			if !s.writer(r) {
				if s.Reads {
					evs = append(evs, mk("get", r, k, 0, 0, 0, false))
				}
				continue
			}
			nv := s.NV
			if s.mode(r) == "read" {
				nv = 1
			}
			for v := 1; v <= nv; v++ {
				evs = append(evs, mk("put", r, k, v, 0, 0, false))
			}
			evs = append(evs, mk("del", r, k, 0, 0, 0, false))
			if s.Reads {
				evs = append(evs, mk("get", r, k, 0, 0, 0, false))
			}
		}
		if s.Reads {
			for p := 1; p <= len(s.Prefixes); p++ {
				evs = append(evs, mk("query", r, 0, 0, 0, p, false))
			}
		}
		if s.Gossip {
			evs = append(evs, mk("rc", r, 0, 0, 0, 0, false))
		}
		if s.Foreign && s.clBacked() {
			evs = append(evs, mk("rf", r, 1, 1, 0, 0, false), mk("rf", r, 1, 0, 0, 0, true))
		}
		for _, p := range s.WatchPs {
			evs = append(evs, mk("watch", r, 0, 0, 0, p, false))
		}
		if s.CloseEv {
			evs = append(evs, mk("close", r, 0, 0, 0, 0, false))
		}
		if s.Put2 && s.Kind == "cl" && s.writer(r) && s.NV >= 2 {
			evs = append(evs, mk("put2", r, 1, 1, 2, 0, false))
		}
	}
	if s.NPeer > 0 {
		for i := 1; i <= s.NPeer; i++ {
			evs = append(evs, mk("reg", 1, i, 0, 0, 0, false), mk("hb", 1, i, 0, 0, 0, false))
		}
		evs = append(evs, mk("adv", 1, 0, 0, 0, 0, false))
	}
	return evs
}

func (s *RSystem) Wrap(f func()) {
	wraps++
	if wraps%2000 == 0 {
		runtime.GC()
	}
	synctest.Test(theT, func(t *testing.T) { f() })
}

// --- a CLSetStore behind DistributedStore's backend interface -----------------------------------

type backend struct{ cl *nexus.CLSetStore }

func (b *backend) Get(ctx context.Context, key string) ([]byte, error) { return b.cl.Get(ctx, key) }
func (b *backend) Put(ctx context.Context, key string, value []byte) error {
	return b.cl.Put(ctx, key, value)
}
func (b *backend) Delete(ctx context.Context, key string) error { return b.cl.Delete(ctx, key) }
func (b *backend) Query(ctx context.Context, prefix string) ([]nexus.KeyValue, error) {
	return b.cl.Query(ctx, prefix)
}
func (b *backend) Subscribe(prefix string, callback func(key string, value []byte, deleted bool)) {
	b.cl.Watch(prefix, callback)
}
func (b *backend) Members() []nexus.ClusterMember {
	var out []nexus.ClusterMember
	for _, p := range b.cl.GetActivePeers() {
		out = append(out, nexus.ClusterMember{NodeID: p.ID})
	}
	return out
}
func (b *backend) Close() error { return b.cl.Close() }

// --- instance --------------------------------------------------------------------------------

type change struct {
	key     string
	value   []byte
	deleted bool
}

type rep struct {
	front   nexus.Store
	cl      *nexus.CLSetStore
	dist    *nexus.DistributedStore
	mem     *nexus.MemoryStore
	watched []int
	inbox   []change
	closed  bool
}

type inst struct {
	s    *RSystem
	reps []*rep
	t0   time.Time

	mu    sync.Mutex
	cbs   []map[string]any
	hooks []map[string]any
	// put2: the first hook call parks here until released
	gateArmed bool
	gateIn    chan struct{}
	gateOut   chan struct{}
}

func valBytes(v int) []byte { return []byte(fmt.Sprintf("v%d", v)) }

func (in *inst) valIdx(b []byte) int {
	for v := 1; v <= in.s.NV; v++ {
		if string(b) == fmt.Sprintf("v%d", v) {
			return v
		}
	}
	if len(b) == 0 {
		return 0
	}
	return -1
}

func (in *inst) keyIdx(key string) int {
	for i, k := range in.s.Keys {
		if k == key {
			return i + 1
		}
	}
	return 0
}

func (in *inst) hook(r, h int) func(key string, value []byte) {
	return func(key string, value []byte) {
		in.mu.Lock()
		park := in.gateArmed
		in.gateArmed = false
		in.mu.Unlock()
		if park {
			close(in.gateIn)
			<-in.gateOut
		}
		k := 0
		if strings.HasPrefix(key, Namespace+"/") {
			k = in.keyIdx(key[len(Namespace)+1:])
		}
		in.mu.Lock()
		in.hooks = append(in.hooks, map[string]any{"r": r, "h": h, "k": k, "v": in.valIdx(value)})
		if in.s.Gossip && in.s.NR == 2 {
			o := in.reps[2-r]
			o.inbox = append(o.inbox, change{key, value, h == 3})
		}
		in.mu.Unlock()
	}
}

func (in *inst) callback(r, w int) nexus.WatchCallback {
	return func(key string, value []byte, deleted bool) {
		d := 0
		if deleted {
			d = 1
		}
		in.mu.Lock()
		in.cbs = append(in.cbs, map[string]any{"r": r, "w": w, "k": in.keyIdx(key), "v": in.valIdx(value), "d": d})
		in.mu.Unlock()
	}
}

func (in *inst) watch(r, p int) {
	rp := in.reps[r-1]
	rp.watched = append(rp.watched, p)
	rp.front.Watch(in.s.Prefixes[p-1], in.callback(r, len(rp.watched)))
}

func (s *RSystem) New() core.Instance {
	in := &inst{s: s, t0: time.Now()}
	for r := 1; r <= s.NR; r++ {
		rp := &rep{}
		switch s.Kind {
		case "mem":
			rp.mem = nexus.NewMemoryStore()
			rp.front = rp.mem
		case "dm":
			d, err := nexus.NewDistributedStore(nexus.DistributedConfig{Mode: nexus.StoreModeMemory, NodeID: "n"})
			if err != nil {
				panic(err)
			}
			rp.dist, rp.front = d, d
		case "cl", "dist":
			id := SelfID
			if r > 1 {
				id = fmt.Sprintf("self%d", r)
			}
			cfg := nexus.CLSetConfig{PeerID: id, Namespace: Namespace, Logger: zap.NewNop()}
			if s.NPeer > 0 {
				cfg.SyncInterval = time.Duration(s.Sync) * Unit
				cfg.PeerTTL = time.Duration(s.TTL) * Unit
			}
			c, err := nexus.NewCLSetStore(cfg)
			if err != nil {
				panic(err)
			}
			rp.cl, rp.front = c, c
			if s.Kind == "dist" {
				d, err := nexus.NewDistributedStore(nexus.DistributedConfig{Mode: nexus.StoreModeMemory, NodeID: id})
				if err != nil {
					panic(err)
				}
				m := nexus.StoreModeWrite
				if s.mode(r) == "read" {
					m = nexus.StoreModeRead
				}
				core.Field(d, "mode").SetString(string(m))
				core.Field(d, "crdt").Set(reflect.ValueOf(&backend{cl: c}))
				cf := core.Field(d, "config")
				core.FieldOf(cf, "Mode").SetString(string(m))
				rp.dist, rp.front = d, d
			}
		default:
			panic("unknown kind " + s.Kind)
		}
		in.reps = append(in.reps, rp)
	}
	for r := 1; r <= s.NR; r++ {
		rp := in.reps[r-1]
		if rp.cl != nil && r-1 < len(s.Hooks) {
			for _, h := range s.Hooks[r-1] {
				switch h {
				case "ins":
					rp.cl.SetInsertHook(in.hook(r, 1))
				case "upd":
					rp.cl.SetUpdateHook(in.hook(r, 2))
				case "del":
					hk := in.hook(r, 3)
					rp.cl.SetDeleteHook(func(key string) { hk(key, nil) })
				}
			}
		}
		if r-1 < len(s.W0) {
			for _, p := range s.W0[r-1] {
				in.watch(r, p)
			}
		}
	}
	synctest.Wait() // the sync loops have created their tickers: they tick at whole multiples of SyncInterval from now
	return in
}

func (in *inst) Close() {
	for _, rp := range in.reps {
		if rp.cl != nil {
			rp.cl.Close()
		}
		if rp.dist != nil {
			rp.dist.Close()
		}
	}
	synctest.Wait()
}

func errName(err error) string {
	switch {
	case err == nil:
		return ""
	case errors.Is(err, nexus.ErrNotFound):
		return "notfound"
	case errors.Is(err, nexus.ErrReadOnlyNode):
		return "readonly"
	case strings.Contains(err.Error(), "closed"):
		return "closed"
	}
	return "other"
}

// rawData reads the store's own map by reflection: full key -> value
func (rp *rep) rawData() map[string][]byte {
	out := map[string][]byte{}
	switch {
	case rp.cl != nil:
		it := core.Field(rp.cl, "data").MapRange()
		for it.Next() {
			out[it.Key().String()] = append([]byte{}, it.Value().Bytes()...)
		}
	case rp.mem != nil:
		it := core.Field(rp.mem, "data").MapRange()
		for it.Next() {
			out[it.Key().String()] = append([]byte{}, it.Value().Bytes()...)
		}
	case rp.dist != nil:
		it := core.Field(rp.dist, "cache").MapRange()
		for it.Next() {
			out[it.Key().String()] = append([]byte{}, it.Value().FieldByName("value").Bytes()...)
		}
	}
	return out
}

// held projects what replica r holds for the user's keys: [{k, v}] sorted by k
func (in *inst) held(r int) []map[string]any {
	rp := in.reps[r-1]
	raw := rp.rawData()
	out := []map[string]any{}
	for i, key := range in.s.Keys {
		full := key
		if rp.cl != nil {
			full = Namespace + "/" + key
		}
		if b, ok := raw[full]; ok {
			out = append(out, map[string]any{"k": i + 1, "v": in.valIdx(b)})
		}
	}
	return out
}

func (in *inst) allHeld() string {
	var sb strings.Builder
	for r := 1; r <= in.s.NR; r++ {
		fmt.Fprintf(&sb, "%v;", in.held(r))
	}
	return sb.String()
}

func (in *inst) Apply(ev core.Event) map[string]any {
	op := fmt.Sprint(ev["op"])
	r, k, v, v2, p := toInt(ev["r"]), toInt(ev["k"]), toInt(ev["v"]), toInt(ev["v2"]), toInt(ev["p"])
	d := toBool(ev["d"])
	res := map[string]any{"skip": false, "err": "", "val": 0, "res": []map[string]any{}, "chg": false, "reg": false, "fin": 0, "dt": 0}
	in.mu.Lock()
	in.cbs, in.hooks = nil, nil
	in.mu.Unlock()
	before := in.allHeld()
	ctx := context.Background()
	var rp *rep
	if r >= 1 && r <= len(in.reps) {
		rp = in.reps[r-1]
	}
	full := func(o *rep) bool { // a replica that already has QCap changes under way to the other one writes no more
		return in.s.Gossip && in.s.NR == 2 && in.s.QCap > 0 && len(in.reps[2-r].inbox) >= in.s.QCap && in.s.mode(r) != "read" && !o.closed
	}
	switch op {
	case "put":
		if full(rp) {
			res["skip"] = true
			break
		}
		res["err"] = errName(rp.front.Put(ctx, in.s.Keys[k-1], valBytes(v)))
	case "del":
		if full(rp) {
			res["skip"] = true
			break
		}
		res["err"] = errName(rp.front.Delete(ctx, in.s.Keys[k-1]))
	case "put2":
		if rp.closed || (in.s.QCap > 0 && in.s.Gossip && in.s.NR == 2 && len(in.reps[2-r].inbox)+2 > in.s.QCap) {
			res["skip"] = true
			break
		}
		in.mu.Lock()
		in.gateArmed, in.gateIn, in.gateOut = true, make(chan struct{}), make(chan struct{})
		in.mu.Unlock()
		var e1, e2 error
		done1, done2 := make(chan struct{}), make(chan struct{})
		go func() { e1 = rp.front.Put(ctx, in.s.Keys[k-1], valBytes(v)); close(done1) }()
		synctest.Wait() // the first Put is parked at the entry of its hook (or has returned, if no hook was called)
		go func() { e2 = rp.front.Put(ctx, in.s.Keys[k-1], valBytes(v2)); close(done2) }()
		synctest.Wait() // the second Put has run to completion - unless the implementation calls hooks while it holds its lock
		in.mu.Lock()
		in.gateArmed = false
		in.mu.Unlock()
		close(in.gateOut)
		<-done1
		<-done2
		if e1 != nil {
			res["err"] = errName(e1)
		} else {
			res["err"] = errName(e2)
		}
	case "get":
		b, err := rp.front.Get(ctx, in.s.Keys[k-1])
		res["err"] = errName(err)
		if err == nil {
			res["val"] = in.valIdx(b)
			if len(b) == 0 {
				res["val"] = -1
			}
		}
	case "query":
		kvs, err := rp.front.Query(ctx, in.s.Prefixes[p-1])
		res["err"] = errName(err)
		l := []map[string]any{}
		for _, kv := range kvs {
			l = append(l, map[string]any{"k": in.keyIdx(kv.Key), "v": in.valIdx(kv.Value)})
		}
		sort.Slice(l, func(i, j int) bool {
			if toInt(l[i]["k"]) != toInt(l[j]["k"]) {
				return toInt(l[i]["k"]) < toInt(l[j]["k"])
			}
			return toInt(l[i]["v"]) < toInt(l[j]["v"])
		})
		res["res"] = l
	case "rc":
		if rp.cl == nil || rp.closed || len(rp.inbox) == 0 {
			res["skip"] = true
			break
		}
		ch := rp.inbox[0]
		rp.inbox = rp.inbox[1:]
		rp.cl.ApplyRemoteChange(ch.key, ch.value, ch.deleted)
	case "rf":
		if rp.cl == nil || rp.closed {
			res["skip"] = true
			break
		}
		if d {
			rp.cl.ApplyRemoteChange(ForeignNS+"/"+in.s.Keys[k-1], nil, true)
		} else {
			rp.cl.ApplyRemoteChange(ForeignNS+"/"+in.s.Keys[k-1], valBytes(v), false)
		}
	case "watch":
		if len(rp.watched) < in.s.WCap {
			in.watch(r, p)
			res["reg"] = true
		}
	case "close":
		res["err"] = errName(rp.front.Close())
		rp.closed = true
	case "reg":
		in.reps[0].cl.RegisterPeer(fmt.Sprintf("p%d", k), fmt.Sprintf("10.0.0.%d:9000", k))
	case "hb":
		if !in.registered(k) {
			res["skip"] = true // the package does not say what a heartbeat of an unknown peer does
			break
		}
		in.reps[0].cl.UpdatePeerHeartbeat(fmt.Sprintf("p%d", k))
	case "adv":
		time.Sleep(Unit)
		res["dt"] = 1
	default:
		harnessFail("unknown op " + op)
	}
	synctest.Wait() // callbacks run on goroutines of their own; sync rounds due now have run
	in.mu.Lock()
	cbs, hooks := in.cbs, in.hooks
	in.cbs, in.hooks = nil, nil
	in.mu.Unlock()
	if cbs == nil {
		cbs = []map[string]any{}
	}
	if hooks == nil {
		hooks = []map[string]any{}
	}
	// callbacks of one change run in no particular order
	sort.SliceStable(cbs, func(i, j int) bool {
		a, b := cbs[i], cbs[j]
		for _, f := range []string{"r", "w", "k", "v", "d"} {
			if toInt(a[f]) != toInt(b[f]) {
				return toInt(a[f]) < toInt(b[f])
			}
		}
		return false
	})
	res["cbs"], res["hooks"] = cbs, hooks
	res["chg"] = in.allHeld() != before
	if op == "put2" && !toBool(res["skip"]) {
		for _, h := range in.held(r) {
			if toInt(h["k"]) == k {
				res["fin"] = toInt(h["v"])
			}
		}
	}
	out := map[string]any{"cbs": cbs, "hooks": hooks}
	for _, f := range resultFields[op] {
		out[f] = res[f]
	}
	return out
}

func (in *inst) registered(i int) bool {
	for _, p := range in.reps[0].cl.GetPeers() {
		if p.ID == fmt.Sprintf("p%d", i) {
			return true
		}
	}
	return false
}

func peerIdx(id string) int {
	if id == SelfID {
		return 0
	}
	var i int
	if n, _ := fmt.Sscanf(id, "p%d", &i); n == 1 && fmt.Sprintf("p%d", i) == id {
		return i
	}
	return 99
}

func (in *inst) Observe() map[string]any {
	data := [][]map[string]any{}
	wn := []bool{}
	for r := 1; r <= in.s.NR; r++ {
		data = append(data, in.held(r))
		rp := in.reps[r-1]
		if rp.dist != nil {
			wn = append(wn, rp.dist.IsWriteNode())
		} else {
			wn = append(wn, true)
		}
	}
	peers, active := []int{}, []int{}
	if in.s.NPeer > 0 {
		for _, p := range in.reps[0].cl.GetPeers() {
			peers = append(peers, peerIdx(p.ID))
		}
		for _, p := range in.reps[0].cl.GetActivePeers() {
			active = append(active, peerIdx(p.ID))
		}
		sort.Ints(peers)
		sort.Ints(active)
	}
	return map[string]any{"data": data, "wn": wn, "peers": peers, "active": active}
}

func (in *inst) Probe() map[string]any { return nil }

// Fingerprint: everything that can influence future behaviour - per replica the store's whole map (keys of other
// namespaces included), whether it is closed, the callbacks registered (prefixes, in order), the changes under way to
// it; the peers with their flag and the time since they were last heard of (capped where it no longer matters); the
// phase of the sync ticker.
func (in *inst) Fingerprint() string {
	var sb strings.Builder
	now := time.Now()
	for r, rp := range in.reps {
		raw := rp.rawData()
		fmt.Fprintf(&sb, "R%d[", r+1)
		for _, k := range core.SortedKeys(raw) {
			fmt.Fprintf(&sb, "%s=%q,", k, raw[k])
		}
		closed := rp.closed
		if rp.cl != nil {
			closed = core.Field(rp.cl, "closed").Bool()
		}
		fmt.Fprintf(&sb, "] closed=%t/%t w=%v q=", closed, rp.closed, rp.watched)
		for _, ch := range rp.inbox {
			fmt.Fprintf(&sb, "(%s %q %t)", ch.key, ch.value, ch.deleted)
		}
		sb.WriteString("; ")
	}
	if in.s.NPeer > 0 {
		type pr struct {
			id  string
			act bool
			age int
		}
		var l []pr
		capAge := in.s.TTL + in.s.Sync + 1
		for _, p := range in.reps[0].cl.GetPeers() {
			d := now.Sub(p.LastSeen)
			if d%Unit != 0 {
				harnessFail(fmt.Sprintf("peer %s was last seen off the time grid (%v ago)", p.ID, d))
			}
			age := int(d / Unit)
			if age > capAge {
				age = capAge
			}
			if p.ID == SelfID {
				age = 0
			}
			l = append(l, pr{p.ID, p.Active, age})
		}
		sort.Slice(l, func(i, j int) bool { return l[i].id < l[j].id })
		fmt.Fprintf(&sb, "peers=%v phase=%d", l, int(now.Sub(in.t0)/Unit)%in.s.Sync)
	}
	return sb.String()
}
