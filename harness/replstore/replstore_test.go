//go:build verif

package replstore

import (
	"encoding/json"
	"fmt"
	"math/rand"
	"os"
	"strings"
	"testing"

	"verifharness/core"
)

type replayCase struct {
	ID     string         `json:"id"`
	System string         `json:"system"`
	Events []core.Event   `json:"events"`
	Cfg    map[string]any `json:"cfg"`
}

type replayFile struct {
	Property string       `json:"property"`
	Cases    []replayCase `json:"cases"`
}

type runStats struct {
	Systems     int                `json:"systems"`
	Nodes       int                `json:"nodes"`
	Edges       int                `json:"edges"`
	Chains      int                `json:"chains"`
	ChainEvents int                `json:"chain_events"`
	Closed      int                `json:"closed_systems"`
	Panics      []core.PanicRecord `json:"panics"`
	PerSystem   map[string][3]int  `json:"per_system"`
}

var (
	allHooks = []string{"ins", "upd", "del"}
	keys2    = []string{"a", "a/1"}
	pfx2     = []string{"", "a/", "b"}
	keys3    = []string{"a", "a/1", "b/1"}
	pfx3     = []string{"", "a", "a/", "b/"}
)

// Catalogue: configurations whose transition tables are extracted (until closed).
func Catalogue(tier string) []*RSystem {
	l := []*RSystem{
		// the Store interface, one store
		{SysName: "mem", Kind: "mem", NR: 1, Keys: keys3, Prefixes: pfx3, NV: 2, W0: [][]int{{1, 3}}, WatchPs: []int{2}, WCap: 3, Reads: true},
		{SysName: "dmem", Kind: "dm", NR: 1, Keys: keys3, Prefixes: pfx3, NV: 2, W0: [][]int{{1, 3}}, WatchPs: []int{2}, WCap: 3, Reads: true},
		{SysName: "cl-one", Kind: "cl", NR: 1, Keys: keys3, Prefixes: pfx3, NV: 2, Hooks: [][]string{allHooks}, W0: [][]int{{2, 4}}, WatchPs: []int{2}, WCap: 3, Reads: true},
		{SysName: "cl-close", Kind: "cl", NR: 1, Keys: keys2, Prefixes: pfx2, NV: 1, Hooks: [][]string{allHooks}, W0: [][]int{{1}}, Reads: true, CloseEv: true},
		// hooks installed in part
		{SysName: "cl-hooks-iu", Kind: "cl", NR: 1, Keys: keys2, Prefixes: pfx2, NV: 2, Hooks: [][]string{{"ins", "upd"}}, W0: [][]int{{2}}},
		{SysName: "cl-hooks-ud", Kind: "cl", NR: 1, Keys: keys2, Prefixes: pfx2, NV: 2, Hooks: [][]string{{"upd", "del"}}, W0: [][]int{{2}}},
		// remote changes, another namespace
		{SysName: "cl-remote", Kind: "cl", NR: 2, Keys: keys2, Prefixes: pfx2, NV: 1, Hooks: [][]string{allHooks, allHooks}, Gossip: true, QCap: 1,
			W0: [][]int{{2}, {2, 3}}},
		{SysName: "cl-remote-rd", Kind: "cl", NR: 2, Keys: []string{"a/1"}, Prefixes: []string{"", "a/", "b"}, NV: 1, Hooks: [][]string{allHooks, allHooks}, Gossip: true, QCap: 1,
			W0: [][]int{{2}, {3}}, Reads: true},
		// peers
		{SysName: "cl-peers", Kind: "cl", NR: 1, Keys: []string{"a"}, Prefixes: []string{""}, NV: 1, Hooks: [][]string{allHooks}, NPeer: 2, TTL: 2, Sync: 1},
		{SysName: "cl-peers-slow", Kind: "cl", NR: 1, Keys: []string{"a"}, Prefixes: []string{""}, NV: 1, Hooks: [][]string{allHooks}, NPeer: 1, TTL: 1, Sync: 2},
		// read and write nodes
		{SysName: "dist-rw", Kind: "dist", NR: 2, Keys: keys2, Prefixes: pfx2, NV: 1, Modes: []string{"write", "read"}, Hooks: [][]string{allHooks, allHooks}, Gossip: true, QCap: 2,
			W0: [][]int{{1}, {1}}, Reads: true},
		// systems in which the known findings live
		{SysName: "cl-insonly", Kind: "cl", NR: 1, Keys: keys2, Prefixes: pfx2, NV: 2, Hooks: [][]string{{"ins", "del"}}, W0: [][]int{{2}}},
		{SysName: "cl-foreign", Kind: "cl", NR: 1, Keys: keys2, Prefixes: pfx2, NV: 1, Hooks: [][]string{allHooks}, W0: [][]int{{2, 1}}, Foreign: true, Reads: true},
		{SysName: "cl-conc", Kind: "cl", NR: 2, Keys: []string{"a"}, Prefixes: []string{""}, NV: 2, Hooks: [][]string{allHooks, allHooks}, Gossip: true, QCap: 1},
		{SysName: "cl-overlap", Kind: "cl", NR: 2, Keys: []string{"a"}, Prefixes: []string{""}, NV: 2, Writers: []int{1}, Hooks: [][]string{allHooks, allHooks}, Gossip: true, QCap: 2,
			W0: [][]int{{1}, {}}, Put2: true},
	}
	if tier == "thorough" {
		l = append(l,
			&RSystem{SysName: "cl-conc-q2", Kind: "cl", NR: 2, Keys: []string{"a"}, Prefixes: []string{""}, NV: 2, Hooks: [][]string{allHooks, allHooks}, Gossip: true, QCap: 2},
			&RSystem{SysName: "cl-conc2", Kind: "cl", NR: 2, Keys: keys2, Prefixes: pfx2, NV: 1, Hooks: [][]string{allHooks, allHooks}, Gossip: true, QCap: 1, W0: [][]int{{1}, {2}}},
			&RSystem{SysName: "cl-remote3", Kind: "cl", NR: 2, Keys: keys3, Prefixes: pfx3, NV: 1, Hooks: [][]string{allHooks, allHooks}, Gossip: true, QCap: 1,
				W0: [][]int{{3}, {2}}},
			&RSystem{SysName: "cl-peers3", Kind: "cl", NR: 1, Keys: []string{"a"}, Prefixes: []string{""}, NV: 1, Hooks: [][]string{allHooks}, NPeer: 3, TTL: 3, Sync: 2},
			&RSystem{SysName: "dist-rw-close", Kind: "dist", NR: 2, Keys: keys2, Prefixes: pfx2, NV: 1, Modes: []string{"write", "read"}, Hooks: [][]string{allHooks, allHooks}, Gossip: true, QCap: 1,
				W0: [][]int{{2}, {1}}, Reads: true, CloseEv: true},
			&RSystem{SysName: "cl-one-watch", Kind: "cl", NR: 1, Keys: keys3, Prefixes: pfx3, NV: 2, Hooks: [][]string{allHooks}, W0: [][]int{{1}}, WatchPs: []int{1, 2, 3, 4}, WCap: 3, CloseEv: true},
		)
	}
	return l
}

// ChainCatalogue: configurations driven by long seeded random sequences.
func ChainCatalogue() []*RSystem {
	return []*RSystem{
		{SysName: "rnd-cl", Kind: "cl", NR: 2, Keys: keys3, Prefixes: pfx3, NV: 3, Writers: []int{1}, Hooks: [][]string{allHooks, allHooks}, Gossip: true, QCap: 6,
			W0: [][]int{{1, 3}, {2}}, WatchPs: []int{2, 4}, WCap: 4, Reads: true, NPeer: 3, TTL: 3, Sync: 2},
		{SysName: "rnd-dist", Kind: "dist", NR: 2, Keys: keys3, Prefixes: pfx3, NV: 3, Modes: []string{"write", "read"}, Hooks: [][]string{allHooks, allHooks}, Gossip: true, QCap: 6,
			W0: [][]int{{1}, {3, 4}}, WatchPs: []int{2}, WCap: 3, Reads: true},
		{SysName: "rnd-mem", Kind: "mem", NR: 1, Keys: keys3, Prefixes: pfx3, NV: 3, W0: [][]int{{1, 3}}, WatchPs: []int{2, 4}, WCap: 4, Reads: true},
		{SysName: "rnd-dmem", Kind: "dm", NR: 1, Keys: keys3, Prefixes: pfx3, NV: 3, W0: [][]int{{1, 3}}, WatchPs: []int{2, 4}, WCap: 4, Reads: true},
		{SysName: "rnd-cl-conc", Kind: "cl", NR: 2, Keys: keys3, Prefixes: pfx3, NV: 3, Hooks: [][]string{allHooks, allHooks}, Gossip: true, QCap: 4,
			W0: [][]int{{1}, {1}}, Reads: true, Put2: true},
		{SysName: "rnd-cl-foreign", Kind: "cl", NR: 1, Keys: keys3, Prefixes: pfx3, NV: 2, Hooks: [][]string{allHooks}, W0: [][]int{{1, 2}}, Reads: true, Foreign: true},
	}
}

func find(name string) *RSystem {
	for _, s := range append(Catalogue("thorough"), ChainCatalogue()...) {
		if s.SysName == name {
			return s
		}
	}
	return nil
}

func randomChain(sys *RSystem, rng *rand.Rand, n int) []core.Event {
	evs := sys.Events()
	var out []core.Event
	for len(out) < n {
		out = append(out, evs[rng.Intn(len(evs))])
	}
	return out
}

func TestExplore(t *testing.T) {
	theT = t
	defer func() {
		harnessErrs.Lock()
		defer harnessErrs.Unlock()
		if len(harnessErrs.l) > 0 {
			t.Fatalf("harness cannot represent the observed behaviour (infrastructure failure, not a verdict):\n%s", strings.Join(harnessErrs.l, "\n"))
		}
	}()
	out := core.OutDir()
	if rf := os.Getenv("VERIF_REPLAY"); rf != "" {
		replay(t, rf, out)
		return
	}
	tier := core.Tier()
	seed := core.Seed()
	maxNodes := 3000
	if v := os.Getenv("VERIF_MAXNODES"); v != "" {
		fmt.Sscan(v, &maxNodes)
	}
	nchains, chainLen := 6, 60
	if tier == "thorough" {
		maxNodes = 8000
		nchains, chainLen = 20, 150
	}
	bundle := &core.Bundle{}
	st := runStats{PerSystem: map[string][3]int{}}
	for _, sys := range Catalogue(tier) {
		if only := os.Getenv("VERIF_ONLY"); only != "" && only != sys.Name() {
			continue
		}
		// bubbles strictly one after the other (go1.25.0 bubbles must not overlap)
		tab, panics, err := core.Explore(sys, core.ExploreOptions{MaxDepth: sys.MaxDepth, MaxNodes: maxNodes, AdequacySample: 20, Seed: seed, Workers: 1})
		if err != nil {
			t.Fatalf("explore %s: %v", sys.Name(), err)
		}
		st.Panics = append(st.Panics, panics...)
		bundle.Systems = append(bundle.Systems, tab)
		ne := 0
		for _, es := range tab.Edges {
			ne += len(es)
		}
		c := 0
		if tab.Closed {
			c = 1
			st.Closed++
		}
		st.PerSystem[sys.Name()] = [3]int{len(tab.Nodes), ne, c}
		st.Systems++
		st.Nodes += len(tab.Nodes)
		st.Edges += ne
	}
	rng := rand.New(rand.NewSource(seed))
	for _, sys := range ChainCatalogue() {
		if only := os.Getenv("VERIF_ONLY"); only != "" && only != sys.Name() {
			continue
		}
		n, l := nchains, chainLen
		if strings.Contains(sys.Name(), "conc") || strings.Contains(sys.Name(), "foreign") {
			n, l = 2*nchains, 30 // a walk ends at the first violation: many short ones
		}
		for c := 0; c < n; c++ {
			seqv := randomChain(sys, rng, l)
			tab, pr := core.Chain(sys, fmt.Sprintf("%s#%d", sys.Name(), c), seqv, false)
			if pr != nil {
				st.Panics = append(st.Panics, *pr)
				continue
			}
			bundle.Systems = append(bundle.Systems, tab)
			st.Chains++
			st.ChainEvents += len(seqv)
		}
	}
	// histories found by TLC on the implementation-shaped design spec, executed on the real code
	if xf := os.Getenv("VERIF_EXTRA_CASES"); xf != "" {
		b, err := os.ReadFile(xf)
		if err != nil {
			t.Fatal(err)
		}
		var rf replayFile
		if err := json.Unmarshal(b, &rf); err != nil {
			t.Fatal(err)
		}
		for _, c := range rf.Cases {
			sys := fromCfg(c.System, c.Cfg)
			if sys == nil {
				t.Fatalf("extra case %s: no configuration", c.ID)
			}
			evs := clean(c.Events)
			tab, pr := core.Chain(sys, c.System+"#"+c.ID, evs, false)
			if pr != nil {
				st.Panics = append(st.Panics, *pr)
				continue
			}
			bundle.Systems = append(bundle.Systems, tab)
			st.Chains++
			st.ChainEvents += len(evs)
		}
	}
	if err := core.WriteJSON(out, "bundle.json", bundle); err != nil {
		t.Fatal(err)
	}
	if err := core.WriteJSON(out, "stats.json", st); err != nil {
		t.Fatal(err)
	}
}

// clean keeps only the alphabet part of recorded events (results are observed afresh).
func clean(in []core.Event) []core.Event {
	evs := make([]core.Event, 0, len(in))
	for _, e := range in {
		evs = append(evs, mk(fmt.Sprint(e["op"]), toInt(e["r"]), toInt(e["k"]), toInt(e["v"]), toInt(e["v2"]), toInt(e["p"]), toBool(e["d"])))
	}
	return evs
}

func replay(t *testing.T, file, out string) {
	b, err := os.ReadFile(file)
	if err != nil {
		t.Fatal(err)
	}
	var rf replayFile
	if err := json.Unmarshal(b, &rf); err != nil {
		t.Fatal(err)
	}
	st := runStats{PerSystem: map[string][3]int{}}
	bundle := &core.Bundle{}
	for _, c := range rf.Cases {
		name := c.System
		if i := strings.IndexByte(name, '#'); i >= 0 {
			name = name[:i]
		}
		sys := fromCfg(name, c.Cfg)
		if sys == nil {
			sys = find(name)
		}
		if sys == nil {
			t.Fatalf("unknown system %q", c.System)
		}
		evs := clean(c.Events)
		tab, pr := core.Chain(sys, name+"#"+c.ID, evs, false)
		if pr != nil {
			st.Panics = append(st.Panics, *pr)
			continue
		}
		bundle.Systems = append(bundle.Systems, tab)
		st.Chains++
		st.ChainEvents += len(evs)
	}
	if err := core.WriteJSON(out, "bundle.json", bundle); err != nil {
		t.Fatal(err)
	}
	core.WriteJSON(out, "stats.json", st)
}
