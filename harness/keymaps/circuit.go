package keymaps

import (
	"encoding/hex"
	"fmt"
	"math/rand"

	"github.com/codelaboratoryltd/bng/pkg/ebpf"

	"verifharness/core"
)

// Circuit-id keys (pkg/ebpf/loader.go): the fast path identifies a relayed subscriber by a key
// computed from its option-82 circuit-id, either the fixed 32-byte key (MakeCircuitIDKey) or
// the 64-bit hash (HashCircuitID). A "system" is one corpus of distinct circuit-ids; its events
// are batches "these circuit-ids (numbers) got these keys (hex strings)". The specification
// keeps key -> circuit-id and requires that no key is computed for two different circuit-ids.
//
// Corpus classes (the class is part of the implementation name, so that a known finding about
// one class does not hide a collision in another):
//
//	len<=2            every byte string of length 0, 1, 2 (65 793 ids)
//	len<=32,text      printable ids of length 1..32 without trailing NUL (what relays send)
//	random<=64        random byte strings of length 3..64
//	len>32,prefix     pairs of ids longer than 32 bytes that share their first 32 bytes
//	fnv-pair          two ids published as a 64-bit FNV-1a collision

type corpus struct {
	Class string
	Seed  int64
	N     int
}

func (c corpus) gen() [][]byte {
	r := rand.New(rand.NewSource(c.Seed))
	var out [][]byte
	seen := map[string]bool{}
	add := func(b []byte) {
		if !seen[string(b)] {
			seen[string(b)] = true
			out = append(out, b)
		}
	}
	switch c.Class {
	case "len<=2":
		add([]byte{})
		for a := 0; a < 256; a++ {
			add([]byte{byte(a)})
		}
		for a := 0; a < 256; a++ {
			for b := 0; b < 256; b++ {
				add([]byte{byte(a), byte(b)})
			}
		}
	case "len<=32,text":
		forms := []func(i int) string{
			func(i int) string { return fmt.Sprintf("eth %d/%d/%d:%d", r.Intn(4), r.Intn(16), r.Intn(48), i) },
			func(i int) string { return fmt.Sprintf("OLT%02d-PON%d-ONU%d", r.Intn(40), r.Intn(16), i) },
			func(i int) string { return fmt.Sprintf("%d", i) },
			func(i int) string { return fmt.Sprintf("ge-0/0/%d.%d", r.Intn(48), i) },
		}
		for i := 0; len(out) < c.N; i++ {
			s := forms[i%len(forms)](i)
			if len(s) > 32 {
				s = s[len(s)-32:]
			}
			add([]byte(s))
		}
	case "random<=64":
		for len(out) < c.N {
			b := make([]byte, 3+r.Intn(62))
			r.Read(b)
			add(b)
		}
	case "len>32,prefix":
		for len(out) < c.N {
			p := make([]byte, 32)
			r.Read(p)
			for j := 0; j < 2; j++ {
				t := make([]byte, 1+r.Intn(32))
				r.Read(t)
				add(append(append([]byte{}, p...), t...))
			}
		}
	case "fnv-pair":
		add([]byte("8yn0iYCKYHlIj4-BwPqk"))
		add([]byte("GReLUrM4wMqfg9yzV3KQ"))
	}
	return out
}

type CorpusSystem struct {
	Fn string // "MakeCircuitIDKey" | "HashCircuitID"
	C  corpus
}

func (s *CorpusSystem) impl() string { return "ebpf." + s.Fn + "[" + s.C.Class + "]" }
func (s *CorpusSystem) Name() string { return s.impl() + "#corpus" }
func (s *CorpusSystem) Config() map[string]any {
	return map[string]any{"impl": s.impl(), "variant": "corpus", "fn": s.Fn, "class": s.C.Class, "seed": s.C.Seed, "n": s.C.N,
		"nsubs": 0, "nkeys": 0, "unique": true, "ranged": false, "inrange": []int{}, "reusable": []int{}, "keynames": []string{}}
}
func (s *CorpusSystem) Events() []core.Event { return nil }
func (s *CorpusSystem) New() core.Instance   { return &corpusInst{s: s, ids: s.C.gen()} }

// Batches returns the event list: the corpus cut into batches of `size` circuit-ids.
func (s *CorpusSystem) Batches(size int) []core.Event {
	n := len(s.C.gen())
	var evs []core.Event
	for from := 1; from <= n; from += size {
		to := from + size - 1
		if to > n {
			to = n
		}
		subs := make([]int, 0, to-from+1)
		for i := from; i <= to; i++ {
			subs = append(subs, i)
		}
		evs = append(evs, core.Event{"op": "keys", "subs": subs})
	}
	return evs
}

type corpusInst struct {
	s   *CorpusSystem
	ids [][]byte
}

func (c *corpusInst) Apply(ev core.Event) map[string]any {
	subs := toInts(ev["subs"])
	keys := make([]string, len(subs))
	for i, n := range subs {
		id := c.ids[n-1]
		switch c.s.Fn {
		case "MakeCircuitIDKey":
			// the key has a fixed length (32 bytes), so dropping its trailing zero bytes is a
			// lossless rendering (it only keeps the bundle small)
			k := ebpf.MakeCircuitIDKey(id)
			end := len(k)
			for end > 0 && k[end-1] == 0 {
				end--
			}
			keys[i] = "k" + hex.EncodeToString(k[:end])
		case "HashCircuitID":
			keys[i] = fmt.Sprintf("%016x", ebpf.HashCircuitID(id))
		}
	}
	return map[string]any{"keys": keys}
}
func (c *corpusInst) Observe() map[string]any {
	return map[string]any{"fwd": []int{}, "rev": []int{}, "probe": -1}
}
func (c *corpusInst) Fingerprint() string   { return "" }
func (c *corpusInst) Probe() map[string]any { return nil }
func (c *corpusInst) Close()                {}

// Describe returns circuit-id number n of the corpus in hex (used for the replay note).
func (s *CorpusSystem) Describe(n int) string {
	ids := s.C.gen()
	if n < 1 || n > len(ids) {
		return "?"
	}
	return hex.EncodeToString(ids[n-1])
}
