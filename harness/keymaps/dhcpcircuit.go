//go:build verif

package keymaps

import (
	"bytes"
	"encoding/hex"
	"fmt"
	"net"
	"sort"
	"strings"
	"time"

	"github.com/codelaboratoryltd/bng/pkg/dhcp"
	"github.com/codelaboratoryltd/bng/pkg/ebpf"
	"github.com/insomniacslk/dhcp/dhcpv4"
	"go.uber.org/zap"

	"verifharness/core"
)

// ---------------------------------------------------------------------------------------
// dhcp.Server relay circuit-id index (pkg/dhcp/server.go): the lease table `leases`
// (MAC -> *Lease) and its secondary index `leasesByCircuitID` (hex(circuit-id) -> *Lease),
// maintained by handleRequest / handleRelease / handleDecline / expireLeaseLocked /
// cleanupExpiredLeases.
//
//	key         relay circuit-id (option 82 sub-option 1), numbered 1..NCircuits
//	subscriber  client (MAC), numbered 1..NClients
//	forward     client -> the circuit-id recorded in its entry of the lease table
//	reverse     circuit-id -> the client whose lease the index names; -1 when the lease the
//	            index names is not (any more) the one the lease table holds for that client
//
// The real server is driven with real relayed DHCPv4 messages (giaddr, option 82 with a
// circuit-id AND a remote-id) through VerifHandle inside a testing/synctest bubble; both maps
// are read by reflection. The relay of circuit k inserts the remote-id "cid-(k mod N + 1)":
// the remote-id of every lease is the circuit-id of another circuit, so an index entry removed
// under the wrong option-82 field is the entry of another subscriber.
//
// Events (how / contract op):
//
//	DISCOVER+REQUEST m via k   bind m -> k. When the index names another client's lease for k
//	                           before the exchange, the lease moves (current code: the new
//	                           device takes over the address, or the run-out lease of the old
//	                           one ends): contract op "load" over {old holder, m} - their
//	                           mappings are rewritten, the result must be a consistent map
//	RENEW m                    REQUEST unicast by the client itself (no relay fields, ciaddr):
//	                           op noop - no mapping may change, the index must follow the
//	                           replaced lease object
//	RELEASE m, DECLINE m       op release (DECLINE names the client's own address; without a
//	                           lease there is nothing to decline: skipped)
//	advance                    half a lease time passes (noop)
//	cleanup                    one tick of the lease cleanup (op expire)
//
// Home variants: every client has one circuit (clients 1 and 2 sit behind circuit 1: a replaced
// CPE). Roam variant: every client on every circuit (a CPE that is moved to another port while
// its lease runs).

const (
	dcLease = time.Hour
	dcBind  = "DISCOVER+REQUEST"
)

type dcGeo struct {
	Kind      string // home | roam (part of the implementation name: findings are matched per kind)
	Variant   string
	NClients  int
	NCircuits int
	Binds     [][2]int // (client, circuit) pairs of the alphabet
	NoTime    bool     // no advance / cleanup events (every lease keeps its full time)
}

func dcCid(k int) []byte { return []byte(fmt.Sprintf("cid-%d", k)) }

func dcHome(variant string, homes []int, ncirc int) dcGeo {
	g := dcGeo{Kind: "home", Variant: variant, NClients: len(homes), NCircuits: ncirc}
	for i, k := range homes {
		g.Binds = append(g.Binds, [2]int{i + 1, k})
	}
	return g
}

func dcRoam(variant string, nclients, ncirc int) dcGeo {
	g := dcGeo{Kind: "roam", Variant: variant, NClients: nclients, NCircuits: ncirc, NoTime: true}
	for m := 1; m <= nclients; m++ {
		for k := 1; k <= ncirc; k++ {
			g.Binds = append(g.Binds, [2]int{m, k})
		}
	}
	return g
}

type dcConn struct{ out [][]byte }

func (c *dcConn) ReadFrom(p []byte) (int, net.Addr, error) { return 0, nil, fmt.Errorf("closed") }
func (c *dcConn) WriteTo(p []byte, a net.Addr) (int, error) {
	c.out = append(c.out, append([]byte{}, p...))
	return len(p), nil
}
func (c *dcConn) Close() error                       { return nil }
func (c *dcConn) LocalAddr() net.Addr                { return &net.UDPAddr{IP: net.IPv4zero, Port: 67} }
func (c *dcConn) SetDeadline(t time.Time) error      { return nil }
func (c *dcConn) SetReadDeadline(t time.Time) error  { return nil }
func (c *dcConn) SetWriteDeadline(t time.Time) error { return nil }

func dhcpCircuitAdapter(g dcGeo) Adapter {
	a := Adapter{Impl: "dhcp.Server-circuit[" + g.Kind + "]", Variant: g.Variant, NSubs: g.NClients, NKeys: g.NCircuits, Unique: true, Bubble: true}
	for k := 1; k <= g.NCircuits; k++ {
		a.KeyNames = append(a.KeyNames, string(dcCid(k)))
	}
	for _, b := range g.Binds {
		a.Events = append(a.Events, core.Event{"op": "bind", "how": dcBind, "sub": b[0], "arg": b[1]})
	}
	for m := 1; m <= g.NClients; m++ {
		a.Events = append(a.Events,
			core.Event{"op": "noop", "how": "RENEW", "sub": m},
			core.Event{"op": "release", "how": "RELEASE", "sub": m},
			core.Event{"op": "release", "how": "DECLINE", "sub": m})
	}
	if !g.NoTime {
		a.Events = append(a.Events, core.Event{"op": "noop", "how": "advance"}, core.Event{"op": "expire", "how": "cleanup"})
	}
	a.mk = func() *km { return newDC(g) }
	return a
}

type dcInst struct {
	g    dcGeo
	srv  *dhcp.Server
	pool *dhcp.Pool
	conn *dcConn
	xid  uint32
}

func newDC(g dcGeo) *km {
	logger := zap.NewNop()
	loader, err := ebpf.NewLoader("lo", logger)
	if err != nil {
		panic(err)
	}
	pm := dhcp.NewPoolManager(loader, logger)
	p, err := dhcp.NewPool(dhcp.PoolConfig{ID: 1, Name: "p", Network: "10.20.0.0/23", Gateway: "10.20.0.1", DNSServers: []string{"9.9.9.9"}, LeaseTime: dcLease})
	if err != nil {
		panic(err)
	}
	if err := pm.AddPool(p); err != nil {
		panic(err)
	}
	srv, err := dhcp.NewServer(dhcp.ServerConfig{Interface: "lo", ServerIP: net.IPv4(10, 255, 0, 1)}, loader, pm, logger)
	if err != nil {
		panic(err)
	}
	in := &dcInst{g: g, srv: srv, pool: p, conn: &dcConn{}}
	return &km{apply: in.apply, fwd: in.fwd, rev: in.rev, fp: in.fingerprint}
}

// the two maps of the server, read by reflection (single-threaded here: no handler is running)
func (in *dcInst) leases() map[string]*dhcp.Lease {
	return core.Field(in.srv, "leases").Interface().(map[string]*dhcp.Lease)
}
func (in *dcInst) index() map[string]*dhcp.Lease {
	return core.Field(in.srv, "leasesByCircuitID").Interface().(map[string]*dhcp.Lease)
}

func (in *dcInst) clientOf(mac net.HardwareAddr) int {
	for m := 1; m <= in.g.NClients; m++ {
		if bytes.Equal(mac, macOf(m)) {
			return m
		}
	}
	return -1
}

func (in *dcInst) circuitOf(cid []byte) int {
	if len(cid) == 0 {
		return 0
	}
	for k := 1; k <= in.g.NCircuits; k++ {
		if bytes.Equal(cid, dcCid(k)) {
			return k
		}
	}
	return -2
}

// msg builds one client message; via > 0: relayed through the agent of circuit `via`.
func (in *dcInst) msg(m int, mt dhcpv4.MessageType, via int, reqIP, ciaddr net.IP) *dhcpv4.DHCPv4 {
	in.xid++
	mods := []dhcpv4.Modifier{
		dhcpv4.WithMessageType(mt),
		dhcpv4.WithHwAddr(macOf(m)),
		dhcpv4.WithTransactionID(dhcpv4.TransactionID{byte(in.xid >> 24), byte(in.xid >> 16), byte(in.xid >> 8), byte(in.xid)}),
	}
	if reqIP != nil {
		mods = append(mods, dhcpv4.WithOption(dhcpv4.OptRequestedIPAddress(reqIP)))
	}
	if ciaddr != nil {
		mods = append(mods, dhcpv4.WithClientIP(ciaddr))
	}
	if via > 0 {
		mods = append(mods, dhcpv4.WithGatewayIP(net.IPv4(10, 9, 9, byte(via))),
			dhcpv4.WithOption(dhcpv4.OptRelayAgentInfo(
				dhcpv4.OptGeneric(dhcpv4.GenericOptionCode(1), dcCid(via)),
				dhcpv4.OptGeneric(dhcpv4.GenericOptionCode(2), dcCid(via%in.g.NCircuits+1)))))
	}
	d, err := dhcpv4.New(mods...)
	if err != nil {
		panic(err)
	}
	return d
}

// send hands one message to the server's packet handler; returns the reply type and address.
func (in *dcInst) send(d *dhcpv4.DHCPv4) (string, net.IP) {
	in.conn.out = nil
	in.srv.VerifHandle(in.conn, &net.UDPAddr{IP: net.IPv4(10, 0, 0, 200), Port: 68}, d)
	if len(in.conn.out) == 0 {
		return "none", nil
	}
	r, err := dhcpv4.FromBytes(in.conn.out[len(in.conn.out)-1])
	if err != nil {
		return "garbled", nil
	}
	if r.TransactionID != d.TransactionID || !bytes.Equal(r.ClientHWAddr, d.ClientHWAddr) {
		return "misaddressed", nil
	}
	return strings.ToUpper(r.MessageType().String()), r.YourIPAddr
}

func (in *dcInst) leaseIP(m int) net.IP {
	if l := in.leases()[macOf(m).String()]; l != nil {
		return l.IP
	}
	return nil
}

func (in *dcInst) apply(ev core.Event) map[string]any {
	m := toInt(ev["sub"])
	switch ev["how"].(string) {
	case dcBind:
		k := toInt(ev["arg"])
		res := map[string]any{}
		// moved: the client holds a lease recorded on another circuit (label only, see sig_extra in lib/fam_keymaps.py)
		if l := in.leases()[macOf(m).String()]; l != nil && in.circuitOf(l.CircuitID) != k {
			res["moved"] = true
		}
		// whose lease does the index name for this circuit before the exchange?
		if l := in.index()[hex.EncodeToString(dcCid(k))]; l != nil {
			if o := in.clientOf(l.MAC); o > 0 && o != m {
				res["op"], res["subs"] = "load", []int{o, m}
			}
		}
		rt, ip := in.send(in.msg(m, dhcpv4.MessageTypeDiscover, k, nil, nil))
		if rt == "OFFER" {
			rt, _ = in.send(in.msg(m, dhcpv4.MessageTypeRequest, k, ip, nil))
		}
		res["reply"], res["ok"], res["key"] = rt, rt == "ACK", 0
		if rt == "ACK" {
			res["key"] = k
		}
		return res
	case "RENEW":
		ip := in.leaseIP(m)
		if ip == nil {
			return map[string]any{"reply": "skipped"}
		}
		rt, _ := in.send(in.msg(m, dhcpv4.MessageTypeRequest, 0, nil, ip))
		return map[string]any{"reply": rt}
	case "RELEASE":
		in.send(in.msg(m, dhcpv4.MessageTypeRelease, 0, nil, in.leaseIP(m)))
		return map[string]any{}
	case "DECLINE":
		ip := in.leaseIP(m)
		if ip == nil {
			return map[string]any{"op": "noop", "reply": "skipped"}
		}
		in.send(in.msg(m, dhcpv4.MessageTypeDecline, 0, ip, nil))
		return map[string]any{}
	case "advance":
		time.Sleep(dcLease/2 + time.Second)
		return map[string]any{}
	case "cleanup":
		in.srv.VerifCleanupExpired()
		return map[string]any{}
	}
	panic("unknown op")
}

func (in *dcInst) fwd(m int) int {
	l := in.leases()[macOf(m).String()]
	if l == nil {
		return 0
	}
	return in.circuitOf(l.CircuitID)
}

func (in *dcInst) rev(k int) int {
	l, ok := in.index()[hex.EncodeToString(dcCid(k))]
	if !ok {
		return 0
	}
	if l == nil {
		return -1
	}
	m := in.clientOf(l.MAC)
	if m < 0 || in.leases()[l.MAC.String()] != l {
		return -1 // the index names a lease that is not in the lease table
	}
	return m
}

// fingerprint: per client its lease (circuit, remote-id, time left), the index entries (whose
// lease, whether it is the lease-table object, its circuit and time left), the pool's
// allocation per client; addresses are renamed in order of appearance (which address a client
// got does not matter to the maps, which addresses coincide does).
func (in *dcInst) fingerprint() string {
	now := time.Now()
	names := map[string]int{}
	ipn := func(ip net.IP) int {
		if ip == nil {
			return 0
		}
		s := ip.String()
		if _, ok := names[s]; !ok {
			names[s] = len(names) + 1
		}
		return names[s]
	}
	left := func(l *dhcp.Lease) string {
		d := l.ExpiresAt.Sub(now)
		if d < 0 {
			return "x"
		}
		return fmt.Sprint(int64(d / time.Second))
	}
	var sb strings.Builder
	ls := in.leases()
	for m := 1; m <= in.g.NClients; m++ {
		l := ls[macOf(m).String()]
		if l == nil {
			fmt.Fprintf(&sb, "%d:-;", m)
			continue
		}
		fmt.Fprintf(&sb, "%d:c%d/r%d/%s/ip%d/m%d;", m, in.circuitOf(l.CircuitID), in.circuitOf(l.RemoteID), left(l), ipn(l.IP), in.clientOf(l.MAC))
	}
	for mac := range ls {
		if hw, err := net.ParseMAC(mac); err != nil || in.clientOf(hw) < 0 {
			fmt.Fprintf(&sb, "?%s;", mac)
		}
	}
	idx := in.index()
	keys := make([]string, 0, len(idx))
	for k := range idx {
		keys = append(keys, k)
	}
	sort.Strings(keys)
	for _, k := range keys {
		l := idx[k]
		if l == nil {
			fmt.Fprintf(&sb, "I%s>nil;", k)
			continue
		}
		fmt.Fprintf(&sb, "I%s>m%d/%t/c%d/r%d/%s/ip%d;", k, in.clientOf(l.MAC), ls[l.MAC.String()] == l, in.circuitOf(l.CircuitID), in.circuitOf(l.RemoteID), left(l), ipn(l.IP))
	}
	ps := in.pool.VerifSnapshot()
	for m := 1; m <= in.g.NClients; m++ {
		fmt.Fprintf(&sb, "A%d=%d;", m, ipn(ps.Allocated[macOf(m).String()]))
	}
	return sb.String()
}

func init() {
	extraCatalogue = append(extraCatalogue, func() []Adapter {
		return []Adapter{
			dhcpCircuitAdapter(dcHome("3clients.2circuits", []int{1, 1, 2}, 2)),
			dhcpCircuitAdapter(dcRoam("2clients.2circuits", 2, 2)),
			dhcpCircuitAdapter(dcHome("4clients.3circuits", []int{1, 1, 2, 3}, 3)),
		}
	})
	extraLargeCatalogue = append(extraLargeCatalogue, func(int) []Adapter {
		return []Adapter{dhcpCircuitAdapter(dcHome("6clients.3circuits", []int{1, 1, 2, 2, 3, 3}, 3))}
	})
}
