package keymaps

import (
	"context"
	"fmt"
	"reflect"

	"github.com/codelaboratoryltd/bng/pkg/nexus"
	"github.com/codelaboratoryltd/bng/pkg/qinq"

	"verifharness/core"
)

// ---------------------------------------------------------------------------------------
// nexus.VLANAllocator: keys are (S-TAG, C-TAG) pairs.
//
// Key numbering: the pairs of the configured ranges first (row-major), then the pairs whose
// outer tag is one above the S range (reachable only through AllocateWithSTag with a
// caller-supplied tag: inrange = 2).

type vlanGeo struct {
	S0, S1, C0, C1 uint16
}

func (g vlanGeo) nc() int    { return int(g.C1-g.C0) + 1 }
func (g vlanGeo) ns() int    { return int(g.S1-g.S0) + 1 }
func (g vlanGeo) nkeys() int { return (g.ns() + 1) * g.nc() }
func (g vlanGeo) key(s, c uint16) int {
	if c < g.C0 || c > g.C1 || s < g.S0 || s > g.S1+1 {
		return -2
	}
	return int(s-g.S0)*g.nc() + int(c-g.C0) + 1
}
func (g vlanGeo) pair(k int) (uint16, uint16) {
	k--
	return g.S0 + uint16(k/g.nc()), g.C0 + uint16(k%g.nc())
}

// loadVariant is one stored record list handed to LoadFromStore.
type loadRec struct{ Sub, Key int }

func vlanAdapter(variant string, g vlanGeo, nsubs int, loads [][]loadRec) Adapter {
	a := Adapter{Impl: "nexus.VLANAllocator", Variant: variant, NSubs: nsubs, NKeys: g.nkeys(), Unique: true, Ranged: true}
	for k := 1; k <= g.nkeys(); k++ {
		s, c := g.pair(k)
		a.KeyNames = append(a.KeyNames, fmt.Sprintf("s%d.c%d", s, c))
		if s <= g.S1 {
			a.InRange = append(a.InRange, 1)
			a.Reusable = append(a.Reusable, k)
		} else {
			a.InRange = append(a.InRange, 2)
		}
	}
	for s := 1; s <= nsubs; s++ {
		a.Events = append(a.Events, core.Event{"op": "bind", "how": "Allocate", "sub": s, "arg": 0})
		for st := g.S0; st <= g.S1+1; st++ {
			a.Events = append(a.Events, core.Event{"op": "bind", "how": "AllocateWithSTag", "sub": s, "arg": int(st)})
		}
		a.Events = append(a.Events, core.Event{"op": "release", "how": "Release", "sub": s})
	}
	for i, l := range loads {
		var subs []int
		seen := map[int]bool{}
		for _, r := range l {
			if !seen[r.Sub] {
				subs = append(subs, r.Sub)
				seen[r.Sub] = true
			}
		}
		a.Events = append(a.Events, core.Event{"op": "load", "how": "LoadFromStore", "arg": i, "subs": subs})
	}
	a.mk = func() *km {
		v := nexus.NewVLANAllocator(nexus.VLANAllocatorConfig{
			STagRange: nexus.VLANRange{Start: g.S0, End: g.S1}, CTagRange: nexus.VLANRange{Start: g.C0, End: g.C1}})
		subOf := func(id string) int {
			for s := 1; s <= nsubs; s++ {
				if subName(s) == id {
					return s
				}
			}
			return -1
		}
		m := &km{}
		m.apply = func(ev core.Event) map[string]any {
			sub := toInt(ev["sub"])
			switch ev["how"].(string) {
			case "Allocate":
				al, err := v.Allocate(subName(sub))
				if err != nil {
					return map[string]any{"ok": false, "key": 0, "sup": false, "err": errStr(err)}
				}
				return map[string]any{"ok": true, "key": g.key(al.STag, al.CTag), "sup": false}
			case "AllocateWithSTag":
				al, err := v.AllocateWithSTag(subName(sub), uint16(toInt(ev["arg"])))
				if err != nil {
					return map[string]any{"ok": false, "key": 0, "sup": true, "err": errStr(err)}
				}
				return map[string]any{"ok": true, "key": g.key(al.STag, al.CTag), "sup": true}
			case "Release":
				v.Release(subName(sub))
				return map[string]any{"ok": true}
			case "LoadFromStore":
				var ntes []*nexus.NTE
				for _, r := range loads[toInt(ev["arg"])] {
					s, c := g.pair(r.Key)
					ntes = append(ntes, &nexus.NTE{ID: subName(r.Sub), STag: s, CTag: c})
				}
				err := v.LoadFromStore(context.Background(), ntes)
				return map[string]any{"ok": err == nil, "err": errStr(err)}
			}
			panic("unknown op")
		}
		m.fwd = func(sub int) int {
			al, ok := v.Get(subName(sub))
			if !ok || al == nil {
				return 0
			}
			return g.key(al.STag, al.CTag)
		}
		// the reverse direction has no public getter: the per-outer-tag usage map is read by reflection
		m.rev = func(key int) int {
			s, c := g.pair(key)
			usage := core.Field(v, "sTagUsage")
			inner := usage.MapIndex(reflect.ValueOf(s))
			if !inner.IsValid() {
				return 0
			}
			id := inner.MapIndex(reflect.ValueOf(c))
			if !id.IsValid() {
				return 0
			}
			return subOf(id.String())
		}
		m.probe = func() int {
			n := 0
			seen := map[int]bool{}
			for i := 0; i < g.nkeys()+2; i++ {
				al, err := v.Allocate(fmt.Sprintf("fresh-%d", i))
				if err != nil {
					break
				}
				k := g.key(al.STag, al.CTag)
				if seen[k] {
					return -2 // two fresh subscribers were given one pair: an impossible count
				}
				seen[k] = true
				n++
			}
			return n
		}
		m.fp = func() string { return core.Fingerprint(v, nil) }
		return m
	}
	return a
}

var smallVLAN = vlanGeo{S0: 10, S1: 11, C0: 100, C1: 102}

func smallVLANLoads() [][]loadRec {
	return [][]loadRec{
		{{1, 1}, {2, 2}, {3, 4}}, // a consistent store
		{{1, 1}, {2, 1}},         // two NTEs recorded with one pair
		{{1, 2}},                 // NTE 1 recorded with a pair (may differ from what it holds, may be held by another)
		{{3, 5}, {3, 6}},         // one NTE recorded twice with different pairs
		{{2, 4}},                 //
	}
}

// ---------------------------------------------------------------------------------------
// qinq.Mapper: explicit registration of (S-TAG, C-TAG) pairs.

type qPair struct {
	S, C    uint16
	InRange int
}

func qinqAdapter(variant string, pairs []qPair, reusable []int, nsubs int) Adapter {
	a := Adapter{Impl: "qinq.Mapper", Variant: variant, NSubs: nsubs, NKeys: len(pairs), Unique: true, Ranged: true, Reusable: reusable}
	for _, p := range pairs {
		a.KeyNames = append(a.KeyNames, qinq.VLANPair{STag: p.S, CTag: p.C}.String())
		a.InRange = append(a.InRange, p.InRange)
	}
	for s := 1; s <= nsubs; s++ {
		for k := range pairs {
			a.Events = append(a.Events, core.Event{"op": "bind", "how": "Register", "sub": s, "arg": k + 1})
		}
		a.Events = append(a.Events, core.Event{"op": "release", "how": "UnregisterSubscriber", "sub": s})
	}
	for k := range pairs {
		a.Events = append(a.Events, core.Event{"op": "unbind", "how": "Unregister", "key": k + 1})
	}
	keyOf := func(v qinq.VLANPair) int {
		for i, p := range pairs {
			if p.S == v.STag && p.C == v.CTag {
				return i + 1
			}
		}
		return -2
	}
	a.mk = func() *km {
		mp := qinq.NewMapper(qinq.Config{Enabled: true, STagRanges: []qinq.VLANRange{{Start: 10, End: 11}},
			CTagRange: qinq.VLANRange{Start: 100, End: 101}, LookupPriority: "vlan_first"})
		vp := func(k int) qinq.VLANPair { return qinq.VLANPair{STag: pairs[k-1].S, CTag: pairs[k-1].C} }
		subOf := func(id string) int {
			for s := 1; s <= nsubs; s++ {
				if subName(s) == id {
					return s
				}
			}
			return -1
		}
		m := &km{}
		m.apply = func(ev core.Event) map[string]any {
			switch ev["how"].(string) {
			case "Register":
				k := toInt(ev["arg"])
				err := mp.Register(vp(k), subName(toInt(ev["sub"])))
				return map[string]any{"ok": err == nil, "key": k, "sup": true, "err": errStr(err)}
			case "UnregisterSubscriber":
				mp.UnregisterSubscriber(subName(toInt(ev["sub"])))
				return map[string]any{"ok": true}
			case "Unregister":
				mp.Unregister(vp(toInt(ev["key"])))
				return map[string]any{"ok": true}
			}
			panic("unknown op")
		}
		m.fwd = func(sub int) int {
			v, ok := mp.GetVLAN(subName(sub))
			if !ok {
				return 0
			}
			return keyOf(v)
		}
		m.rev = func(key int) int {
			id, ok := mp.GetSubscriber(vp(key))
			if !ok {
				return 0
			}
			return subOf(id)
		}
		m.probe = func() int {
			n := 0
			for _, k := range reusable {
				if _, used := mp.GetSubscriber(vp(k)); used {
					continue
				}
				if mp.Register(vp(k), fmt.Sprintf("fresh-%d", k)) == nil {
					n++
				}
			}
			return n
		}
		m.fp = func() string { return core.Fingerprint(mp, nil) }
		return m
	}
	return a
}

func smallQinQ() Adapter {
	pairs := []qPair{
		{10, 100, 1}, {10, 101, 1}, {11, 100, 1}, {11, 101, 1},
		{0, 100, 2},  // single-tagged: no outer tag
		{99, 100, 2}, // outer tag outside the allowed ranges, inner inside
		{10, 999, 0}, // inner tag outside the range
		{0, 999, 0},  // single-tagged AND the inner tag outside the range
	}
	return qinqAdapter("s10-11.c100-101", pairs, []int{1, 2, 3, 4, 5}, 3)
}
