package keymaps

import (
	"fmt"
	"net"
	"sort"
	"strings"
	"time"

	"github.com/codelaboratoryltd/bng/pkg/pppoe"

	"verifharness/core"
)

// ---------------------------------------------------------------------------------------
// pppoe.SessionManager. Subscribers are session slots: slot i is "the i-th PPPoE client",
// created with a fixed MAC (slots may share a MAC: two sessions from one CPE). Two key maps
// are read from the same object:
//
//	index "id":  key = PPPoE session id  (identifier: unique, inside 1..65535)
//	index "mac": key = client MAC        (attribute index GetSessionByMAC)
//
// nextID is pre-set by reflection so that the explored histories cross the 16-bit wrap.

type smCfg struct {
	Jump  bool     // the alphabet has an event that moves the id counter to 65535 (65534 sessions came and went)
	Start uint16   // initial nextID
	IDs   []uint16 // the numbered id universe (key i+1 = IDs[i]); any other id is -2
	MACs  []int    // slot -> MAC number (1-based)
	NMACs int
}

func macOf(n int) net.HardwareAddr { return net.HardwareAddr{0x02, 0, 0, 0, 0, byte(n)} }

func sessionManagerAdapter(index, variant string, c smCfg) Adapter {
	nsubs := len(c.MACs)
	a := Adapter{Impl: "pppoe.SessionManager-" + index, Variant: variant, NSubs: nsubs, Unbounded: true}
	if index == "id" {
		a.Unique, a.Ranged, a.NKeys = true, true, len(c.IDs)
		for _, id := range c.IDs {
			a.KeyNames = append(a.KeyNames, fmt.Sprint(id))
			if id == 0 {
				a.InRange = append(a.InRange, 0) // "session id 0 must never be handed out"
			} else {
				a.InRange = append(a.InRange, 1)
			}
		}
	} else {
		a.Unique, a.Ranged, a.NKeys = false, false, c.NMACs
		for i := 1; i <= c.NMACs; i++ {
			a.KeyNames = append(a.KeyNames, macOf(i).String())
		}
	}
	for s := 1; s <= nsubs; s++ {
		a.Events = append(a.Events,
			core.Event{"op": "bind", "how": "CreateSession", "sub": s},
			core.Event{"op": "release", "how": "RemoveSession", "sub": s},
			core.Event{"op": "expire", "how": "CleanupExpired", "arg": s})
	}
	if c.Jump {
		a.Events = append(a.Events, core.Event{"op": "noop", "how": "JumpCounter", "sub": 0})
	}
	a.mk = func() *km {
		sm := pppoe.NewSessionManager()
		core.Field(sm, "nextID").SetUint(uint64(c.Start))
		slots := make([]*pppoe.Session, nsubs+1) // the session object last handed to slot i
		live := func(s *pppoe.Session) bool {
			if s == nil {
				return false
			}
			for _, x := range sm.GetAllSessions() {
				if x == s {
					return true
				}
			}
			return false
		}
		slotOf := func(s *pppoe.Session) int {
			if s == nil {
				return 0
			}
			for i := 1; i <= nsubs; i++ {
				if slots[i] == s {
					return i
				}
			}
			return -1
		}
		idKey := func(id uint16) int {
			for i, x := range c.IDs {
				if x == id {
					return i + 1
				}
			}
			return -2
		}
		m := &km{}
		m.apply = func(ev core.Event) map[string]any {
			switch ev["how"].(string) {
			case "CreateSession":
				s := toInt(ev["sub"])
				if live(slots[s]) {
					return map[string]any{"op": "noop", "ok": true} // this client already has its session
				}
				sess, err := sm.CreateSession(macOf(c.MACs[s-1]), macOf(200))
				if err != nil {
					return map[string]any{"ok": false, "err": errStr(err)}
				}
				slots[s] = sess
				if index == "id" {
					return map[string]any{"ok": true, "key": idKey(sess.ID), "id": int(sess.ID)}
				}
				return map[string]any{"ok": true, "key": c.MACs[s-1], "id": int(sess.ID)}
			case "RemoveSession":
				s := toInt(ev["sub"])
				if !live(slots[s]) {
					return map[string]any{"op": "noop", "ok": true} // nothing of this client to remove
				}
				sm.RemoveSession(slots[s].ID)
				return map[string]any{"ok": true, "id": int(slots[s].ID)}
			case "JumpCounter":
				// sessions that came and went have moved the counter to the end of the id space; the live ones stay
				core.Field(sm, "nextID").SetUint(65535)
				return map[string]any{"op": "noop", "ok": true}
			case "CleanupExpired":
				// the session of slot `arg` has been idle for two hours; cleanup with a one-hour timeout
				s := toInt(ev["arg"])
				if live(slots[s]) {
					slots[s].LastActivity = time.Now().Add(-2 * time.Hour)
				}
				n := sm.CleanupExpired(time.Hour)
				return map[string]any{"ok": true, "removed": n}
			}
			panic("unknown op")
		}
		m.fwd = func(sub int) int {
			if !live(slots[sub]) {
				return 0
			}
			if index == "id" {
				return idKey(slots[sub].ID)
			}
			return c.MACs[sub-1]
		}
		m.rev = func(key int) int {
			var s *pppoe.Session
			if index == "id" {
				s = sm.GetSession(c.IDs[key-1])
			} else {
				s = sm.GetSessionByMAC(macOf(key))
			}
			return slotOf(s)
		}
		m.fp = func() string {
			var sb strings.Builder
			fmt.Fprintf(&sb, "next=%d;", core.Field(sm, "nextID").Uint())
			for i := 1; i <= nsubs; i++ {
				if live(slots[i]) {
					fmt.Fprintf(&sb, "s%d=%d;", i, slots[i].ID)
				} else {
					fmt.Fprintf(&sb, "s%d=-;", i)
				}
			}
			idx := core.Field(sm, "macToSession")
			var ents []string
			it := idx.MapRange()
			for it.Next() {
				ents = append(ents, fmt.Sprintf("%s>%d", it.Key().String(), it.Value().Uint()))
			}
			sort.Strings(ents)
			sb.WriteString(strings.Join(ents, ","))
			return sb.String()
		}
		return m
	}
	return a
}

// TableDepthUnbounded bounds the depth of tables of instances whose state space does not close.
const TableDepthUnbounded = 24

func smallSessionManagers() []Adapter {
	macs := []int{1, 1, 2} // slots 1 and 2 are two sessions of one MAC
	// The id counter grows with every creation, so the tables are prefixes bounded in depth
	// (TableDepthUnbounded events): the numbered id universe holds more ids than any such path creates.
	var lowIDs, wrapIDs []uint16
	for i := 1; i <= TableDepthUnbounded+8; i++ {
		lowIDs = append(lowIDs, uint16(i))
	}
	lowIDs = append(lowIDs, 0)
	wrapIDs = append(wrapIDs, 65534, 65535, 0)
	for i := 1; i <= TableDepthUnbounded+6; i++ {
		wrapIDs = append(wrapIDs, uint16(i))
	}
	low := smCfg{Start: 1, IDs: lowIDs, MACs: macs, NMACs: 2}
	wrap := smCfg{Start: 65534, IDs: wrapIDs, MACs: macs, NMACs: 2}
	jump := smCfg{Start: 1, Jump: true, IDs: wrapIDs, MACs: macs, NMACs: 2}
	return []Adapter{
		sessionManagerAdapter("id", "next1", low),
		sessionManagerAdapter("id", "next65534", wrap),
		sessionManagerAdapter("id", "next1jump", jump), // sessions 1, 2 ... are live when the counter wraps
		sessionManagerAdapter("mac", "next1", low),
	}
}
