// Package keymaps binds every "subscriber-identifying key <-> subscriber" map of the gateway
// to the KeyMaps specification (property C20). The harness only executes operations on the
// real objects, reads their lookups, and numbers keys / subscribers; every judgement is made
// by TLC.
package keymaps

import (
	"fmt"
	"regexp"
	"testing"
	"testing/synctest"

	"verifharness/core"
)

// T is set by the test entry; adapters that live in virtual time (Bubble) need it for synctest.
var T *testing.T

// Adapters that need the verif hooks of /repo live in files built with -tags verif and
// register themselves here (the rest of the package builds without the tag).
var (
	extraCatalogue      []func() []Adapter
	extraLargeCatalogue []func(chainLen int) []Adapter
)

// km is one live key map behind a uniform face.
//
// Generic event fields (what the specification reads):
//
//	op   bind | release | unbind | load | expire | noop
//	sub  subscriber number (bind, release)
//	key  key number (result of bind; argument of unbind)
//	ok   the implementation accepted the request
//	sup  the outer tag of the key was supplied by the caller (bind)
//	subs subscribers named in a bulk load
//
// "how" is the implementation-level name of the operation (for humans and for the matching
// of known findings); "arg" its argument.
type km struct {
	apply func(ev core.Event) map[string]any
	fwd   func(sub int) int // key number; 0 none; -2 a value outside the numbered universe
	rev   func(key int) int // subscriber number; 0 none; -1 an entry that leads to no live object
	probe func() int        // destructive; -1 = no probe
	fp    func() string
	close func()
}

// Adapter describes one instance (implementation x configuration).
type Adapter struct {
	Impl     string
	Variant  string
	NSubs    int
	NKeys    int
	Unique   bool
	Ranged   bool
	InRange  []int // per key: 0 outside, 1 inside, 2 inside except for a caller-supplied outer tag
	Reusable []int // keys the probe may obtain
	KeyNames []string
	Events   []core.Event
	// Unbounded: the state space does not close (a counter grows): explored as a bounded prefix
	Unbounded bool
	// Bubble: every replay runs inside a testing/synctest bubble (virtual time)
	Bubble bool
	mk     func() *km
}

func (a Adapter) Name() string { return a.Impl + "/" + a.Variant }

// KMSystem adapts an Adapter to core.System.
type KMSystem struct{ A Adapter }

func (s *KMSystem) Name() string { return s.A.Name() }
func (s *KMSystem) Config() map[string]any {
	inr := s.A.InRange
	if inr == nil {
		inr = make([]int, s.A.NKeys)
		for i := range inr {
			inr[i] = 1
		}
	}
	reu := s.A.Reusable
	if reu == nil {
		reu = []int{}
	}
	kn := s.A.KeyNames
	if kn == nil {
		kn = []string{}
	}
	return map[string]any{"impl": s.A.Impl, "variant": s.A.Variant, "nsubs": s.A.NSubs, "nkeys": s.A.NKeys,
		"unique": s.A.Unique, "ranged": s.A.Ranged, "inrange": inr, "reusable": reu, "keynames": kn}
}
func (s *KMSystem) Events() []core.Event { return s.A.Events }

// Wrap implements core.Wrapper.
func (s *KMSystem) Wrap(f func()) {
	if !s.A.Bubble {
		f()
		return
	}
	synctest.Test(T, func(*testing.T) { f() })
}
func (s *KMSystem) New() core.Instance { return &kmInst{s: s, m: s.A.mk()} }

type kmInst struct {
	s *KMSystem
	m *km
}

func (k *kmInst) Apply(ev core.Event) map[string]any {
	res := k.m.apply(ev)
	// every edge carries every generic field, so the specification can read them unguarded
	for f, d := range map[string]any{"sub": 0, "key": 0, "ok": true, "sup": false, "subs": []int{}, "how": "", "arg": 0} {
		if _, in := ev[f]; in {
			continue
		}
		if _, in := res[f]; !in {
			res[f] = d
		}
	}
	return res
}

func (k *kmInst) Observe() map[string]any {
	fwd := make([]int, k.s.A.NSubs)
	for i := range fwd {
		fwd[i] = k.m.fwd(i + 1)
	}
	rev := make([]int, k.s.A.NKeys)
	for i := range rev {
		rev[i] = k.m.rev(i + 1)
	}
	return map[string]any{"fwd": fwd, "rev": rev, "probe": -1}
}

func (k *kmInst) Fingerprint() string { return k.m.fp() }

func (k *kmInst) Probe() map[string]any {
	if k.m.probe == nil {
		return map[string]any{"probe": -1}
	}
	return map[string]any{"probe": k.m.probe()}
}

func (k *kmInst) Close() {
	if k.m.close != nil {
		k.m.close()
	}
}

func toInt(v any) int {
	switch x := v.(type) {
	case int:
		return x
	case float64:
		return int(x)
	case int64:
		return int(x)
	}
	return 0
}

func toInts(v any) []int {
	switch x := v.(type) {
	case []int:
		return x
	case []any:
		out := make([]int, len(x))
		for i, e := range x {
			out[i] = toInt(e)
		}
		return out
	}
	return nil
}

func errStr(err error) string {
	if err == nil {
		return ""
	}
	m := uuidRe.ReplaceAllString(err.Error(), "<id>")
	if len(m) > 70 {
		m = m[:70]
	}
	return m
}

var uuidRe = regexp.MustCompile(`[0-9a-f]{8}-[0-9a-f]{4}-[0-9a-f]{4}-[0-9a-f]{4}-[0-9a-f]{12}`)

func subName(i int) string { return fmt.Sprintf("nte-%d", i) }
