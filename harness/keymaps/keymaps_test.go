package keymaps

import (
	"encoding/json"
	"fmt"
	"math/rand"
	"os"
	"strings"
	"testing"

	"verifharness/core"
)

type replayCase struct {
	ID     string         `json:"id"`
	System string         `json:"system"`
	NSubs  int            `json:"nsubs"`
	Events []core.Event   `json:"events"`
	Cfg    map[string]any `json:"cfg"`
}

type replayFile struct {
	Property string       `json:"property"`
	Cases    []replayCase `json:"cases"`
}

type runStats struct {
	Systems     int                `json:"systems"`
	Nodes       int                `json:"nodes"`
	Edges       int                `json:"edges"`
	Chains      int                `json:"chains"`
	ChainEvents int                `json:"chain_events"`
	Closed      int                `json:"closed_systems"`
	CircuitIDs  int                `json:"circuit_ids"`
	Panics      []core.PanicRecord `json:"panics"`
	PerSystem   map[string][3]int  `json:"per_system"` // nodes, edges, closed(1/0)
}

// Catalogue lists every small instance explored exhaustively (transition tables).
func Catalogue() []Adapter {
	out := []Adapter{
		vlanAdapter("s10-11.c100-102", smallVLAN, 3, smallVLANLoads()),
		smallQinQ(),
	}
	out = append(out, smallSessionManagers()...)
	out = append(out,
		stateLeaseAdapter("ip"), stateLeaseAdapter("mac"),
		stateSessionAdapter("ip"), stateSessionAdapter("mac"),
		subscriberManagerAdapter("ip"), subscriberManagerAdapter("mac"),
		memoryStoreAdapter())
	for _, f := range extraCatalogue {
		out = append(out, f()...)
	}
	return out
}

// LargeCatalogue lists the instances driven by long random sequences.
func LargeCatalogue(chainLen int) []Adapter {
	big := vlanGeo{S0: 100, S1: 102, C0: 200, C1: 207}
	var loads [][]loadRec
	for i := 0; i < 6; i++ {
		loads = append(loads, []loadRec{{1 + i, 1 + 2*i}, {2 + i, 2 + 2*i}})
	}
	var qp []qPair
	var reusable []int
	for s := uint16(10); s <= 11; s++ {
		for c := uint16(100); c <= 101; c++ {
			qp = append(qp, qPair{s, c, 1})
		}
	}
	qp = append(qp, qPair{0, 100, 2}, qPair{0, 101, 2}, qPair{12, 100, 2}, qPair{10, 102, 0}, qPair{0, 99, 0}, qPair{0, 4094, 0})
	reusable = []int{1, 2, 3, 4, 5, 6}
	macs := []int{1, 1, 2, 3, 3, 4, 5, 6}
	ids := []uint16{}
	for i := 65520; i <= 65535; i++ {
		ids = append(ids, uint16(i))
	}
	for i := 0; i <= chainLen/2; i++ { // at most one new id per two events is more than any chain uses
		ids = append(ids, uint16(i))
	}
	wrap := smCfg{Start: 65520, IDs: ids, MACs: macs, NMACs: 6}
	out := []Adapter{
		vlanAdapter("s100-102.c200-207", big, 12, loads),
		qinqAdapter("s10-11.c100-101.8subs", qp, reusable, 8),
		sessionManagerAdapter("id", fmt.Sprintf("next65520.8slots.%d", chainLen), wrap),
		sessionManagerAdapter("mac", fmt.Sprintf("next65520.8slots.%d", chainLen), wrap),
	}
	for _, f := range extraLargeCatalogue {
		out = append(out, f(chainLen)...)
	}
	return out
}

func FindAdapter(name string) (Adapter, bool) {
	for _, a := range append(Catalogue(), append(LargeCatalogue(300), LargeCatalogue(600)...)...) {
		if a.Name() == name {
			return a, true
		}
	}
	return Adapter{}, false
}

func corpora(tier string, seed int64) []*CorpusSystem {
	n := 8000
	if tier == "thorough" {
		n = 150000
	}
	var out []*CorpusSystem
	for _, fn := range []string{"MakeCircuitIDKey", "HashCircuitID"} {
		out = append(out,
			&CorpusSystem{Fn: fn, C: corpus{Class: "len<=2"}},
			&CorpusSystem{Fn: fn, C: corpus{Class: "len<=32,text", Seed: seed, N: n}},
			&CorpusSystem{Fn: fn, C: corpus{Class: "random<=64", Seed: seed, N: n}},
			&CorpusSystem{Fn: fn, C: corpus{Class: "len>32,prefix", Seed: seed, N: n / 10}},
			&CorpusSystem{Fn: fn, C: corpus{Class: "fnv-pair"}})
	}
	return out
}

func TestExplore(t *testing.T) {
	T = t
	out := core.OutDir()
	if rf := os.Getenv("VERIF_REPLAY"); rf != "" {
		replay(t, rf, out)
		return
	}
	tier := core.Tier()
	seed := core.Seed()
	depth, maxNodes := 0, 4000
	nchains, chainLen := 6, 300
	if tier == "thorough" {
		depth, maxNodes = 0, 40000
		nchains, chainLen = 16, 600
	}
	bundle := &core.Bundle{}
	st := runStats{PerSystem: map[string][3]int{}}
	for _, a := range Catalogue() {
		sys := &KMSystem{A: a}
		mn, md := maxNodes, depth
		if a.Unbounded {
			// the state grows with every operation (id counter): the table is a prefix bounded in nodes and depth
			mn, md = maxNodes/8, TableDepthUnbounded
		}
		tab, panics, err := core.Explore(sys, core.ExploreOptions{MaxDepth: md, MaxNodes: mn, AdequacySample: 5, Seed: seed})
		if err != nil {
			t.Fatalf("explore %s: %v", a.Name(), err)
		}
		st.Panics = append(st.Panics, panics...)
		bundle.Systems = append(bundle.Systems, tab)
		ne := 0
		for _, es := range tab.Edges {
			ne += len(es)
		}
		c := 0
		if tab.Closed {
			c = 1
			st.Closed++
		}
		st.PerSystem[a.Name()] = [3]int{len(tab.Nodes), ne, c}
		st.Systems++
		st.Nodes += len(tab.Nodes)
		st.Edges += ne
	}
	rng := rand.New(rand.NewSource(seed))
	for _, a := range LargeCatalogue(chainLen) {
		sys := &KMSystem{A: a}
		evs := sys.Events()
		for c := 0; c < nchains; c++ {
			var seqv []core.Event
			for i := 0; i < chainLen; i++ {
				seqv = append(seqv, evs[rng.Intn(len(evs))])
			}
			tab, pr := core.Chain(sys, fmt.Sprintf("%s#%d", a.Name(), c), seqv, true)
			if pr != nil {
				st.Panics = append(st.Panics, *pr)
				continue
			}
			bundle.Systems = append(bundle.Systems, tab)
			st.Chains++
			st.ChainEvents += len(seqv)
		}
	}
	for _, cs := range corpora(tier, seed) {
		evs := cs.Batches(4000)
		tab, pr := core.Chain(cs, cs.Name(), evs, false)
		if pr != nil {
			st.Panics = append(st.Panics, *pr)
			continue
		}
		bundle.Systems = append(bundle.Systems, tab)
		st.Chains++
		st.ChainEvents += len(evs)
		st.CircuitIDs += len(cs.C.gen())
	}
	if err := core.WriteJSON(out, "bundle.json", bundle); err != nil {
		t.Fatal(err)
	}
	if err := core.WriteJSON(out, "stats.json", st); err != nil {
		t.Fatal(err)
	}
}

func replay(t *testing.T, file, out string) {
	b, err := os.ReadFile(file)
	if err != nil {
		t.Fatal(err)
	}
	var rf replayFile
	if err := json.Unmarshal(b, &rf); err != nil {
		t.Fatal(err)
	}
	st := runStats{PerSystem: map[string][3]int{}}
	bundle := &core.Bundle{}
	for _, c := range rf.Cases {
		name := c.System
		if i := strings.IndexByte(name, '#'); i >= 0 {
			name = name[:i]
		}
		var sys core.System
		var evs []core.Event
		if fn, ok := c.Cfg["fn"].(string); ok && fn != "" {
			cs := &CorpusSystem{Fn: fn, C: corpus{Class: c.Cfg["class"].(string), Seed: int64(toInt(c.Cfg["seed"])), N: toInt(c.Cfg["n"])}}
			sys = cs
			for _, e := range c.Events {
				evs = append(evs, core.Event{"op": "keys", "subs": toInts(e["subs"])})
			}
		} else {
			a, ok := FindAdapter(name)
			if !ok {
				t.Fatalf("unknown system %q", c.System)
			}
			sys = &KMSystem{A: a}
			// only the inputs are replayed; answers are observed afresh. "op" is restored from the
			// alphabet (a recorded no-op may have been a real operation's name overwritten by its result)
			for _, e := range c.Events {
				in := core.Event{}
				for _, al := range a.Events {
					if al["how"] == e["how"] && toInt(al["sub"]) == toInt(e["sub"]) && toInt(al["arg"]) == toInt(e["arg"]) &&
						(al["op"] != "unbind" || toInt(al["key"]) == toInt(e["key"])) {
						for k, v := range al {
							in[k] = v
						}
						break
					}
				}
				if len(in) == 0 {
					t.Fatalf("event %v is not in the alphabet of %s", e, name)
				}
				evs = append(evs, in)
			}
		}
		tab, pr := core.Chain(sys, name+"#"+c.ID, evs, true)
		if pr != nil {
			st.Panics = append(st.Panics, *pr)
			continue
		}
		bundle.Systems = append(bundle.Systems, tab)
		st.Chains++
	}
	if err := core.WriteJSON(out, "bundle.json", bundle); err != nil {
		t.Fatal(err)
	}
	core.WriteJSON(out, "stats.json", st)
}
