package keymaps

import (
	"context"
	"fmt"
	"net"
	"sort"
	"strings"

	"github.com/codelaboratoryltd/bng/pkg/allocator"
	"github.com/codelaboratoryltd/bng/pkg/state"
	"github.com/codelaboratoryltd/bng/pkg/subscriber"
	"go.uber.org/zap"

	"verifharness/core"
)

// Secondary indexes of the object stores. Subscribers are object slots (lease i, session i,
// allocation of subscriber i); every slot has a fixed MAC (slots 1 and 2 share one: a
// dual-stack client has two leases) and two addresses of its own between which an "update"
// alternates (an address change). Two key maps are read per store:
//
//	index "ip":  key = address      index "mac": key = MAC
//
// Addresses are never shared between slots (a double allocation is C01's business), so
// the by-IP indexes are judged as identifiers where the store itself enforces that.

const slotsN = 3

var slotMAC = []int{1, 1, 2}

func slotIP(slot, which int) net.IP { return net.IPv4(10, 0, byte(slot), byte(1+which)).To4() }
func ipKey(slot, which int) int     { return (slot-1)*2 + which + 1 }
func keyOfIP(ip net.IP) int {
	ip4 := ip.To4()
	if ip4 == nil {
		if ip == nil {
			return 0
		}
		return -2
	}
	if ip4[0] == 10 && ip4[1] == 0 && ip4[2] >= 1 && int(ip4[2]) <= slotsN && (ip4[3] == 1 || ip4[3] == 2) {
		return ipKey(int(ip4[2]), int(ip4[3])-1)
	}
	return -2
}
func ipOfKey(k int) net.IP { return slotIP((k-1)/2+1, (k-1)%2) }

func indexAdapter(impl, index, variant string) Adapter {
	a := Adapter{Impl: impl + "-" + index, Variant: variant, NSubs: slotsN}
	if index == "ip" {
		a.NKeys = 2 * slotsN
		for k := 1; k <= a.NKeys; k++ {
			a.KeyNames = append(a.KeyNames, ipOfKey(k).String())
		}
	} else {
		a.NKeys = 2
		a.KeyNames = []string{macOf(1).String(), macOf(2).String()}
	}
	return a
}

// fpIndex renders an unexported map[string]string index with object ids replaced by slots.
func fpIndex(obj any, field string, slotOfID func(string) int) string {
	idx := core.Field(obj, field)
	var ents []string
	it := idx.MapRange()
	for it.Next() {
		ents = append(ents, fmt.Sprintf("%s>%d", it.Key().String(), slotOfID(it.Value().String())))
	}
	sort.Strings(ents)
	return field + "{" + strings.Join(ents, ",") + "}"
}

// ---------------------------------------------------------------------------------------
// state.Store leases

func stateLeaseAdapter(index string) Adapter {
	a := indexAdapter("state.Store-lease", index, "3slots")
	a.Unique = false
	for s := 1; s <= slotsN; s++ {
		a.Events = append(a.Events,
			core.Event{"op": "bind", "how": "CreateLease", "sub": s},
			core.Event{"op": "bind", "how": "UpdateLease", "sub": s},
			core.Event{"op": "release", "how": "DeleteLease", "sub": s})
	}
	a.mk = func() *km {
		st := state.NewStore(state.DefaultConfig(), zap.NewNop())
		id := func(s int) string { return fmt.Sprintf("lease-%d", s) }
		slotOfID := func(x string) int {
			for s := 1; s <= slotsN; s++ {
				if id(s) == x {
					return s
				}
			}
			return -1
		}
		which := make([]int, slotsN+1)
		keyFor := func(s int, l *state.Lease) int {
			if index == "ip" {
				return keyOfIP(l.IPv4)
			}
			return slotMAC[s-1]
		}
		m := &km{}
		m.apply = func(ev core.Event) map[string]any {
			s := toInt(ev["sub"])
			cur, err := st.GetLease(id(s))
			switch ev["how"].(string) {
			case "CreateLease":
				if err == nil {
					return map[string]any{"op": "noop", "ok": true}
				}
				which[s] = 0
				l := &state.Lease{ID: id(s), MAC: macOf(slotMAC[s-1]), IPv4: slotIP(s, 0), PoolID: "p", SubscriberID: subName(s)}
				if e := st.CreateLease(l); e != nil {
					return map[string]any{"ok": false, "err": errStr(e)}
				}
				return map[string]any{"ok": true, "key": keyFor(s, l)}
			case "UpdateLease":
				if err != nil {
					return map[string]any{"op": "noop", "ok": true}
				}
				// the address of the lease changes: a fresh record with the same id is written back
				which[s] = 1 - which[s]
				cp := *cur
				cp.IPv4 = slotIP(s, which[s])
				if e := st.UpdateLease(&cp); e != nil {
					return map[string]any{"ok": false, "err": errStr(e)}
				}
				return map[string]any{"ok": true, "key": keyFor(s, &cp)}
			case "DeleteLease":
				if err != nil {
					return map[string]any{"op": "noop", "ok": true}
				}
				e := st.DeleteLease(id(s))
				return map[string]any{"ok": e == nil, "err": errStr(e)}
			}
			panic("unknown op")
		}
		m.fwd = func(s int) int {
			l, err := st.GetLease(id(s))
			if err != nil || l == nil {
				return 0
			}
			return keyFor(s, l)
		}
		m.rev = func(k int) int {
			var l *state.Lease
			var err error
			if index == "ip" {
				l, err = st.GetLeaseByIP(ipOfKey(k))
			} else {
				l, err = st.GetLeaseByMAC(macOf(k))
			}
			if err != nil {
				return 0
			}
			if l == nil {
				return -1 // "found" without an object: an index entry that leads nowhere
			}
			if cur, e := st.GetLease(l.ID); e != nil || cur == nil {
				return -1
			}
			return slotOfID(l.ID)
		}
		m.fp = func() string {
			var sb strings.Builder
			for s := 1; s <= slotsN; s++ {
				fmt.Fprintf(&sb, "%d:%d/%d;", s, m.fwd(s), which[s])
			}
			sb.WriteString(fpIndex(st, "leaseByIP", slotOfID))
			sb.WriteString(fpIndex(st, "leaseByMAC", slotOfID))
			return sb.String()
		}
		return m
	}
	return a
}

// ---------------------------------------------------------------------------------------
// state.Store sessions: created without an address, the address arrives with UpdateSession

func stateSessionAdapter(index string) Adapter {
	a := indexAdapter("state.Store-session", index, "3slots")
	a.Unique = false
	for s := 1; s <= slotsN; s++ {
		a.Events = append(a.Events,
			core.Event{"op": "bind", "how": "CreateSession", "sub": s},
			core.Event{"op": "bind", "how": "UpdateSession", "sub": s},
			core.Event{"op": "release", "how": "DeleteSession", "sub": s})
	}
	a.mk = func() *km {
		st := state.NewStore(state.DefaultConfig(), zap.NewNop())
		id := func(s int) string { return fmt.Sprintf("sess-%d", s) }
		slotOfID := func(x string) int {
			for s := 1; s <= slotsN; s++ {
				if id(s) == x {
					return s
				}
			}
			return -1
		}
		which := make([]int, slotsN+1)
		keyFor := func(s int, x *state.Session) int {
			if index == "ip" {
				return keyOfIP(x.IPv4)
			}
			return slotMAC[s-1]
		}
		m := &km{}
		m.apply = func(ev core.Event) map[string]any {
			s := toInt(ev["sub"])
			cur, err := st.GetSession(id(s))
			switch ev["how"].(string) {
			case "CreateSession":
				if err == nil {
					return map[string]any{"op": "noop", "ok": true}
				}
				which[s] = 1
				x := &state.Session{ID: id(s), MAC: macOf(slotMAC[s-1]), SubscriberID: subName(s)}
				if e := st.CreateSession(x); e != nil {
					return map[string]any{"ok": false, "err": errStr(e)}
				}
				if index == "ip" {
					return map[string]any{"op": "noop", "ok": true} // no address yet: nothing bound in this index
				}
				return map[string]any{"ok": true, "key": keyFor(s, x)}
			case "UpdateSession":
				if err != nil {
					return map[string]any{"op": "noop", "ok": true}
				}
				which[s] = 1 - which[s]
				cp := *cur
				cp.IPv4 = slotIP(s, which[s])
				if e := st.UpdateSession(&cp); e != nil {
					return map[string]any{"ok": false, "err": errStr(e)}
				}
				return map[string]any{"ok": true, "key": keyFor(s, &cp)}
			case "DeleteSession":
				if err != nil {
					return map[string]any{"op": "noop", "ok": true}
				}
				e := st.DeleteSession(id(s))
				return map[string]any{"ok": e == nil, "err": errStr(e)}
			}
			panic("unknown op")
		}
		m.fwd = func(s int) int {
			x, err := st.GetSession(id(s))
			if err != nil || x == nil {
				return 0
			}
			return keyFor(s, x)
		}
		m.rev = func(k int) int {
			var x *state.Session
			var err error
			if index == "ip" {
				x, err = st.GetSessionByIP(ipOfKey(k))
			} else {
				x, err = st.GetSessionByMAC(macOf(k))
			}
			if err != nil {
				return 0
			}
			if x == nil {
				return -1
			}
			if cur, e := st.GetSession(x.ID); e != nil || cur == nil {
				return -1
			}
			return slotOfID(x.ID)
		}
		m.fp = func() string {
			var sb strings.Builder
			for s := 1; s <= slotsN; s++ {
				x, err := st.GetSession(id(s))
				if err != nil {
					fmt.Fprintf(&sb, "%d:-;", s)
				} else {
					fmt.Fprintf(&sb, "%d:%d/%d;", s, keyOfIP(x.IPv4), which[s])
				}
			}
			sb.WriteString(fpIndex(st, "sessionByIP", slotOfID))
			sb.WriteString(fpIndex(st, "sessionByMAC", slotOfID))
			return sb.String()
		}
		return m
	}
	return a
}

// ---------------------------------------------------------------------------------------
// subscriber.Manager: CreateSession / AssignAddress / TerminateSession with a scripted
// address allocator that hands slot i its two addresses alternately.

type scriptedAllocator struct {
	slotOfMAC func(net.HardwareAddr) int
	which     []int
}

func (a *scriptedAllocator) AllocateIPv4(ctx context.Context, s *subscriber.Session, poolID string) (net.IP, net.IPMask, net.IP, error) {
	slot := a.slotOfMAC(s.MAC)
	a.which[slot] = 1 - a.which[slot]
	return slotIP(slot, a.which[slot]), net.CIDRMask(24, 32), net.IPv4(10, 0, byte(slot), 254).To4(), nil
}
func (a *scriptedAllocator) AllocateIPv6(ctx context.Context, s *subscriber.Session, poolID string) (net.IP, *net.IPNet, error) {
	return nil, nil, fmt.Errorf("no v6")
}
func (a *scriptedAllocator) ReleaseIPv4(ctx context.Context, ip net.IP) error { return nil }
func (a *scriptedAllocator) ReleaseIPv6(ctx context.Context, ip net.IP) error { return nil }

func subscriberManagerAdapter(index string) Adapter {
	a := indexAdapter("subscriber.Manager", index, "3slots")
	// every slot has its own MAC here except that slot 2 reuses slot 1's (CreateSession must refuse it
	// while slot 1 lives), so both indexes are identifiers
	a.Unique = true
	macs := []int{1, 1, 2}
	for s := 1; s <= slotsN; s++ {
		a.Events = append(a.Events,
			core.Event{"op": "bind", "how": "CreateSession", "sub": s},
			core.Event{"op": "bind", "how": "AssignAddress", "sub": s},
			core.Event{"op": "release", "how": "TerminateSession", "sub": s})
	}
	a.mk = func() *km {
		ids := make([]string, slotsN+1)
		al := &scriptedAllocator{which: make([]int, slotsN+1)}
		cur := 0
		al.slotOfMAC = func(net.HardwareAddr) int { return cur }
		cfg := subscriber.DefaultManagerConfig()
		if cfg.MaxSessions < 10 {
			cfg.MaxSessions = 10
		}
		mg := subscriber.NewManager(cfg, nil, al, zap.NewNop())
		slotOfID := func(x string) int {
			if x == "" {
				return 0
			}
			for s := 1; s <= slotsN; s++ {
				if ids[s] == x {
					return s
				}
			}
			return -1
		}
		liveSess := func(s int) *subscriber.Session {
			if ids[s] == "" {
				return nil
			}
			x, ok := mg.GetSession(ids[s])
			if !ok {
				return nil
			}
			return x
		}
		keyFor := func(s int, x *subscriber.Session) int {
			if index == "ip" {
				return keyOfIP(x.IPv4)
			}
			return macs[s-1]
		}
		m := &km{}
		m.apply = func(ev core.Event) map[string]any {
			s := toInt(ev["sub"])
			x := liveSess(s)
			switch ev["how"].(string) {
			case "CreateSession":
				if x != nil {
					return map[string]any{"op": "noop", "ok": true}
				}
				ns, err := mg.CreateSession(context.Background(), &subscriber.SessionRequest{MAC: macOf(macs[s-1]), NTEID: subName(s), Type: subscriber.SessionTypeIPoE})
				if err != nil {
					if index == "ip" {
						return map[string]any{"op": "noop", "ok": false, "err": errStr(err)}
					}
					return map[string]any{"ok": false, "err": errStr(err)}
				}
				ids[s] = ns.ID
				al.which[s] = 1
				if index == "ip" {
					return map[string]any{"op": "noop", "ok": true}
				}
				return map[string]any{"ok": true, "key": macs[s-1]}
			case "AssignAddress":
				if x == nil {
					return map[string]any{"op": "noop", "ok": true}
				}
				cur = s
				if err := mg.AssignAddress(context.Background(), ids[s], "pool4", ""); err != nil {
					return map[string]any{"ok": false, "err": errStr(err)}
				}
				return map[string]any{"ok": true, "key": keyFor(s, liveSess(s))}
			case "TerminateSession":
				if x == nil {
					return map[string]any{"op": "noop", "ok": true}
				}
				err := mg.TerminateSession(context.Background(), ids[s], subscriber.TerminateUserRequest)
				return map[string]any{"ok": err == nil, "err": errStr(err)}
			}
			panic("unknown op")
		}
		m.fwd = func(s int) int {
			x := liveSess(s)
			if x == nil {
				return 0
			}
			return keyFor(s, x)
		}
		m.rev = func(k int) int {
			var x *subscriber.Session
			var ok bool
			if index == "ip" {
				x, ok = mg.GetSessionByIP(ipOfKey(k))
			} else {
				x, ok = mg.GetSessionByMAC(macOf(k))
			}
			if !ok {
				return 0
			}
			if x == nil {
				return -1
			}
			if _, live := mg.GetSession(x.ID); !live {
				return -1
			}
			return slotOfID(x.ID)
		}
		m.fp = func() string {
			var sb strings.Builder
			for s := 1; s <= slotsN; s++ {
				x := liveSess(s)
				if x == nil {
					fmt.Fprintf(&sb, "%d:-;", s)
				} else {
					fmt.Fprintf(&sb, "%d:%d/%d/%d;", s, keyOfIP(x.IPv4), al.which[s], len(string(x.State)))
				}
			}
			sb.WriteString(fpIndex(mg, "byIP", slotOfID))
			sb.WriteString(fpIndex(mg, "byMAC", slotOfID))
			return sb.String()
		}
		return m
	}
	return a
}

// ---------------------------------------------------------------------------------------
// allocator.MemoryAllocationStore by-IP index (one pool; SaveAllocation refuses an address
// recorded for another subscriber, so the address is an identifier)

func memoryStoreAdapter() Adapter {
	a := indexAdapter("allocator.MemoryAllocationStore", "ip", "3subs")
	a.Unique = true
	for s := 1; s <= slotsN; s++ {
		a.Events = append(a.Events,
			core.Event{"op": "bind", "how": "SaveAllocation", "sub": s, "arg": 0}, // the subscriber's other address
			core.Event{"op": "release", "how": "RemoveAllocation", "sub": s})
	}
	// one subscriber tries to record an address of another subscriber
	a.Events = append(a.Events, core.Event{"op": "bind", "how": "SaveAllocation", "sub": 2, "arg": ipKey(1, 0)},
		core.Event{"op": "bind", "how": "SaveAllocation", "sub": 3, "arg": ipKey(1, 1)})
	a.mk = func() *km {
		st := allocator.NewMemoryAllocationStore()
		ctx := context.Background()
		which := make([]int, slotsN+1)
		for i := range which {
			which[i] = 1
		}
		subOf := func(id string) int {
			for s := 1; s <= slotsN; s++ {
				if subName(s) == id {
					return s
				}
			}
			return -1
		}
		curIP := func(s int) net.IP {
			recs, _ := st.GetBySubscriber(ctx, subName(s))
			for _, r := range recs {
				if r.PoolID == "p" && r.Prefix != nil {
					return r.Prefix.IP
				}
			}
			return nil
		}
		m := &km{}
		m.apply = func(ev core.Event) map[string]any {
			s := toInt(ev["sub"])
			switch ev["how"].(string) {
			case "SaveAllocation":
				var ip net.IP
				if k := toInt(ev["arg"]); k > 0 {
					ip = ipOfKey(k)
				} else {
					which[s] = 1 - which[s]
					ip = slotIP(s, which[s])
				}
				err := st.SaveAllocation(ctx, allocator.AllocationRecord{SubscriberID: subName(s), PoolID: "p",
					Prefix: &net.IPNet{IP: ip, Mask: net.CIDRMask(32, 32)}, MAC: macOf(s).String()})
				if err != nil {
					return map[string]any{"ok": false, "err": errStr(err)}
				}
				return map[string]any{"ok": true, "key": keyOfIP(ip)}
			case "RemoveAllocation":
				err := st.RemoveAllocation(ctx, "p", subName(s))
				return map[string]any{"ok": err == nil, "err": errStr(err)}
			}
			panic("unknown op")
		}
		m.fwd = func(s int) int {
			ip := curIP(s)
			if ip == nil {
				return 0
			}
			return keyOfIP(ip)
		}
		m.rev = func(k int) int {
			r, err := st.GetByIP(ctx, ipOfKey(k))
			if err != nil {
				return 0
			}
			if r == nil {
				return -1
			}
			if curIP(subOf(r.SubscriberID)) == nil {
				return -1 // the record's subscriber has no allocation any more
			}
			return subOf(r.SubscriberID)
		}
		m.fp = func() string {
			var sb strings.Builder
			for s := 1; s <= slotsN; s++ {
				fmt.Fprintf(&sb, "%d:%d/%d;", s, m.fwd(s), which[s])
			}
			idx := core.Field(st, "byIP")
			var ents []string
			it := idx.MapRange()
			for it.Next() {
				ents = append(ents, fmt.Sprintf("%s>%s", it.Key().String(), it.Value().Elem().FieldByName("SubscriberID").String()))
			}
			sort.Strings(ents)
			sb.WriteString(strings.Join(ents, ","))
			return sb.String()
		}
		return m
	}
	return a
}
