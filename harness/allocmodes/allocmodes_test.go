//go:build verif

package allocmodes

import (
	"encoding/json"
	"fmt"
	"math/rand"
	"os"
	"strings"
	"testing"

	"verifharness/core"
)

type replayCase struct {
	ID     string         `json:"id"`
	System string         `json:"system"`
	Events []core.Event   `json:"events"`
	Cfg    map[string]any `json:"cfg"`
}

type replayFile struct {
	Property string       `json:"property"`
	Cases    []replayCase `json:"cases"`
}

type runStats struct {
	Systems     int                `json:"systems"`
	Nodes       int                `json:"nodes"`
	Edges       int                `json:"edges"`
	Chains      int                `json:"chains"`
	ChainEvents int                `json:"chain_events"`
	Closed      int                `json:"closed_systems"`
	Panics      []core.PanicRecord `json:"panics"`
	PerSystem   map[string][3]int  `json:"per_system"`
}

var allX = []string{"ok", "fail", "fail1", "cancel1", "okcancel", "reject1"}

// Catalogue: configurations whose transition tables are extracted (until closed).
func Catalogue(tier string) []core.System {
	l := []core.System{
		&HSystem{name: "hyb", Kind: "hyb", NS: 3, CIDR: "10.0.0.0/31"},
		&HSystem{name: "wifi", Kind: "wifi", NS: 2, CIDR: "10.0.1.0/30", L: 0},
		&HSystem{name: "wifi-l2", Kind: "wifi", NS: 2, CIDR: "10.0.1.0/30", L: 2},
		&MSystem{name: "mon", NP: 1, NH: 2, SLE: true, Us: [][2]int{{50, 50}, {80, 20}, {85, 15}, {90, 10}, {93, 7}, {95, 5}, {100, 0}}},
		&MSystem{name: "mon-noips", NP: 1, NH: 1, SLE: true, Us: [][2]int{{50, 50}, {50, 0}, {85, 0}, {96, 4}}},
		&MSystem{name: "mon-2p", NP: 2, NH: 1, SLE: false, Us: [][2]int{{50, 50}, {85, 15}, {92, 8}, {96, 4}}},
		&MSystem{name: "mon-prov", NP: 2, NH: 2, SLE: true, Provider: true, Us: [][2]int{{50, 50}, {85, 15}, {96, 4}}},
		&RSystem{name: "rad-cache", NS: 2, T: 2, B: 1, NSes: 2, Auth0: true, Ops: []string{"cache", "get", "auth", "purge", "purgeexp", "adv"}, Advs: []int{1}},
		&RSystem{name: "rad-deny", NS: 1, T: 1, B: 1, NSes: 2, Deny: true, Auth0: true, Ops: []string{"cache", "auth", "adv"}, Advs: []int{1}},
		&RSystem{name: "rad-acct", NS: 1, T: 1, B: 2, NRec: 3, Auth0: true, Ops: []string{"buf", "sync"}, Xs: []string{"ok", "fail", "fail1", "cancel1", "okcancel"}},
		&RSystem{name: "rad-noauth", NS: 1, T: 1, B: 2, NRec: 2, Auth0: false, Ops: []string{"buf", "sync", "setauth"}, Xs: []string{"ok"}},
		&RSystem{name: "rad-reauth", NS: 1, T: 5, B: 1, NSes: 2, Auth0: true, Ops: []string{"cache", "auth", "queue", "proc"}, Xs: allX},
	}
	if tier == "thorough" {
		l = append(l,
			&HSystem{name: "hyb-4", Kind: "hyb", NS: 3, CIDR: "10.0.0.0/30"},
			&MSystem{name: "mon-prov-3", NP: 2, NH: 1, SLE: true, Provider: true, Us: [][2]int{{50, 50}, {85, 15}, {90, 10}, {96, 4}, {50, 0}}},
			&RSystem{name: "rad-cache-3", NS: 2, T: 3, B: 1, NSes: 3, Auth0: true, Ops: []string{"cache", "get", "auth", "purge", "purgeexp", "adv"}, Advs: []int{1, 2}},
			&RSystem{name: "rad-acct-4", NS: 1, T: 1, B: 3, NRec: 4, Auth0: true, Ops: []string{"buf", "sync", "setauth"}, Xs: []string{"ok", "fail", "fail1", "cancel1", "okcancel"}},
			&RSystem{name: "rad-reauth-3", NS: 1, T: 5, B: 1, NSes: 3, Auth0: true, Ops: []string{"cache", "auth", "queue", "proc"}, Xs: allX},
			&RSystem{name: "rad-reauth-4", NS: 2, T: 5, B: 1, NSes: 4, Auth0: true, Ops: []string{"cache", "auth", "queue", "proc", "setauth"}, Xs: allX},
		)
	}
	return l
}

// ChainCatalogue: configurations driven by long seeded random sequences.
func ChainCatalogue() []core.System {
	return []core.System{
		&HSystem{name: "rnd-hyb", Kind: "hyb", NS: 6, CIDR: "10.0.0.0/30"},
		&MSystem{name: "rnd-mon", NP: 3, NH: 3, SLE: true, Us: [][2]int{{0, 100}, {50, 50}, {79, 21}, {80, 20}, {85, 15}, {89, 11}, {91, 9}, {94, 6}, {96, 4}, {100, 0}}},
		&MSystem{name: "rnd-mon-prov", NP: 3, NH: 2, SLE: true, Provider: true, Us: [][2]int{{10, 90}, {81, 19}, {91, 9}, {97, 3}, {100, 0}}},
		&RSystem{name: "rnd-rad", NS: 3, T: 3, B: 4, NRec: 40, NSes: 12, Auth0: true, Ops: []string{"cache", "get", "auth", "purge", "purgeexp", "adv", "buf", "sync", "queue", "proc"},
			Xs: allX, Advs: []int{1, 1, 2}},
	}
}

func find(name string) core.System {
	for _, s := range append(Catalogue("thorough"), ChainCatalogue()...) {
		if s.Name() == name {
			return s
		}
	}
	return nil
}

func ints2(v any) [][2]int {
	out := [][2]int{}
	l, _ := v.([]any)
	for _, x := range l {
		p, _ := x.([]any)
		if len(p) == 2 {
			out = append(out, [2]int{toInt(p[0]), toInt(p[1])})
		}
	}
	return out
}

func strs(v any) []string {
	out := []string{}
	l, _ := v.([]any)
	for _, x := range l {
		out = append(out, fmt.Sprint(x))
	}
	return out
}

func ints(v any) []int {
	out := []int{}
	l, _ := v.([]any)
	for _, x := range l {
		out = append(out, toInt(x))
	}
	return out
}

// sysFromCfg rebuilds a system from the configuration recorded in a bundle / replay file.
func sysFromCfg(name string, c map[string]any) core.System {
	if c == nil {
		return nil
	}
	b := func(k string) bool { v, _ := c[k].(bool); return v }
	switch c["kind"] {
	case "hyb", "wifi":
		return &HSystem{name: name, Kind: fmt.Sprint(c["kind"]), NS: toInt(c["ns"]), CIDR: fmt.Sprint(c["cidr"]), L: toInt(c["L"])}
	case "mon":
		return &MSystem{name: name, NP: toInt(c["np"]), NH: toInt(c["nh"]), SLE: b("sle"), Provider: b("provider"), Us: ints2(c["us"])}
	case "rad":
		return &RSystem{name: name, NS: toInt(c["ns"]), T: toInt(c["T"]), B: toInt(c["B"]), NRec: toInt(c["nrec"]), NSes: toInt(c["nses"]), Deny: b("deny"), Auth0: b("auth0"),
			Ops: strs(c["ops"]), Xs: strs(c["xs"]), Advs: ints(c["advs"])}
	}
	return nil
}

func randomChain(sys core.System, rng *rand.Rand, n int) []core.Event {
	evs := sys.Events()
	var out []core.Event
	for len(out) < n {
		out = append(out, evs[rng.Intn(len(evs))])
	}
	return out
}

func TestExplore(t *testing.T) {
	theT = t
	out := core.OutDir()
	if rf := os.Getenv("VERIF_REPLAY"); rf != "" {
		replay(t, rf, out)
		return
	}
	tier := core.Tier()
	seed := core.Seed()
	maxNodes := 6000
	nchains, chainLen := 6, 120
	if tier == "thorough" {
		maxNodes = 20000
		nchains, chainLen = 20, 200
	}
	bundle := &core.Bundle{}
	st := runStats{PerSystem: map[string][3]int{}}
	for _, sys := range Catalogue(tier) {
		if only := os.Getenv("VERIF_ONLY"); only != "" && only != sys.Name() {
			continue
		}
		// bubbles strictly one after the other
		tab, panics, err := core.Explore(sys, core.ExploreOptions{MaxNodes: maxNodes, AdequacySample: 20, Seed: seed, Workers: 1})
		if err != nil {
			t.Fatalf("explore %s: %v", sys.Name(), err)
		}
		st.Panics = append(st.Panics, panics...)
		bundle.Systems = append(bundle.Systems, tab)
		ne := 0
		for _, es := range tab.Edges {
			ne += len(es)
		}
		c := 0
		if tab.Closed {
			c = 1
			st.Closed++
		}
		st.PerSystem[sys.Name()] = [3]int{len(tab.Nodes), ne, c}
		st.Systems++
		st.Nodes += len(tab.Nodes)
		st.Edges += ne
	}
	rng := rand.New(rand.NewSource(seed))
	for _, sys := range ChainCatalogue() {
		if only := os.Getenv("VERIF_ONLY"); only != "" && only != sys.Name() {
			continue
		}
		for c := 0; c < nchains; c++ {
			seqv := randomChain(sys, rng, chainLen)
			tab, pr := core.Chain(sys, fmt.Sprintf("%s#%d", sys.Name(), c), seqv, false)
			if pr != nil {
				st.Panics = append(st.Panics, *pr)
				continue
			}
			bundle.Systems = append(bundle.Systems, tab)
			st.Chains++
			st.ChainEvents += len(seqv)
		}
	}
	// histories found by TLC on the implementation-shaped design spec, executed on the real code
	if xf := os.Getenv("VERIF_EXTRA_CASES"); xf != "" {
		runCases(t, xf, bundle, &st, false)
	}
	if err := core.WriteJSON(out, "bundle.json", bundle); err != nil {
		t.Fatal(err)
	}
	if err := core.WriteJSON(out, "stats.json", st); err != nil {
		t.Fatal(err)
	}
}

// clean keeps only the alphabet part of recorded events (results are observed afresh).
func clean(in []core.Event) []core.Event {
	evs := make([]core.Event, 0, len(in))
	for _, e := range in {
		x := ""
		if e["x"] != nil {
			x = fmt.Sprint(e["x"])
		}
		evs = append(evs, mk(fmt.Sprint(e["op"]), toInt(e["s"]), toInt(e["v"]), toInt(e["dt"]), x))
	}
	return evs
}

func runCases(t *testing.T, file string, bundle *core.Bundle, st *runStats, lookup bool) {
	b, err := os.ReadFile(file)
	if err != nil {
		t.Fatal(err)
	}
	var rf replayFile
	if err := json.Unmarshal(b, &rf); err != nil {
		t.Fatal(err)
	}
	for _, c := range rf.Cases {
		name := c.System
		if i := strings.IndexByte(name, '#'); i >= 0 {
			name = name[:i]
		}
		var sys core.System
		if lookup {
			sys = find(name)
		}
		if sys == nil {
			sys = sysFromCfg(name, c.Cfg)
		}
		if sys == nil {
			t.Fatalf("unknown system %q", c.System)
		}
		evs := clean(c.Events)
		tab, pr := core.Chain(sys, name+"#"+c.ID, evs, false)
		if pr != nil {
			st.Panics = append(st.Panics, *pr)
			continue
		}
		bundle.Systems = append(bundle.Systems, tab)
		st.Chains++
		st.ChainEvents += len(evs)
	}
}

func replay(t *testing.T, file, out string) {
	st := runStats{PerSystem: map[string][3]int{}}
	bundle := &core.Bundle{}
	runCases(t, file, bundle, &st, true)
	if err := core.WriteJSON(out, "bundle.json", bundle); err != nil {
		t.Fatal(err)
	}
	core.WriteJSON(out, "stats.json", st)
}
