//go:build verif

// Package allocmodes binds extra family X16 (specs/AllocModes) to the real code of /repo: allocator.HybridAllocator and
// allocator.WiFiGatewayAllocator (pkg/allocator/modes.go), resilience.PoolMonitor (pool_monitor.go) and resilience.RADIUSHandler
// (radius_handler.go).  Every instance lives in its own testing/synctest bubble; every call is made one millisecond after the
// previous step so that no call coincides with a ticker instant or with age = TTL.
package allocmodes

import (
	"context"
	"encoding/json"
	"errors"
	"fmt"
	"math"
	"net"
	"sort"
	"strings"
	"sync"
	"testing"
	"testing/synctest"
	"time"

	"github.com/codelaboratoryltd/bng/pkg/allocator"
	"github.com/codelaboratoryltd/bng/pkg/resilience"
	"go.uber.org/zap"

	"verifharness/core"
)

var theT *testing.T

func mk(op string, s, v, dt int, x string) core.Event {
	return core.Event{"op": op, "s": s, "v": v, "dt": dt, "x": x}
}

func toInt(v any) int {
	switch x := v.(type) {
	case int:
		return x
	case float64:
		return int(x)
	case json.Number:
		i, _ := x.Int64()
		return int(i)
	}
	return 0
}

func implOf(name string) string {
	if i := strings.IndexByte(name, '#'); i >= 0 {
		return name[:i]
	}
	return name
}

type bubble struct{}

func (bubble) Wrap(f func()) { synctest.Test(theT, func(t *testing.T) { f() }) }

func has(l []string, x string) bool {
	for _, y := range l {
		if y == x {
			return true
		}
	}
	return false
}

func fp(parts ...any) string {
	b, _ := json.Marshal(parts)
	return string(b)
}

/************************************ hyb / wifi ************************************/

// HSystem: one HybridAllocator (kind hyb) or WiFiGatewayAllocator (kind wifi) over one pool.
type HSystem struct {
	bubble
	name  string
	Kind  string
	NS    int
	CIDR  string
	L     int // wifi: LeaseDuration in minutes, 0 = default
	total int
}

func (s *HSystem) Name() string { return s.name }

func (s *HSystem) pool() allocator.PoolConfig {
	return allocator.PoolConfig{ID: "p", CIDR: s.CIDR, PrefixLength: 32}
}

func (s *HSystem) Total() int {
	if s.total == 0 {
		la, err := allocator.NewLocalAllocator(allocator.LocalAllocatorConfig{Pools: []allocator.PoolConfig{s.pool()}})
		if err != nil {
			panic(err)
		}
		_, tot, _, _ := la.Stats(context.Background(), "p")
		s.total = int(tot)
	}
	return s.total
}

func (s *HSystem) Config() map[string]any {
	return map[string]any{"kind": s.Kind, "impl": implOf(s.name), "ns": s.NS, "cidr": s.CIDR, "total": s.Total(), "L": s.L, "nsubs": 0}
}

func (s *HSystem) Events() []core.Event {
	var evs []core.Event
	for i := 1; i <= s.NS; i++ {
		if s.Kind == "wifi" {
			evs = append(evs, mk("guest", i, 0, 0, ""))
		} else {
			evs = append(evs, mk("alloc", i, 0, 0, ""))
		}
		evs = append(evs, mk("release", i, 0, 0, ""))
	}
	if s.Kind == "hyb" {
		evs = append(evs, mk("nexus", 0, 0, 0, ""), mk("nexus", 0, 1, 0, ""), mk("tick", 0, 0, 0, ""))
	}
	return evs
}

type hinst struct {
	s    *HSystem
	hyb  *allocator.HybridAllocator
	wifi *allocator.WiFiGatewayAllocator
	base net.IP
}

func subName(i int) string { return fmt.Sprintf("02:00:00:00:00:%02x", i) }

func (s *HSystem) New() core.Instance {
	in := &hinst{s: s}
	ip, _, err := net.ParseCIDR(s.CIDR)
	if err != nil {
		panic(err)
	}
	in.base = ip.To4()
	if s.Kind == "wifi" {
		w, err := allocator.NewWiFiGatewayAllocator(allocator.WiFiGatewayConfig{GuestPool: s.pool(), LeaseDuration: time.Duration(s.L) * time.Minute, Logger: zap.NewNop()})
		if err != nil {
			panic(err)
		}
		in.wifi = w
	} else {
		h, err := allocator.NewHybridAllocator(allocator.HybridAllocatorConfig{Pools: []allocator.PoolConfig{s.pool()}, NexusURL: "http://nexus.invalid", Logger: zap.NewNop()})
		if err != nil {
			panic(err)
		}
		in.hyb = h
		synctest.Wait() // syncLoop has made its ticker
	}
	return in
}

func (in *hinst) alloc() allocator.Allocator {
	if in.wifi != nil {
		return in.wifi
	}
	return in.hyb
}

func (in *hinst) idx(n *net.IPNet) int {
	if n == nil || n.IP.To4() == nil {
		return 0
	}
	ip := n.IP.To4()
	for i := 0; i < 3; i++ {
		if ip[i] != in.base[i] {
			return 99
		}
	}
	return int(ip[3]) - int(in.base[3]) + 1
}

func (in *hinst) Apply(ev core.Event) map[string]any {
	time.Sleep(time.Millisecond)
	ctx := context.Background()
	op, sb := fmt.Sprint(ev["op"]), toInt(ev["s"])
	res := map[string]any{"op": op, "s": sb, "v": toInt(ev["v"]), "dt": 0, "x": "", "ok": true, "a": 0}
	switch op {
	case "alloc":
		n, err := in.hyb.Allocate(ctx, subName(sb), "p")
		res["ok"], res["a"] = err == nil, in.idx(n)
	case "guest":
		n, err := in.wifi.AllocateGuest(ctx, subName(sb))
		res["ok"], res["a"] = err == nil, in.idx(n)
	case "release":
		res["ok"] = in.alloc().Release(ctx, subName(sb), "p") == nil
	case "nexus":
		// the outcome of the health check (checkNexusHealth is a stub: `h.nexusAvailable = pingNexus(h.nexusURL)` is commented out)
		mu := core.Field(in.hyb, "mu").Addr().Interface().(*sync.RWMutex)
		mu.Lock()
		core.Field(in.hyb, "nexusAvailable").SetBool(toInt(ev["v"]) == 1)
		mu.Unlock()
	case "tick":
		time.Sleep(30*time.Second - time.Millisecond)
		synctest.Wait()
	default:
		panic("unknown op " + op)
	}
	return res
}

func (in *hinst) Observe() map[string]any {
	ctx := context.Background()
	held, flag, exp := []int{}, []bool{}, []int{}
	for i := 1; i <= in.s.NS; i++ {
		infos, err := in.alloc().Lookup(ctx, subName(i))
		h, f, x := 0, false, -1
		if err == nil && len(infos) == 1 {
			h, f = in.idx(infos[0].Prefix), infos[0].PartitionFlag
			x = 0
			if infos[0].ExpiresAt != nil {
				x = int(math.Ceil(float64(time.Until(*infos[0].ExpiresAt)) / float64(time.Minute)))
				if x < 1 {
					x = 100
				}
			}
		} else if len(infos) > 1 {
			h = 100 + len(infos)
		}
		held, flag, exp = append(held, h), append(flag, f), append(exp, x)
	}
	na, _, _, _ := in.alloc().Stats(ctx, "p")
	o := map[string]any{"held": held, "flag": flag, "exp": exp, "nalloc": int(na), "part": false, "avail": false}
	if in.hyb != nil {
		o["part"] = in.hyb.IsPartitionActive()
		o["avail"] = core.Field(in.hyb, "nexusAvailable").Bool()
	}
	return o
}

func (in *hinst) Fingerprint() string   { return fp(in.Observe()) }
func (in *hinst) Probe() map[string]any { return nil }
func (in *hinst) Close() {
	if in.hyb != nil {
		in.hyb.Close()
	}
	if in.wifi != nil {
		in.wifi.Close()
	}
}

/************************************ mon ************************************/

// MSystem: one PoolMonitor.
type MSystem struct {
	bubble
	name     string
	NP, NH   int
	SLE      bool
	Us       [][2]int // (utilization per cent, addresses available) reported
	Provider bool     // SetProvider + Start: the monitor's own 10 s loop
}

func (s *MSystem) Name() string { return s.name }
func (s *MSystem) Config() map[string]any {
	if s.Us == nil {
		s.Us = [][2]int{}
	}
	return map[string]any{"kind": "mon", "impl": implOf(s.name), "W": 80, "C": 90, "X": 95, "SL": 90, "sle": s.SLE, "np": s.NP, "nh": s.NH,
		"us": s.Us, "provider": s.Provider, "nsubs": 0}
}

func (s *MSystem) Events() []core.Event {
	var evs []core.Event
	for p := 1; p <= s.NP; p++ {
		for _, u := range s.Us {
			if s.Provider {
				evs = append(evs, mk("set", p, u[0], u[1], ""))
			} else {
				evs = append(evs, mk("upd", p, u[0], u[1], ""))
			}
		}
	}
	if s.Provider {
		evs = append(evs, mk("poll", 0, 0, 0, ""))
	}
	return evs
}

type minst struct {
	s      *MSystem
	m      *resilience.PoolMonitor
	mu     sync.Mutex
	alerts []map[string]any
	prov   map[int][2]int
}

func poolName(p int) string { return fmt.Sprintf("pool-%d", p) }
func poolIdx(id string) int {
	var p int
	if _, err := fmt.Sscanf(id, "pool-%d", &p); err != nil {
		return 0
	}
	return p
}

func status(p, u, av int) *resilience.PoolStatus {
	return &resilience.PoolStatus{PoolID: poolName(p), PoolName: poolName(p), Total: 100, Allocated: u, Available: av, Reserved: 100 - u - av, Utilization: float64(u) / 100}
}

func (in *minst) GetPoolStatus(id string) (*resilience.PoolStatus, error) {
	v, ok := in.prov[poolIdx(id)]
	if !ok {
		return nil, errors.New("no such pool")
	}
	return status(poolIdx(id), v[0], v[1]), nil
}

func (in *minst) ListPools() []string {
	var l []string
	for p := 1; p <= in.s.NP; p++ {
		if _, ok := in.prov[p]; ok {
			l = append(l, poolName(p))
		}
	}
	return l
}

func (s *MSystem) New() core.Instance {
	cfg := resilience.DefaultPartitionConfig()
	cfg.ShortLeaseEnabled = s.SLE
	in := &minst{s: s, m: resilience.NewPoolMonitor(cfg, zap.NewNop()), prov: map[int][2]int{}}
	for h := 1; h <= s.NH; h++ {
		h := h
		in.m.OnAlert(func(st resilience.PoolStatus, lvl resilience.PoolUtilizationLevel) {
			in.mu.Lock()
			in.alerts = append(in.alerts, map[string]any{"h": h, "p": poolIdx(st.PoolID), "lvl": int(lvl), "u": int(math.Round(st.Utilization * 100))})
			in.mu.Unlock()
		})
	}
	if s.Provider {
		in.m.SetProvider(in)
		if err := in.m.Start(); err != nil {
			panic(err)
		}
		synctest.Wait()
	}
	return in
}

func (in *minst) Apply(ev core.Event) map[string]any {
	time.Sleep(time.Millisecond)
	op, p, u, av := fmt.Sprint(ev["op"]), toInt(ev["s"]), toInt(ev["v"]), toInt(ev["dt"])
	res := map[string]any{"op": op, "s": p, "v": u, "dt": av, "x": ""}
	in.mu.Lock()
	in.alerts = nil
	in.mu.Unlock()
	switch op {
	case "upd":
		in.m.UpdatePoolStatus(status(p, u, av))
	case "set":
		in.prov[p] = [2]int{u, av}
	case "poll":
		time.Sleep(10*time.Second - time.Millisecond)
	default:
		panic("unknown op " + op)
	}
	synctest.Wait() // alert handlers run in goroutines of their own
	in.mu.Lock()
	al := append([]map[string]any{}, in.alerts...)
	in.mu.Unlock()
	sort.SliceStable(al, func(i, j int) bool {
		if al[i]["p"].(int) != al[j]["p"].(int) {
			return al[i]["p"].(int) < al[j]["p"].(int)
		}
		return al[i]["h"].(int) < al[j]["h"].(int)
	})
	res["alerts"] = al
	return res
}

func poolsOf(l []*resilience.PoolStatus) []int {
	out := []int{}
	for _, st := range l {
		out = append(out, poolIdx(st.PoolID))
	}
	sort.Ints(out)
	return out
}

func (in *minst) Observe() map[string]any {
	lvl, util, short := []int{}, []int{}, []bool{}
	for p := 1; p <= in.s.NP; p++ {
		l := -1
		if st := in.m.GetPoolStatus(poolName(p)); st != nil {
			l = int(st.Level)
		}
		lvl = append(lvl, l)
		util = append(util, int(math.Round(in.m.GetUtilization(poolName(p))*100)))
		short = append(short, in.m.IsShortLeaseActive(poolName(p)))
	}
	return map[string]any{"lvl": lvl, "util": util, "short": short, "atw": poolsOf(in.m.GetPoolsAtLevel(resilience.LevelWarning)),
		"atc": poolsOf(in.m.GetCriticalPools()), "exh": in.m.HasExhaustedPools()}
}

func (in *minst) Fingerprint() string {
	last := []int{}
	ps := core.Field(in.m, "poolStates")
	for p := 1; p <= in.s.NP; p++ {
		l, a := -1, -1
		for _, k := range ps.MapKeys() {
			if k.String() == poolName(p) {
				st := ps.MapIndex(k)
				l = int(core.FieldOf(st, "LastLevel").Int())
				if ls := core.FieldOf(st, "LastStatus"); !ls.IsNil() {
					a = int(core.FieldOf(ls, "Available").Int())
				}
			}
		}
		last = append(last, l, a)
	}
	pv := []int{}
	for p := 1; p <= in.s.NP; p++ {
		if v, ok := in.prov[p]; ok {
			pv = append(pv, v[0], v[1])
		} else {
			pv = append(pv, -1, -1)
		}
	}
	return fp(in.Observe(), last, pv)
}
func (in *minst) Probe() map[string]any { return nil }
func (in *minst) Close() {
	if in.s.Provider {
		in.m.Stop()
	}
}

/************************************ rad ************************************/

// RSystem: one RADIUSHandler with a scripted RADIUS server.
type RSystem struct {
	bubble
	name  string
	NS    int
	T     int // CachedProfileTTL, minutes
	B     int // AccountingBufferSize
	NRec  int // accounting records offered at most
	NSes  int // degraded sessions issued at most
	Deny  bool
	Auth0 bool // an authenticator is configured from the start
	Ops   []string
	Xs    []string // what the server does during a pass
	Advs  []int
}

func (s *RSystem) Name() string { return s.name }
func (s *RSystem) Config() map[string]any {
	if s.Ops == nil {
		s.Ops = []string{}
	}
	if s.Xs == nil {
		s.Xs = []string{}
	}
	if s.Advs == nil {
		s.Advs = []int{}
	}
	return map[string]any{"kind": "rad", "impl": implOf(s.name), "ns": s.NS, "T": s.T, "B": s.B, "nrec": s.NRec, "nses": s.NSes, "deny": s.Deny, "auth0": s.Auth0,
		"ops": s.Ops, "xs": s.Xs, "advs": s.Advs, "nsubs": 0}
}

func (s *RSystem) Events() []core.Event {
	var evs []core.Event
	for _, op := range s.Ops {
		switch op {
		case "cache", "get", "auth", "purge":
			for i := 1; i <= s.NS; i++ {
				evs = append(evs, mk(op, i, 0, 0, ""))
			}
		case "purgeexp", "buf":
			evs = append(evs, mk(op, 0, 0, 0, ""))
		case "adv":
			for _, dt := range s.Advs {
				evs = append(evs, mk(op, 0, 0, dt, ""))
			}
		case "sync", "proc":
			for _, x := range s.Xs {
				if op == "sync" && x == "reject1" {
					continue
				}
				evs = append(evs, mk(op, 0, 0, 0, x))
			}
		case "setauth":
			evs = append(evs, mk(op, 0, 0, 0, ""), mk(op, 0, 1, 0, ""))
		case "queue":
			for k := 1; k <= s.NSes; k++ {
				evs = append(evs, mk(op, k, 0, 0, ""))
			}
		default:
			panic("unknown op " + op)
		}
	}
	return evs
}

type rinst struct {
	s       *RSystem
	h       *resilience.RADIUSHandler
	srv     *server
	hasauth bool
	nextrec int
	ses     []*resilience.DegradedSession
}

// server is the scripted RADIUS server behind the handler's RADIUSAuthenticator.
type server struct {
	in     *rinst
	mode   string
	calls  int
	cancel context.CancelFunc
	sent   []map[string]any
}

func (a *server) outcome() string {
	a.calls++
	switch {
	case a.mode == "fail", a.mode == "fail1" && a.calls == 1:
		return "fail"
	case a.mode == "cancel1" && a.calls == 1, a.mode == "okcancel" && a.calls == 2:
		a.cancel()
		return "cancel"
	case a.mode == "reject1" && a.calls == 1:
		return "reject"
	}
	return "ok"
}

func sesMAC(s, k int) net.HardwareAddr { return net.HardwareAddr{2, 0, 0, 0, byte(s), byte(k)} }

func (a *server) Authenticate(ctx context.Context, mac net.HardwareAddr, username string) (*resilience.AuthResult, error) {
	r := a.outcome()
	a.sent = append(a.sent, map[string]any{"id": int(mac[5]), "r": r})
	switch r {
	case "ok":
		return &resilience.AuthResult{Success: true, SubscriberID: username}, nil
	case "reject":
		return &resilience.AuthResult{Success: false, Error: "rejected"}, nil
	}
	return nil, errors.New("radius unreachable")
}

func (a *server) SendAccounting(ctx context.Context, rec *resilience.AccountingRecord) error {
	r := a.outcome()
	id := 0
	fmt.Sscanf(rec.SessionID, "r%d", &id)
	a.sent = append(a.sent, map[string]any{"id": id, "r": r})
	if r == "ok" {
		return nil
	}
	return errors.New("radius unreachable")
}

func (a *server) IsReachable(ctx context.Context) bool { return true }

func rsub(i int) string { return fmt.Sprintf("sub-%d", i) }

func (s *RSystem) New() core.Instance {
	cfg := resilience.DefaultPartitionConfig()
	cfg.CachedProfileTTL = time.Duration(s.T) * time.Minute
	cfg.AccountingBufferSize = s.B
	if s.Deny {
		cfg.RADIUSPartitionMode = resilience.RADIUSModeDeny
	}
	in := &rinst{s: s, h: resilience.NewRADIUSHandler(cfg, zap.NewNop())}
	in.srv = &server{in: in}
	if s.Auth0 {
		in.h.SetAuthenticator(in.srv)
		in.hasauth = true
	}
	return in
}

func (in *rinst) queued() []int {
	out := []int{}
	q := core.Field(in.h, "reauthQueue")
	for i := 0; i < q.Len(); i++ {
		mac := core.FieldOf(q.Index(i), "MAC").Bytes()
		out = append(out, int(mac[5]))
	}
	return out
}

func (in *rinst) Apply(ev core.Event) map[string]any {
	time.Sleep(time.Millisecond)
	op, sb, x := fmt.Sprint(ev["op"]), toInt(ev["s"]), fmt.Sprint(ev["x"])
	res := map[string]any{"op": op, "s": sb, "v": toInt(ev["v"]), "dt": toInt(ev["dt"]), "x": x, "ok": true, "err": "", "n": 0, "n2": 0, "id": 0, "sent": []map[string]any{}, "skip": false}
	switch op {
	case "cache":
		in.h.CacheProfile(&resilience.CachedProfile{SubscriberID: rsub(sb), ISPID: "isp"})
	case "get":
		p, ok := in.h.GetCachedProfile(rsub(sb))
		res["ok"] = ok && p != nil && p.SubscriberID == rsub(sb)
	case "auth":
		if len(in.ses) >= in.s.NSes {
			res["skip"] = true
			break
		}
		ses, err := in.h.AuthenticateDegraded(sesMAC(sb, len(in.ses)+1), rsub(sb))
		res["ok"] = err == nil && ses != nil
		var e1 *resilience.NoCachedProfileError
		var e2 *resilience.ProfileExpiredError
		switch {
		case errors.As(err, &e1):
			res["err"] = "nocache"
		case errors.As(err, &e2):
			res["err"] = "expired"
		case err != nil:
			res["err"] = "other"
		}
		if err == nil && ses != nil {
			in.ses = append(in.ses, ses)
			res["id"] = len(in.ses)
			if !ses.NeedsReauth {
				res["err"] = "noreauth"
			}
		}
	case "purge":
		in.h.PurgeCachedProfile(rsub(sb))
	case "purgeexp":
		res["n"] = in.h.PurgeExpiredProfiles()
	case "adv":
		time.Sleep(time.Duration(toInt(ev["dt"])) * time.Minute)
	case "buf":
		if in.nextrec >= in.s.NRec {
			res["skip"] = true
			break
		}
		in.nextrec++
		res["id"] = in.nextrec
		err := in.h.BufferAccounting(&resilience.BufferedAcctRecord{SessionID: fmt.Sprintf("r%d", in.nextrec), StatusType: 3})
		res["ok"] = err == nil
		var e3 *resilience.BufferFullError
		if errors.As(err, &e3) {
			res["err"] = "full"
		} else if err != nil {
			res["err"] = "other"
		}
	case "setauth":
		if toInt(ev["v"]) == 1 {
			in.h.SetAuthenticator(in.srv)
		} else {
			in.h.SetAuthenticator(nil)
		}
		in.hasauth = toInt(ev["v"]) == 1
	case "sync", "proc":
		ctx, cancel := context.WithCancel(context.Background())
		in.srv.mode, in.srv.calls, in.srv.cancel, in.srv.sent = x, 0, cancel, []map[string]any{}
		if op == "sync" {
			res["n"] = in.h.SyncBufferedAccounting(ctx, 100)
		} else {
			res["n"], res["n2"] = in.h.ProcessReauths(ctx, 100)
		}
		cancel()
		res["sent"] = in.srv.sent
	case "queue":
		if sb > len(in.ses) || !in.ses[sb-1].NeedsReauth {
			res["skip"] = true
			break
		}
		for _, k := range in.queued() {
			if k == sb {
				res["skip"] = true
			}
		}
		if res["skip"] == true {
			break
		}
		res["id"] = sb
		in.h.QueueReauth(in.ses[sb-1])
	default:
		panic("unknown op " + op)
	}
	return res
}

func (in *rinst) ages() []int {
	out := []int{}
	pc := core.Field(in.h, "profileCache")
	for i := 1; i <= in.s.NS; i++ {
		a := -1
		for _, k := range pc.MapKeys() {
			if k.String() == rsub(i) {
				at := core.FieldOf(pc.MapIndex(k), "CachedAt").Interface().(time.Time)
				a = int(time.Since(at) / time.Minute)
				if a > in.s.T {
					a = in.s.T
				}
			}
		}
		out = append(out, a)
	}
	return out
}

func (in *rinst) Observe() map[string]any {
	cached, deg := []bool{}, []int{}
	ds := in.h.GetDegradedSessions()
	for i := 1; i <= in.s.NS; i++ {
		p, ok := in.h.GetCachedProfile(rsub(i))
		cached = append(cached, ok && p != nil)
		n := 0
		for _, d := range ds {
			if d.SubscriberID == rsub(i) {
				n++
			}
		}
		deg = append(deg, n)
	}
	pend := []map[string]any{}
	ab := core.Field(in.h, "acctBuffer")
	for i := 0; i < ab.Len(); i++ {
		id := 0
		fmt.Sscanf(core.FieldOf(ab.Index(i), "SessionID").String(), "r%d", &id)
		pend = append(pend, map[string]any{"id": id, "att": int(core.FieldOf(ab.Index(i), "SyncAttempts").Int())})
	}
	da, rc, rf, abf, as, ad := in.h.Stats()
	return map[string]any{"cached": cached, "ccount": in.h.GetCachedProfileCount(), "pend": pend, "pcount": in.h.GetBufferedAccountingCount(),
		"stats": map[string]any{"da": int(da), "rc": int(rc), "rf": int(rf), "ab": int(abf), "as": int(as), "ad": int(ad)},
		"deg": deg, "rq": in.queued(), "rqlen": in.h.GetReauthQueueLength()}
}

func (in *rinst) Fingerprint() string {
	ss := []any{}
	for _, d := range in.ses {
		_, listed := in.h.GetDegradedSession(d.SessionID)
		ss = append(ss, []any{d.SubscriberID, d.NeedsReauth, d.ReauthAttempts, listed})
	}
	return fp(in.Observe(), in.ages(), in.hasauth, in.nextrec, ss)
}
func (in *rinst) Probe() map[string]any { return nil }
func (in *rinst) Close()                {}
