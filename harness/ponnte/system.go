//go:build verif

// Package ponnte binds the PonNte contract (specs/PonNte) to the real pon.Manager of /repo, built on
// the real nexus.Client and nexus.VLANAllocator, under testing/synctest virtual time. The manager's own
// goroutine (processDiscoveryEvents, with the retry loop and its time.Sleep) runs unmodified. The
// harness supplies what production supplies through interfaces: the nexus.Store behind the client (an
// in-memory store with the semantics of nexus.MemoryStore whose Put can be made to fail for NTE records
// and whose watch notifications are delivered before Put/Delete return instead of on a fresh goroutine,
// so that every history is deterministic and a crash of a watcher is containable), the three callbacks
// and the logger (the only place where a dropped discovery event shows). No hook in /repo is used;
// unexported state (the discovery channel's length, the mutex a crash leaves locked) is reached by
// reflection.
package ponnte

import (
	"context"
	"encoding/json"
	"errors"
	"fmt"
	"runtime"
	"runtime/debug"
	"sort"
	"strings"
	"sync"
	"testing"
	"testing/synctest"
	"time"
	"unsafe"

	"github.com/codelaboratoryltd/bng/pkg/nexus"
	"github.com/codelaboratoryltd/bng/pkg/pon"
	"go.uber.org/zap"
	"go.uber.org/zap/zapcore"

	"verifharness/core"
)

// Delay is DiscoveryRetryDelay and the unit of time of the specification. Virtual time advances only
// through the harness event "adv" (one Delay), so every sleep of the retry loop starts and ends on a
// multiple of Delay after the instance was made.
const (
	Delay    = 5 * time.Second
	DeviceID = "olt1"
	STag     = 100
	CMin     = 100
)

var theT *testing.T

var harnessErrs struct {
	sync.Mutex
	l []string
}

func harnessFail(msg string) {
	harnessErrs.Lock()
	if len(harnessErrs.l) < 20 {
		harnessErrs.l = append(harnessErrs.l, msg)
	}
	harnessErrs.Unlock()
}

// go1.25.0: the first WaitGroup.Add inside a bubble allocates a "bubble special" without holding the
// allocator's lock (see harness/failover); Client.Start and Manager.Start are serialised and the
// collector runs only while that lock is held.
var startMu sync.Mutex
var startCount int

func init() { debug.SetGCPercent(-1) }

func guarded(f func()) {
	startMu.Lock()
	defer startMu.Unlock()
	startCount++
	if startCount%3000 == 0 {
		runtime.GC()
	}
	f()
}

// PSystem is one configuration.
type PSystem struct {
	name     string
	N        int   // NTEs (serials SN1..SNn)
	Retries  int   // DiscoveryRetries
	Pairs    int   // VLAN pairs the allocator has (one S-TAG, Pairs C-TAGs)
	SaveFail bool  // "mode" in the alphabet: the store refuses NTE records (SaveNTE fails)
	Pre      []int // NTEs that are provisioned in Nexus before the manager starts (a restart)
	QMax     int   // the harness hands in no further event while the channel holds QMax (0: no bound)
	Flood    bool  // "flood" in the alphabet: fill the channel beyond its capacity while the processor sleeps
	Del      bool  // "del" in the alphabet: the NTE record is deleted in Nexus
	MaxDepth int
}

func (s *PSystem) Name() string { return s.name }

func (s *PSystem) isPre(n int) bool {
	for _, p := range s.Pre {
		if p == n {
			return true
		}
	}
	return false
}

// prePair: the pair a preloaded NTE holds (what the previous incarnation allocated, in order).
func (s *PSystem) prePair(n int) [2]int {
	k := 0
	for _, p := range s.Pre {
		if p == n {
			return [2]int{STag, CMin + k}
		}
		k++
	}
	return [2]int{0, 0}
}

func (s *PSystem) Config() map[string]any {
	pre := make([][2]int, s.N)
	for n := 1; n <= s.N; n++ {
		pre[n-1] = s.prePair(n)
	}
	prel := []int{}
	prel = append(prel, s.Pre...)
	return map[string]any{"impl": s.name, "nnte": s.N, "retries": s.Retries, "qcap": 100, "qmax": s.QMax,
		"smin": STag, "smax": STag, "cmin": CMin, "cmax": CMin + s.Pairs - 1, "pairs": s.Pairs, "savefail": s.SaveFail,
		"pre": pre, "prel": prel, "flood": s.Flood, "del": s.Del, "nsubs": 0}
}

func ev(op string, a int) core.Event { return core.Event{"op": op, "a": a} }

func (s *PSystem) Events() []core.Event {
	var evs []core.Event
	for n := 1; n <= s.N; n++ {
		evs = append(evs, ev("disc", n))
	}
	for n := 1; n <= s.N; n++ {
		evs = append(evs, ev("disco", n))
	}
	evs = append(evs, ev("adv", 1))
	if s.SaveFail {
		evs = append(evs, ev("mode", 0), ev("mode", 1))
	}
	if s.Del {
		for n := 1; n <= s.N; n++ {
			evs = append(evs, ev("del", n))
		}
	}
	if s.Flood {
		evs = append(evs, ev("flood", 1))
	}
	return evs
}

func (s *PSystem) Wrap(f func()) {
	synctest.Test(theT, func(t *testing.T) { f() })
}

// --- the store behind the Nexus client --------------------------------------------------------

var errScripted = errors.New("scripted store failure")

type watcher struct {
	prefix string
	cb     nexus.WatchCallback
}

// hstore has the semantics of nexus.MemoryStore (Delete notifies whether or not the key existed,
// a deletion is notified with a nil value), except that notifications are delivered synchronously.
type hstore struct {
	mu       sync.Mutex
	data     map[string][]byte
	watchers []watcher
	failNTE  bool
}

func (h *hstore) Get(ctx context.Context, key string) ([]byte, error) {
	h.mu.Lock()
	defer h.mu.Unlock()
	if v, ok := h.data[key]; ok {
		return v, nil
	}
	return nil, nexus.ErrNotFound
}

func (h *hstore) notify(key string, value []byte, deleted bool) {
	h.mu.Lock()
	ws := append([]watcher{}, h.watchers...)
	h.mu.Unlock()
	for _, w := range ws {
		if strings.HasPrefix(key, w.prefix) {
			w.cb(key, value, deleted)
		}
	}
}

func (h *hstore) Put(ctx context.Context, key string, value []byte) error {
	h.mu.Lock()
	if h.failNTE && strings.HasPrefix(key, "/nte/") {
		h.mu.Unlock()
		return errScripted
	}
	h.data[key] = value
	h.mu.Unlock()
	h.notify(key, value, false)
	return nil
}

func (h *hstore) Delete(ctx context.Context, key string) error {
	h.mu.Lock()
	delete(h.data, key)
	h.mu.Unlock()
	h.notify(key, nil, true)
	return nil
}

func (h *hstore) Query(ctx context.Context, prefix string) ([]nexus.KeyValue, error) {
	h.mu.Lock()
	defer h.mu.Unlock()
	var keys []string
	for k := range h.data {
		if strings.HasPrefix(k, prefix) {
			keys = append(keys, k)
		}
	}
	sort.Strings(keys)
	var out []nexus.KeyValue
	for _, k := range keys {
		out = append(out, nexus.KeyValue{Key: k, Value: h.data[k]})
	}
	return out, nil
}

func (h *hstore) Watch(prefix string, cb nexus.WatchCallback) {
	h.mu.Lock()
	defer h.mu.Unlock()
	h.watchers = append(h.watchers, watcher{prefix, cb})
}

func (h *hstore) Close() error { return nil }

// dump renders the store's content without the wall-clock fields.
func (h *hstore) dump() string {
	h.mu.Lock()
	defer h.mu.Unlock()
	var keys []string
	for k := range h.data {
		keys = append(keys, k)
	}
	sort.Strings(keys)
	var sb strings.Builder
	for _, k := range keys {
		var m map[string]any
		if json.Unmarshal(h.data[k], &m) == nil {
			for _, f := range []string{"first_seen", "last_seen", "updated_at", "used_at"} {
				delete(m, f)
			}
			b, _ := json.Marshal(m)
			fmt.Fprintf(&sb, "%s=%s;", k, b)
		} else {
			fmt.Fprintf(&sb, "%s=%x;", k, h.data[k])
		}
	}
	return sb.String()
}

// --- the logger: a dropped discovery event is visible only as a warning -----------------------

type dropCore struct {
	zapcore.LevelEnabler
	in *inst
}

func (c *dropCore) With([]zapcore.Field) zapcore.Core { return c }
func (c *dropCore) Check(e zapcore.Entry, ce *zapcore.CheckedEntry) *zapcore.CheckedEntry {
	if c.Enabled(e.Level) {
		return ce.AddCore(e, c)
	}
	return ce
}
func (c *dropCore) Write(e zapcore.Entry, _ []zapcore.Field) error {
	if strings.Contains(e.Message, "dropping event") {
		c.in.mu.Lock()
		c.in.drops++
		c.in.mu.Unlock()
	}
	return nil
}
func (c *dropCore) Sync() error { return nil }

// --- instance -------------------------------------------------------------------------------------

type micro struct {
	k    string // disc | prov | down
	n    int
	ok   bool
	s, c int
	at   time.Time
}

type queued struct {
	e *pon.DiscoveryEvent
	n int
}

type inst struct {
	s   *PSystem
	st  *hstore
	cl  *nexus.Client
	va  *nexus.VLANAllocator
	mgr *pon.Manager
	t0  time.Time

	mu      sync.Mutex
	log     []micro
	drops   int
	queue   []queued // events accepted and not yet announced (mirror of the channel's content)
	cur     int      // announced and still without result
	curAt   time.Time
	closing bool
	dead    bool
	stopped bool
}

func serial(n int) string { return fmt.Sprintf("SN%d", n) }
func nteID(n int) string  { return DeviceID + "-" + serial(n) }
func idxOf(sn string) int {
	var n int
	if _, err := fmt.Sscanf(sn, "SN%d", &n); err != nil || serial(n) != sn {
		return 0
	}
	return n
}

func (s *PSystem) New() core.Instance {
	in := &inst{s: s, t0: time.Now()}
	in.st = &hstore{data: map[string][]byte{}}
	// a restart: records of a previous incarnation
	for _, n := range s.Pre {
		p := s.prePair(n)
		rec := &nexus.NTE{ID: nteID(n), DeviceID: DeviceID, SerialNumber: serial(n), PONPort: fmt.Sprintf("1/1/%d", n),
			STag: uint16(p[0]), CTag: uint16(p[1]), State: "disconnected", Provisioned: true}
		b, _ := json.Marshal(rec)
		in.st.data["/nte/"+nteID(n)] = b
		sub := &nexus.Subscriber{ID: "sub-" + serial(n), NTEID: nteID(n), DeviceID: DeviceID, STag: uint16(p[0]), CTag: uint16(p[1]), ISPID: "isp", State: "active"}
		b, _ = json.Marshal(sub)
		in.st.data["/subscriber/sub-"+serial(n)] = b
	}
	logger := zap.New(&dropCore{LevelEnabler: zapcore.WarnLevel, in: in})
	in.cl = nexus.NewClient(nexus.ClientConfig{DeviceID: DeviceID, HeartbeatInterval: 100000 * time.Hour, SyncInterval: 100000 * time.Hour}, in.st, logger)
	guarded(func() {
		if err := in.cl.Start(); err != nil {
			panic(err)
		}
	})
	in.va = nexus.NewVLANAllocator(nexus.VLANAllocatorConfig{
		STagRange: nexus.VLANRange{Start: STag, End: STag},
		CTagRange: nexus.VLANRange{Start: CMin, End: uint16(CMin + s.Pairs - 1)},
	})
	// what a careful integrator does at start-up (cmd/bng does not): the allocator learns the stored pairs
	if len(s.Pre) > 0 {
		ntes := in.cl.ListNTEs()
		sort.Slice(ntes, func(i, j int) bool { return ntes[i].ID < ntes[j].ID })
		if err := in.va.LoadFromStore(context.Background(), ntes); err != nil {
			panic(err)
		}
	}
	cfg := pon.DefaultManagerConfig()
	cfg.DeviceID = DeviceID
	cfg.DefaultISPID = "isp"
	cfg.DiscoveryRetries = s.Retries
	cfg.DiscoveryRetryDelay = Delay
	in.mgr = pon.NewManager(cfg, in.cl, in.va, logger)
	in.mgr.OnNTEDiscovered(in.onDiscovered)
	in.mgr.OnNTEProvisioned(in.onProvisioned)
	in.mgr.OnNTEDisconnected(in.onDisconnected)
	guarded(func() {
		if err := in.mgr.Start(); err != nil {
			panic(err)
		}
	})
	synctest.Wait()
	return in
}

func (in *inst) onDiscovered(e *pon.DiscoveryEvent) {
	in.mu.Lock()
	defer in.mu.Unlock()
	if in.closing {
		return
	}
	n := idxOf(e.SerialNumber)
	in.log = append(in.log, micro{k: "disc", n: n, at: time.Now()})
	in.unqueue(e)
	in.cur, in.curAt = n, time.Now()
}

func (in *inst) onProvisioned(r *pon.ProvisioningResult) {
	in.mu.Lock()
	defer in.mu.Unlock()
	if in.closing {
		return
	}
	in.log = append(in.log, micro{k: "prov", n: idxOf(r.NTEID), ok: r.Success, s: int(r.STag), c: int(r.CTag), at: time.Now()})
	in.cur = 0
}

func (in *inst) onDisconnected(sn string) {
	in.mu.Lock()
	defer in.mu.Unlock()
	if in.closing {
		return
	}
	in.log = append(in.log, micro{k: "down", n: idxOf(sn), at: time.Now()})
}

func (in *inst) chanLen() int { return core.Field(in.mgr, "discoveryChan").Len() }
func (in *inst) chanCap() int { return core.Field(in.mgr, "discoveryChan").Cap() }

// unlockMgr: a panic inside handleNexusNTEChange leaves Manager.mu write-locked; without this every
// later call (and Stop) would hang instead of being reported.
func (in *inst) unlockMgr() {
	mu := (*sync.RWMutex)(unsafe.Pointer(core.Field(in.mgr, "mu").UnsafeAddr()))
	if mu.TryLock() {
		mu.Unlock()
		return
	}
	mu.Unlock()
}

// unqueue removes the event (by identity) from the mirror; in.mu is held.
func (in *inst) unqueue(e *pon.DiscoveryEvent) {
	for i, q := range in.queue {
		if q.e == e {
			in.queue = append(in.queue[:i:i], in.queue[i+1:]...)
			return
		}
	}
}

// send hands one discovery event in; a drop shows as a warning logged by HandleDiscovery itself.
func (in *inst) send(n int) {
	e := &pon.DiscoveryEvent{SerialNumber: serial(n), PONPort: fmt.Sprintf("1/1/%d", n), Timestamp: time.Now(), State: pon.NTEStateConnected}
	in.mu.Lock()
	in.queue = append(in.queue, queued{e, n})
	d0 := in.drops
	in.mu.Unlock()
	in.mgr.HandleDiscovery(e)
	in.mu.Lock()
	if in.drops > d0 {
		in.unqueue(e)
	}
	in.mu.Unlock()
}

func (in *inst) states() []string {
	out := make([]string, in.s.N)
	for n := 1; n <= in.s.N; n++ {
		out[n-1] = strings.ToLower(in.mgr.GetNTEState(serial(n)).String())
	}
	return out
}

func (in *inst) Apply(e core.Event) map[string]any {
	op := e["op"].(string)
	a := toInt(e["a"])
	start := time.Now()
	in.mu.Lock()
	in.log = in.log[:0]
	drops0 := in.drops
	in.mu.Unlock()
	qb := in.chanLen()
	sent := 0
	noop := false
	switch op {
	case "disc":
		if in.s.QMax > 0 && qb >= in.s.QMax {
			noop = true
			break
		}
		sent = 1
		in.send(a)
	case "flood":
		// only while the processor sleeps between two attempts: nothing is taken from the channel meanwhile
		in.mu.Lock()
		busy := in.cur != 0
		in.mu.Unlock()
		if !busy || qb >= in.chanCap() {
			noop = true
			break
		}
		sent = in.chanCap() - qb + 2
		for i := 0; i < sent; i++ {
			in.send(a)
		}
	case "disco":
		in.mgr.HandleDisconnect(serial(a))
	case "del":
		func() {
			defer func() {
				if r := recover(); r != nil {
					in.dead = true
					in.unlockMgr()
					panic(fmt.Sprintf("pon.Manager panicked on the deletion of the record of %s in Nexus: %v", serial(a), r))
				}
			}()
			in.cl.DeleteNTE(context.Background(), nteID(a))
		}()
	case "mode":
		in.st.mu.Lock()
		in.st.failNTE = a == 1
		in.st.mu.Unlock()
	case "adv":
		time.Sleep(time.Duration(a) * Delay)
	case "noop": // a replayed step that the harness had refused (channel bound, flood while the processor is idle)
		noop = true
	default:
		panic("unknown op " + op)
	}
	synctest.Wait()
	d := time.Since(start)
	if d%Delay != 0 {
		harnessFail(fmt.Sprintf("%s: step %s took %v", in.s.name, op, d))
	}
	in.mu.Lock()
	defer in.mu.Unlock()
	drop := in.drops - drops0
	mic := []map[string]any{}
	for _, m := range in.log {
		off := m.at.Sub(start)
		if off%Delay != 0 {
			harnessFail(fmt.Sprintf("%s: callback %s at %v after the step began", in.s.name, m.k, off))
		}
		mic = append(mic, map[string]any{"k": m.k, "n": m.n, "ok": m.ok, "s": m.s, "c": m.c, "off": int(off / Delay)})
	}
	res := map[string]any{"sent": sent, "drop": drop, "qb": qb, "mic": mic, "dt": int(d / Delay), "st": in.states()}
	if noop {
		res["op"] = "noop"
	}
	return res
}

func (in *inst) Observe() map[string]any {
	st := in.states()
	conn := []int{}
	for _, sn := range in.mgr.ListConnectedNTEs() {
		conn = append(conn, idxOf(sn))
	}
	sort.Ints(conn)
	pend := []int{}
	for _, e := range in.mgr.ListPendingNTEs() {
		pend = append(pend, idxOf(e.SerialNumber))
	}
	sort.Ints(pend)
	ms := in.mgr.Stats()
	rec := make([]map[string]any, in.s.N)
	for n := 1; n <= in.s.N; n++ {
		r := map[string]any{"ex": false, "state": "", "prov": false, "s": 0, "c": 0}
		if nte, ok := in.cl.GetNTEBySerial(serial(n)); ok {
			r = map[string]any{"ex": true, "state": nte.State, "prov": nte.Provisioned, "s": int(nte.STag), "c": int(nte.CTag)}
		}
		rec[n-1] = r
	}
	in.mu.Lock()
	cur := in.cur
	in.mu.Unlock()
	in.st.mu.Lock()
	mode := 0
	if in.st.failNTE {
		mode = 1
	}
	in.st.mu.Unlock()
	return map[string]any{"st": st, "conn": conn, "pend": pend,
		"stats": map[string]any{"total": ms.TotalNTEs, "conn": ms.ConnectedNTEs, "disc": ms.DisconnectedNTEs, "pend": ms.PendingNTEs},
		"rec":   rec, "allocs": in.va.Stats().TotalAllocations, "qlen": in.chanLen(), "cur": cur, "mode": mode}
}

var fpOpt = &core.FPOptions{
	SkipFields: map[string]bool{
		"store": true, // the store is rendered separately (its records carry wall-clock fields)
	},
}

// Fingerprint: every field of the manager by reflection (which includes the Nexus client's caches and
// the VLAN allocator) + the store's content + the channel's content + what the processor goroutine holds
// on its stack (the event it works on and how long it has been at it) + the scripted failure mode.
func (in *inst) Fingerprint() string {
	var sb strings.Builder
	sb.WriteString(core.Fingerprint(in.mgr, fpOpt))
	sb.WriteString("|store=")
	sb.WriteString(in.st.dump())
	in.mu.Lock()
	age := 0
	if in.cur != 0 {
		age = int(time.Since(in.curAt) / Delay)
	}
	sb.WriteString("|queue=")
	for _, q := range in.queue {
		fmt.Fprintf(&sb, "%d,", q.n)
	}
	fmt.Fprintf(&sb, "|cur=%d|age=%d|dead=%t", in.cur, age, in.dead)
	in.mu.Unlock()
	in.st.mu.Lock()
	fmt.Fprintf(&sb, "|fail=%t", in.st.failNTE)
	in.st.mu.Unlock()
	return sb.String()
}

func (in *inst) Probe() map[string]any { return nil }

func (in *inst) Close() {
	in.mu.Lock()
	if in.stopped {
		in.mu.Unlock()
		return
	}
	in.stopped = true
	in.closing = true
	in.mu.Unlock()
	in.st.mu.Lock()
	in.st.failNTE = false
	in.st.mu.Unlock()
	in.mgr.Stop() // the processor finishes the event it works on (virtual time runs on while everything is blocked)
	in.cl.Stop()
	synctest.Wait()
}

func toInt(v any) int {
	switch x := v.(type) {
	case int:
		return x
	case int64:
		return int(x)
	case float64:
		return int(x)
	}
	return 0
}
