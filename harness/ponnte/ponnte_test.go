//go:build verif

package ponnte

import (
	"encoding/json"
	"fmt"
	"math/rand"
	"os"
	"strings"
	"testing"

	"verifharness/core"
)

type replayCase struct {
	ID     string         `json:"id"`
	System string         `json:"system"`
	Events []core.Event   `json:"events"`
	Cfg    map[string]any `json:"cfg"`
}

type replayFile struct {
	Property string       `json:"property"`
	Cases    []replayCase `json:"cases"`
}

type runStats struct {
	Systems     int                `json:"systems"`
	Nodes       int                `json:"nodes"`
	Edges       int                `json:"edges"`
	Chains      int                `json:"chains"`
	ChainEvents int                `json:"chain_events"`
	Closed      int                `json:"closed_systems"`
	Panics      []core.PanicRecord `json:"panics"`
	PerSystem   map[string][3]int  `json:"per_system"`
}

// Catalogue: configurations whose transition tables are extracted (until closed).
func Catalogue(tier string) []*PSystem {
	l := []*PSystem{
		// two NTEs, one retry, the store can refuse NTE records, deletions in Nexus
		{name: "n2-r1-sf", N: 2, Retries: 1, Pairs: 4, SaveFail: true, QMax: 1, Del: true},
		// two NTEs, one VLAN pair: the second NTE cannot be provisioned (exhaustion), no store failures
		{name: "n2-r1-exh", N: 2, Retries: 1, Pairs: 1, QMax: 2, Del: true},
		// a restart: NTE 1 is provisioned in Nexus before the manager starts, no retries
		{name: "n2-r0-pre", N: 2, Retries: 0, Pairs: 2, SaveFail: true, Pre: []int{1}, QMax: 1, Del: true},
	}
	if tier == "thorough" {
		l = append(l,
			&PSystem{name: "n2-r2-sf", N: 2, Retries: 2, Pairs: 4, SaveFail: true, QMax: 1, Del: true},
			&PSystem{name: "n3-r1-exh", N: 3, Retries: 1, Pairs: 2, QMax: 1, Del: true},
			&PSystem{name: "n3-r0-pre", N: 3, Retries: 0, Pairs: 2, SaveFail: true, Pre: []int{2}, QMax: 1, Del: true},
		)
	}
	return l
}

// ChainCatalogue: configurations driven by long seeded random sequences.
func ChainCatalogue() []*PSystem {
	return []*PSystem{
		{name: "rnd-n4", N: 4, Retries: 2, Pairs: 3, SaveFail: true},
		{name: "rnd-n4-pre", N: 4, Retries: 1, Pairs: 4, SaveFail: true, Pre: []int{2, 4}},
		{name: "rnd-flood", N: 2, Retries: 1, Pairs: 2, SaveFail: true, Flood: true},
		{name: "rnd-del", N: 3, Retries: 1, Pairs: 2, SaveFail: true, Del: true},
	}
}

func find(name string) *PSystem {
	for _, s := range append(Catalogue("thorough"), ChainCatalogue()...) {
		if s.name == name {
			return s
		}
	}
	return nil
}

// fromCfg rebuilds a system from the cfg of a replay case (design counterexamples carry their own constants).
func fromCfg(name string, cfg map[string]any) *PSystem {
	if cfg == nil || cfg["nnte"] == nil {
		return nil
	}
	b := func(k string) bool { v, _ := cfg[k].(bool); return v }
	s := &PSystem{name: name, N: toInt(cfg["nnte"]), Retries: toInt(cfg["retries"]), Pairs: toInt(cfg["pairs"]), SaveFail: b("savefail"),
		QMax: toInt(cfg["qmax"]), Flood: b("flood"), Del: b("del")}
	if l, ok := cfg["prel"].([]any); ok {
		for _, k := range l {
			s.Pre = append(s.Pre, toInt(k))
		}
	}
	return s
}

// randomChain draws events; time advances are three times as likely as any other event, deletions (which end the
// chain on the tree as found) rare and late.
func randomChain(sys *PSystem, rng *rand.Rand, n int) []core.Event {
	evs := sys.Events()
	var weighted []core.Event
	for _, e := range evs {
		w := 2
		switch e["op"] {
		case "adv":
			w = 6
		case "del":
			w = 0
		}
		for i := 0; i < w; i++ {
			weighted = append(weighted, e)
		}
	}
	var out []core.Event
	for len(out) < n {
		out = append(out, weighted[rng.Intn(len(weighted))])
	}
	if sys.Del { // one deletion at a random place in the last quarter
		out[n-1-rng.Intn(n/4+1)] = ev("del", 1+rng.Intn(sys.N))
	}
	return out
}

// shortest keeps, of the panics of one exploration, the shortest history per final event (on the tree as found
// every deletion in Nexus crashes the manager: one record per node and NTE otherwise).
func shortest(ps []core.PanicRecord) []core.PanicRecord {
	best := map[string]core.PanicRecord{}
	var keys []string
	for _, p := range ps {
		k := "init"
		if len(p.Path) > 0 {
			k = fmt.Sprint(p.Path[len(p.Path)-1]["op"], "/", p.Path[len(p.Path)-1]["a"])
		}
		b, ok := best[k]
		if !ok {
			keys = append(keys, k)
		}
		if !ok || len(p.Path) < len(b.Path) {
			best[k] = p
		}
	}
	var out []core.PanicRecord
	for _, k := range keys {
		out = append(out, best[k])
	}
	return out
}

func TestExplore(t *testing.T) {
	theT = t
	defer func() {
		harnessErrs.Lock()
		defer harnessErrs.Unlock()
		if len(harnessErrs.l) > 0 {
			t.Fatalf("harness cannot represent the observed behaviour (infrastructure failure, not a verdict):\n%s", strings.Join(harnessErrs.l, "\n"))
		}
	}()
	out := core.OutDir()
	if rf := os.Getenv("VERIF_REPLAY"); rf != "" {
		replay(t, rf, out)
		return
	}
	tier := core.Tier()
	seed := core.Seed()
	maxNodes := 4000
	if v := os.Getenv("VERIF_MAXNODES"); v != "" {
		fmt.Sscan(v, &maxNodes)
	}
	nchains, chainLen := 5, 120
	if tier == "thorough" {
		maxNodes = 40000
		nchains, chainLen = 20, 250
	}
	workers := 0
	if v := os.Getenv("VERIF_WORKERS"); v != "" {
		fmt.Sscan(v, &workers)
	}
	bundle := &core.Bundle{}
	st := runStats{PerSystem: map[string][3]int{}}
	for _, sys := range Catalogue(tier) {
		if only := os.Getenv("VERIF_ONLY"); only != "" && only != sys.Name() {
			continue
		}
		tab, panics, err := core.Explore(sys, core.ExploreOptions{MaxDepth: sys.MaxDepth, MaxNodes: maxNodes, AdequacySample: 20, Seed: seed, Workers: workers})
		if err != nil {
			t.Fatalf("explore %s: %v", sys.Name(), err)
		}
		st.Panics = append(st.Panics, shortest(panics)...)
		bundle.Systems = append(bundle.Systems, tab)
		ne := 0
		for _, es := range tab.Edges {
			ne += len(es)
		}
		c := 0
		if tab.Closed {
			c = 1
			st.Closed++
		}
		st.PerSystem[sys.Name()] = [3]int{len(tab.Nodes), ne, c}
		st.Systems++
		st.Nodes += len(tab.Nodes)
		st.Edges += ne
	}
	rng := rand.New(rand.NewSource(seed))
	for _, sys := range ChainCatalogue() {
		if only := os.Getenv("VERIF_ONLY"); only != "" && only != sys.Name() {
			continue
		}
		for c := 0; c < nchains; c++ {
			seqv := randomChain(sys, rng, chainLen)
			tab, pr := core.Chain(sys, fmt.Sprintf("%s#%d", sys.Name(), c), seqv, false)
			if pr != nil {
				st.Panics = append(st.Panics, *pr)
				continue
			}
			bundle.Systems = append(bundle.Systems, tab)
			st.Chains++
			st.ChainEvents += len(seqv)
		}
	}
	// histories found by TLC on the implementation-shaped design spec (PonNteShape), executed on the real code
	if xf := os.Getenv("VERIF_EXTRA_CASES"); xf != "" {
		b, err := os.ReadFile(xf)
		if err != nil {
			t.Fatal(err)
		}
		var rf replayFile
		if err := json.Unmarshal(b, &rf); err != nil {
			t.Fatal(err)
		}
		for _, c := range rf.Cases {
			sys := fromCfg(c.System, c.Cfg)
			if sys == nil {
				t.Fatalf("extra case %s: no configuration", c.ID)
			}
			tab, pr := core.Chain(sys, c.System+"#"+c.ID, c.Events, false)
			if pr != nil {
				st.Panics = append(st.Panics, *pr)
				continue
			}
			bundle.Systems = append(bundle.Systems, tab)
			st.Chains++
			st.ChainEvents += len(c.Events)
		}
	}
	if err := core.WriteJSON(out, "bundle.json", bundle); err != nil {
		t.Fatal(err)
	}
	if err := core.WriteJSON(out, "stats.json", st); err != nil {
		t.Fatal(err)
	}
}

func replay(t *testing.T, file, out string) {
	b, err := os.ReadFile(file)
	if err != nil {
		t.Fatal(err)
	}
	var rf replayFile
	if err := json.Unmarshal(b, &rf); err != nil {
		t.Fatal(err)
	}
	st := runStats{PerSystem: map[string][3]int{}}
	bundle := &core.Bundle{}
	for _, c := range rf.Cases {
		name := c.System
		if i := strings.IndexByte(name, '#'); i >= 0 {
			name = name[:i]
		}
		sys := find(name)
		if sys == nil {
			sys = fromCfg(name, c.Cfg)
		}
		if sys == nil {
			t.Fatalf("unknown system %q", c.System)
		}
		tab, pr := core.Chain(sys, name+"#"+c.ID, c.Events, false)
		if pr != nil {
			st.Panics = append(st.Panics, *pr)
			continue
		}
		bundle.Systems = append(bundle.Systems, tab)
		st.Chains++
		st.ChainEvents += len(c.Events)
	}
	if err := core.WriteJSON(out, "bundle.json", bundle); err != nil {
		t.Fatal(err)
	}
	core.WriteJSON(out, "stats.json", st)
}
