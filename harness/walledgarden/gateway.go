//go:build verif

package walledgarden

// The second component of extra family X09: the real wifi.Manager of /repo (pkg/wifi/gateway.go, WiFi-gateway sessions),
// bound to specs/WalledGarden/WifiGateway.tla. Same discipline as the walled-garden systems: every instance in its own
// testing/synctest bubble, the cleanup ticker on the bubble's clock, calls half a minute off the ticks.

import (
	"encoding/json"
	"fmt"
	"net"
	"sort"
	"strings"
	"sync"
	"testing"
	"testing/synctest"
	"time"

	"github.com/codelaboratoryltd/bng/pkg/wifi"
	"go.uber.org/zap"

	"verifharness/core"
)

// GSystem is one configuration of the WiFi-gateway manager plus its alphabet.
type GSystem struct {
	name   string
	NM     int
	NIP    int
	L      int  // LeaseDuration, minutes
	GP     int  // GracePeriod, minutes
	Portal bool // CaptivePortalEnabled
	Reuse  bool // an address may be given to a second MAC while the first still has its session
	Advs   []int
}

func (s *GSystem) Name() string { return s.name }

func (s *GSystem) defaults() {
	if s.NIP == 0 {
		s.NIP = s.NM
	}
	if len(s.Advs) == 0 {
		s.Advs = []int{1}
	}
}

func (s *GSystem) Config() map[string]any {
	s.defaults()
	impl := s.name
	if i := strings.IndexByte(impl, '#'); i >= 0 {
		impl = impl[:i]
	}
	c := s.L
	if s.GP > c {
		c = s.GP
	}
	return map[string]any{"kind": "gw", "impl": impl, "nm": s.NM, "nip": s.NIP, "L": s.L, "GP": s.GP, "portal": s.Portal, "reuse": s.Reuse, "cap": c + 3,
		"advs": s.Advs, "nsubs": 0}
}

func gmk(op string, m, ip, dt int) core.Event { return core.Event{"op": op, "m": m, "ip": ip, "dt": dt} }

func (s *GSystem) Events() []core.Event {
	s.defaults()
	var evs []core.Event
	for m := 1; m <= s.NM; m++ {
		own := (m-1)%s.NIP + 1
		evs = append(evs, gmk("create", m, own, 0))
		if s.Reuse {
			for i := 1; i <= s.NIP; i++ {
				if i != own {
					evs = append(evs, gmk("create", m, i, 0))
				}
			}
		}
		for _, o := range []string{"renew", "auth", "release"} {
			evs = append(evs, gmk(o, m, 0, 0))
		}
	}
	for _, dt := range s.Advs {
		evs = append(evs, gmk("adv", 0, 0, dt))
	}
	return evs
}

func (s *GSystem) Wrap(f func()) {
	wraps++
	synctest.Test(theT, func(t *testing.T) { f() })
}

func gwIP(i int) net.IP { return net.IPv4(10, 0, 1, byte(100+i)).To4() }

func gwIPIndex(ip net.IP, n int) int {
	for i := 1; i <= n; i++ {
		if ip != nil && ip.Equal(gwIP(i)) {
			return i
		}
	}
	return 0
}

func gwMACIndex(mac net.HardwareAddr, n int) int {
	for i := 1; i <= n; i++ {
		if mac.String() == macOf(i).String() {
			return i
		}
	}
	return 0
}

type ginst struct {
	s   *GSystem
	mgr *wifi.Manager
	mu  sync.Mutex
	cb  map[string][]int
}

func (s *GSystem) New() core.Instance {
	s.defaults()
	cfg := wifi.DefaultWiFiConfig()
	cfg.LeaseDuration = time.Duration(s.L) * time.Minute
	cfg.GracePeriod = time.Duration(s.GP) * time.Minute
	cfg.CaptivePortalEnabled = s.Portal
	in := &ginst{s: s, mgr: wifi.NewManager(cfg, zap.NewNop()), cb: map[string][]int{}}
	rec := func(kind string) func(*wifi.Session) {
		return func(se *wifi.Session) {
			in.mu.Lock()
			in.cb[kind] = append(in.cb[kind], gwMACIndex(se.MAC, s.NM))
			in.mu.Unlock()
		}
	}
	in.mgr.OnSessionCreate(rec("created"))
	in.mgr.OnSessionAuth(rec("authed"))
	in.mgr.OnSessionExpire(rec("expired"))
	if err := in.mgr.Start(); err != nil {
		panic(err)
	}
	synctest.Wait() // the cleanup goroutine has made its ticker
	time.Sleep(30 * time.Second)
	synctest.Wait()
	return in
}

func (in *ginst) Close() { in.mgr.Stop() }

func (in *ginst) has() map[int]string {
	out := map[int]string{}
	for m := 1; m <= in.s.NM; m++ {
		if se, ok := in.mgr.GetSession(macOf(m)); ok && se != nil {
			out[m] = se.ID
		}
	}
	return out
}

func (in *ginst) Apply(ev core.Event) map[string]any {
	op := fmt.Sprint(ev["op"])
	m, ip, dt := toInt(ev["m"]), toInt(ev["ip"]), toInt(ev["dt"])
	before := in.has()
	in.mu.Lock()
	in.cb = map[string][]int{}
	in.mu.Unlock()
	var err error
	same, rip := true, 0
	switch op {
	case "create":
		var se *wifi.Session
		se, err = in.mgr.CreateSession(macOf(m), fmt.Sprintf("host%d", m), 1, gwIP(ip))
		if se != nil {
			rip = gwIPIndex(se.IP, in.s.NIP)
			if id, was := before[m]; was {
				same = id == se.ID
			}
		}
	case "renew":
		err = in.mgr.RenewSession(macOf(m))
	case "auth":
		err = in.mgr.AuthenticateSession(macOf(m), "portal", fmt.Sprintf("user%d", m))
	case "release":
		err = in.mgr.ReleaseSession(macOf(m))
	case "adv":
		time.Sleep(time.Duration(dt) * time.Minute)
	default:
		panic("unknown op " + op)
	}
	synctest.Wait() // callbacks run on their own goroutines
	after := in.has()
	gone := []int{}
	for i := 1; i <= in.s.NM; i++ {
		if _, was := before[i]; was {
			if _, is := after[i]; !is {
				gone = append(gone, i)
			}
		}
	}
	in.mu.Lock()
	lists := map[string][]int{}
	for _, k := range []string{"created", "authed", "expired"} {
		l := append([]int{}, in.cb[k]...)
		sort.Ints(l)
		lists[k] = l
	}
	in.mu.Unlock()
	es := ""
	if err != nil {
		es = err.Error()
	}
	return map[string]any{"ok": err == nil, "err": es, "gone": gone, "same": same, "rip": rip,
		"created": lists["created"], "authed": lists["authed"], "expired": lists["expired"]}
}

type gmacObs struct {
	Has     bool   `json:"has"`
	IP      int    `json:"ip"`
	Auth    bool   `json:"auth"`
	State   string `json:"state"`
	Left    int    `json:"left"`
	Needs   bool   `json:"needs"`
	InGrace bool   `json:"ingrace"`
	InList  int    `json:"inlist"`
	gleft   int
}

func minutes(d time.Duration) int {
	if d%time.Minute != 0 {
		return 9999
	}
	n := int(d / time.Minute)
	if n < -3 {
		n = -3
	}
	return n
}

func (in *ginst) dump() ([]gmacObs, []map[string]any, int, wifi.Stats) {
	now := time.Now()
	inlist := map[string]int{}
	for _, se := range in.mgr.ListSessions() {
		inlist[se.MAC.String()]++
	}
	var macs []gmacObs
	for m := 1; m <= in.s.NM; m++ {
		mac := macOf(m)
		o := gmacObs{Needs: in.mgr.NeedsAuthentication(mac), InGrace: in.mgr.IsInGracePeriod(mac), InList: inlist[mac.String()], State: ""}
		delete(inlist, mac.String())
		if se, ok := in.mgr.GetSession(mac); ok && se != nil {
			o.Has, o.IP, o.Auth, o.State = true, gwIPIndex(se.IP, in.s.NIP), se.Authenticated, string(se.State)
			o.Left = minutes(se.LeaseExpiry.Sub(now))
			if !se.GracePeriodEnds.IsZero() {
				o.gleft = minutes(se.GracePeriodEnds.Sub(now))
			}
		}
		macs = append(macs, o)
	}
	alien := 0
	for _, n := range inlist {
		alien += n
	}
	var ips []map[string]any
	for i := 1; i <= in.s.NIP; i++ {
		by := 0
		if se, ok := in.mgr.GetSessionByIP(gwIP(i)); ok && se != nil {
			by = gwMACIndex(se.MAC, in.s.NM)
			if by == 0 {
				by = -1
			}
		}
		ips = append(ips, map[string]any{"byip": by})
	}
	return macs, ips, alien, in.mgr.Stats()
}

func (in *ginst) Observe() map[string]any {
	macs, ips, alien, st := in.dump()
	return map[string]any{"macs": macs, "ips": ips, "listalien": alien,
		"stats": map[string]any{"active": st.ActiveSessions, "authd": st.AuthenticatedSessions, "grace": st.GracePeriodSessions}}
}

func (in *ginst) Fingerprint() string {
	macs, ips, alien, st := in.dump()
	b, _ := json.Marshal([]any{macs, ips, alien, st.ActiveSessions, st.AuthenticatedSessions, st.GracePeriodSessions})
	var sb strings.Builder
	sb.Write(b)
	for _, o := range macs {
		fmt.Fprintf(&sb, "|g%d", o.gleft)
	}
	// the unexported address index (it can hold entries no lookup shows)
	it := core.Field(in.mgr, "byIP").MapRange()
	var es []string
	for it.Next() {
		es = append(es, it.Key().String()+"="+it.Value().String())
	}
	sort.Strings(es)
	sb.WriteString("|" + strings.Join(es, ","))
	return sb.String()
}

func (in *ginst) Probe() map[string]any { return nil }

func gwFromCfg(name string, c map[string]any) *GSystem {
	s := &GSystem{name: name, NM: toInt(c["nm"]), NIP: toInt(c["nip"]), L: toInt(c["L"]), GP: toInt(c["GP"])}
	s.Portal, _ = c["portal"].(bool)
	s.Reuse, _ = c["reuse"].(bool)
	if l, ok := c["advs"].([]any); ok {
		for _, x := range l {
			s.Advs = append(s.Advs, toInt(x))
		}
	}
	if s.NM == 0 {
		return nil
	}
	return s
}
