//go:build verif

// Package walledgarden binds the real walledgarden.Manager of /repo (pkg/walledgarden/manager.go) to the WalledGarden
// contract (extra family X09). Every instance lives in its own testing/synctest bubble (the expiry checker's one-minute
// ticker runs on the bubble's virtual clock) and writes through cilium/ebpf into REAL kernel maps created by the
// harness (subscriber map: 8-byte key, 20-byte value = the size cilium/ebpf marshals WalledGardenEntry to; allowed
// destinations: 8-byte key, 12-byte value; statistics: array). The maps are read back raw (lookup / iteration) and
// projected: state byte, VLAN, portal address (which byte order), minutes until ExpiryTime, key fields of the
// allowed-destination entries. There is no walled-garden program under /repo/bpf, so nothing is executed natively.
package walledgarden

import (
	"encoding/binary"
	"fmt"
	"net"
	"reflect"
	"runtime"
	"sort"
	"strings"
	"testing"
	"testing/synctest"
	"time"

	"github.com/cilium/ebpf"
	wg "github.com/codelaboratoryltd/bng/pkg/walledgarden"
	"go.uber.org/zap"

	"verifharness/core"
)

var theT *testing.T

// address table: events and configurations name addresses by index (none of them reads the same backwards)
var addrs = []net.IP{nil,
	net.IPv4(8, 8, 4, 4).To4(), net.IPv4(1, 1, 1, 2).To4(), net.IPv4(10, 255, 255, 1).To4(), net.IPv4(192, 0, 2, 7).To4(), net.IPv4(10, 255, 1, 255).To4()}

func macOf(i int) net.HardwareAddr {
	return net.HardwareAddr{0x02, byte(0x10 + i), 0x22, 0x33, byte(0x40 + i), byte(i)}
}

// canonical key of a MAC: "Key: MAC address (uint64)" - the six bytes as one big-endian number
func keyOf(mac net.HardwareAddr) uint64 {
	var k uint64
	for i := 0; i < 6; i++ {
		k = k<<8 | uint64(mac[i])
	}
	return k
}

// WSystem is one configuration of the manager plus the alphabet it is driven with.
type WSystem struct {
	name     string
	NM       int      // MACs
	Maps     bool     // kernel maps attached before Start
	T        int      // DefaultTimeout in minutes
	Full     int      // capacity of the subscriber map (0: ample)
	Order    bool     // judge the byte order of address fields in this system
	DNS      []int    // AllowedDNS (address indices)
	Portal   [2]int   // portal address index, port
	Custom   [][3]int // AllowedDestinations: address index, port, proto
	Ops      []string // operations in the alphabet (default: all)
	Vlans    []int
	Sets     []int // states given to SetSubscriberState
	Advs     []int // time steps in minutes
	RaceN    int // rounds of a "race" step (two calls on one MAC at once)
}

func (s *WSystem) Name() string { return s.name }

func (s *WSystem) defaults() {
	if len(s.Ops) == 0 {
		s.Ops = []string{"add", "rel", "blk", "rm", "set", "adv"}
	}
	if len(s.Vlans) == 0 {
		s.Vlans = []int{5}
	}
	if s.Sets == nil {
		s.Sets = []int{0}
	}
	if len(s.Advs) == 0 {
		s.Advs = []int{1}
	}
	if s.Portal[0] == 0 {
		s.Portal = [2]int{3, 8080}
	}
	if s.DNS == nil {
		s.DNS = []int{1, 2}
	}
	if s.Custom == nil {
		s.Custom = [][3]int{}
	}
}

func (s *WSystem) Config() map[string]any {
	s.defaults()
	impl := s.name
	if i := strings.IndexByte(impl, '#'); i >= 0 {
		impl = impl[:i]
	}
	return map[string]any{"kind": "wg", "impl": impl, "nm": s.NM, "maps": s.Maps, "T": s.T, "cap": s.T + 3, "full": s.Full, "order": s.Order,
		"dns": s.DNS, "portal": s.Portal, "custom": s.Custom, "ops": s.Ops, "vlans": s.Vlans, "sets": s.Sets, "advs": s.Advs, "nsubs": 0,
		"racen": s.RaceN}
}

func mk(op string, m, st, v, dt int) core.Event {
	return core.Event{"op": op, "m": m, "s": st, "v": v, "dt": dt}
}

func (s *WSystem) Events() []core.Event {
	s.defaults()
	has := map[string]bool{}
	for _, o := range s.Ops {
		has[o] = true
	}
	var evs []core.Event
	for m := 1; m <= s.NM; m++ {
		if has["add"] {
			for _, v := range s.Vlans {
				evs = append(evs, mk("add", m, 0, v, 0))
			}
		}
		for _, o := range []string{"rel", "blk", "rm"} {
			if has[o] {
				evs = append(evs, mk(o, m, 0, 0, 0))
			}
		}
		if has["set"] {
			for _, st := range s.Sets {
				evs = append(evs, mk("set", m, st, 0, 0))
			}
		}
	}
	if has["adv"] {
		for _, dt := range s.Advs {
			evs = append(evs, mk("adv", 0, 0, 0, dt))
		}
	}
	return evs
}

var wraps int

// Wrap runs one replay inside its own bubble (bubbles strictly one after the other).
func (s *WSystem) Wrap(f func()) {
	wraps++
	if wraps%2000 == 0 {
		runtime.GC()
	}
	synctest.Test(theT, func(t *testing.T) { f() })
}

type inst struct {
	s       *WSystem
	mgr     *wg.Manager
	sub     *ebpf.Map
	allowed *ebpf.Map
	stats   *ebpf.Map
	t0      time.Time
}

// MapsUsable reports whether the sandbox lets the harness create kernel maps.
func MapsUsable() error {
	m, err := ebpf.NewMap(&ebpf.MapSpec{Type: ebpf.Hash, KeySize: 8, ValueSize: 20, MaxEntries: 4})
	if err != nil {
		return err
	}
	m.Close()
	return nil
}

func (s *WSystem) New() core.Instance {
	s.defaults()
	cfg := wg.Config{Interface: "verif0", PortalIP: addrs[s.Portal[0]], PortalPort: uint16(s.Portal[1]),
		DefaultTimeout: time.Duration(s.T) * time.Minute, MaxEntries: 64}
	for _, d := range s.DNS {
		cfg.AllowedDNS = append(cfg.AllowedDNS, addrs[d])
	}
	for _, c := range s.Custom {
		cfg.AllowedDestinations = append(cfg.AllowedDestinations, wg.AllowedDestEntry{IP: addrs[c[0]], Port: uint16(c[1]), Proto: uint8(c[2])})
	}
	in := &inst{s: s, mgr: wg.NewManager(cfg, zap.NewNop()), t0: time.Now()}
	if s.Maps {
		n := uint32(64)
		if s.Full > 0 {
			n = uint32(s.Full)
		}
		var err error
		// value size: what cilium/ebpf marshals the Go struct to (binary.Size: fields packed, 20 bytes)
		if in.sub, err = ebpf.NewMap(&ebpf.MapSpec{Type: ebpf.Hash, KeySize: 8, ValueSize: uint32(binary.Size(wg.WalledGardenEntry{})), MaxEntries: n}); err != nil {
			panic(fmt.Sprintf("cannot create the subscriber map: %v", err))
		}
		if in.allowed, err = ebpf.NewMap(&ebpf.MapSpec{Type: ebpf.Hash, KeySize: 8, ValueSize: uint32(binary.Size(wg.AllowedDestination{})), MaxEntries: 32}); err != nil {
			panic(fmt.Sprintf("cannot create the allowed-destination map: %v", err))
		}
		if in.stats, err = ebpf.NewMap(&ebpf.MapSpec{Type: ebpf.Array, KeySize: 4, ValueSize: 8, MaxEntries: 4}); err != nil {
			panic(fmt.Sprintf("cannot create the statistics map: %v", err))
		}
		in.mgr.SetEBPFMaps(in.sub, in.allowed, in.stats)
	}
	if err := in.mgr.Start(); err != nil {
		panic(fmt.Sprintf("Manager.Start: %v", err))
	}
	synctest.Wait() // the expiry checker has made its ticker: it ticks at whole minutes from now
	time.Sleep(30 * time.Second)
	synctest.Wait()
	return in
}

func (in *inst) Close() {
	in.mgr.Stop()
	for _, m := range []*ebpf.Map{in.sub, in.allowed, in.stats} {
		if m != nil {
			m.Close()
		}
	}
}

// tracked reads the manager's unexported table (cache) by reflection.
func (in *inst) tracked() map[uint64]int {
	out := map[uint64]int{}
	mu := core.Field(in.mgr, "mu").Addr().Interface()
	type rlocker interface {
		RLock()
		RUnlock()
	}
	l := mu.(rlocker)
	l.RLock()
	defer l.RUnlock()
	it := core.Field(in.mgr, "cache").MapRange()
	for it.Next() {
		out[it.Key().Uint()] = int(it.Value().Uint())
	}
	return out
}

func toInt(v any) int {
	switch x := v.(type) {
	case int:
		return x
	case float64:
		return int(x)
	case int64:
		return int(x)
	}
	return 0
}

func (in *inst) call(op string, m, st, v int) error {
	switch op {
	case "add":
		return in.mgr.AddToWalledGarden(macOf(m), uint16(v))
	case "rel":
		return in.mgr.ReleaseFromWalledGarden(macOf(m))
	case "blk":
		return in.mgr.BlockMAC(macOf(m))
	case "rm":
		return in.mgr.RemoveMAC(macOf(m))
	case "set":
		return in.mgr.SetSubscriberState(macOf(m), wg.SubscriberState(st))
	}
	panic("unknown op " + op)
}

func (in *inst) Apply(ev core.Event) map[string]any {
	op := fmt.Sprint(ev["op"])
	m, st, v, dt := toInt(ev["m"]), toInt(ev["s"]), toInt(ev["v"]), toInt(ev["dt"])
	before := in.tracked()
	var err error
	switch op {
	case "adv":
		time.Sleep(time.Duration(dt) * time.Minute)
		synctest.Wait()
	case "race":
		err = in.race(m, st, v)
	case "trace":
		err = in.tickRace(m)
	default:
		err = in.call(op, m, st, v)
	}
	after := in.tracked()
	gone := []int{}
	for i := 1; i <= in.s.NM; i++ {
		k := keyOf(macOf(i))
		if _, was := before[k]; was {
			if _, is := after[k]; !is {
				gone = append(gone, i)
			}
		}
	}
	es := ""
	if err != nil {
		es = err.Error()
	}
	return map[string]any{"ok": err == nil, "err": es, "gone": gone}
}

// race: rounds of two calls on one MAC at once (ReleaseFromWalledGarden and BlockMAC by default), until manager and
// kernel map disagree about the MAC or the rounds are used up. No gate: plain goroutines, whatever the scheduler does.
func (in *inst) race(m, a, b int) error {
	n := in.s.RaceN
	if n <= 0 {
		n = 50000
	}
	var errs [2]error
	ops := []string{"", "add", "rel", "blk"}
	for i := 0; i < n; i++ {
		done := make(chan struct{}, 2)
		start := make(chan struct{})
		for i, o := range []int{a, b} {
			i, o := i, o
			go func() {
				<-start
				errs[i] = in.call(ops[o], m, 0, 5)
				done <- struct{}{}
			}()
		}
		close(start)
		<-done
		<-done
		if errs[0] != nil {
			return errs[0]
		}
		if errs[1] != nil {
			return errs[1]
		}
		if in.sub != nil {
			tr := in.tracked()
			raw, err := in.sub.LookupBytes(keyOf(macOf(m)))
			if err == nil && raw != nil && int(raw[0]) != tr[keyOf(macOf(m))] {
				return nil
			}
		}
	}
	return nil
}

// tickRace: rounds of AddToWalledGarden(m) called at the very instant of the checker pass that finds m's previous entry
// expired (a goroutine sleeping until that tick: woken together with the checker, no gate), until the entry set at that
// instant is not tracked / not in the kernel map afterwards, or the rounds are used up. Every round starts half a minute
// off the ticks and ends on the tick; the step as a whole ends on a tick (it is the last step of its chain).
func (in *inst) tickRace(m int) error {
	n := in.s.RaceN
	if n <= 0 {
		n = 50000
	}
	n /= 5
	wait := time.Duration(in.s.T)*time.Minute + 30*time.Second
	for i := 0; i < n; i++ {
		if err := in.call("add", m, 0, 5); err != nil {
			return err
		}
		done := make(chan error, 1)
		go func() {
			time.Sleep(wait)
			done <- in.call("add", m, 0, 5)
		}()
		time.Sleep(wait)
		if err := <-done; err != nil {
			return err
		}
		synctest.Wait() // the checker's pass is over
		k := keyOf(macOf(m))
		st, tracked := in.tracked()[k]
		bad := !tracked || st != 1
		if in.sub != nil {
			raw, err := in.sub.LookupBytes(k)
			bad = bad || err != nil || raw == nil || raw[0] != 1
		}
		if bad || i == n-1 {
			return nil
		}
		time.Sleep(30 * time.Second)
		synctest.Wait()
	}
	return nil
}

func addrIndex(b []byte) (int, string) {
	for i := 1; i < len(addrs); i++ {
		a := addrs[i]
		if b[0] == a[0] && b[1] == a[1] && b[2] == a[2] && b[3] == a[3] {
			return i, "net"
		}
	}
	for i := 1; i < len(addrs); i++ {
		a := addrs[i]
		if b[0] == a[3] && b[1] == a[2] && b[2] == a[1] && b[3] == a[0] {
			return i, "rev"
		}
	}
	return 0, "other"
}

func numIndex(n uint32) int {
	for i := 1; i < len(addrs); i++ {
		if binary.BigEndian.Uint32(addrs[i]) == n || binary.LittleEndian.Uint32(addrs[i]) == n {
			return i
		}
	}
	return 0
}

type macObs struct {
	Tracked bool   `json:"tracked"`
	Get     int    `json:"get"`
	InList  int    `json:"inlist"`
	Present bool   `json:"present"`
	MSt     int    `json:"mst"`
	MVlan   int    `json:"mvlan"`
	MPip    string `json:"mpip"`
	Left    int    `json:"left"`
	rest    string
}

type allowedObs struct {
	IP     int    `json:"ip"`
	Order  string `json:"order"`
	Port   int    `json:"port"`
	Proto  int    `json:"proto"`
	Reason int    `json:"reason"`
	KIP    int    `json:"kip"`
	KPort  int    `json:"kport"`
	KProto int    `json:"kproto"`
	KPad   int    `json:"kpad"`
	key    uint64
	rest   string
}

type dump struct {
	macs      []macObs
	alien     int
	alienKeys string
	listAlien int
	stats     wg.WalledGardenStats
	allowed   []allowedObs
}

func (in *inst) dump() dump {
	var d dump
	tr := in.tracked()
	list := in.mgr.ListWalledGardenMACs()
	inlist := map[string]int{}
	for _, m := range list {
		inlist[m.String()]++
	}
	known := map[uint64]bool{}
	now := time.Now().Unix()
	for i := 1; i <= in.s.NM; i++ {
		mac := macOf(i)
		k := keyOf(mac)
		known[k] = true
		_, t := tr[k]
		o := macObs{Tracked: t, Get: int(in.mgr.GetSubscriberState(mac)), InList: inlist[mac.String()], MPip: "net"}
		delete(inlist, mac.String())
		if in.sub != nil {
			raw, err := in.sub.LookupBytes(k)
			if err == nil && raw != nil {
				// packed layout (cilium/ebpf marshals the Go struct field by field): State, VlanID, pad, PortalIP, ExpiryTime, RedirectURL
				o.Present = true
				o.MSt = int(raw[0])
				o.MVlan = int(binary.NativeEndian.Uint16(raw[1:3]))
				idx, ord := addrIndex(raw[4:8])
				if idx != in.s.Portal[0] {
					ord = "other"
				}
				o.MPip = ord
				left := int64(binary.NativeEndian.Uint64(raw[8:16])) - now
				if left%60 == 0 && left > -100000 && left < 100000 {
					o.Left = int(left / 60)
					if o.Left < -3 { // long expired (an entry that is not subject to expiry): saturate, as the fingerprint does
						o.Left = -3
					}
				} else {
					o.Left = 9999
				}
				o.rest = fmt.Sprintf("%x/%x", raw[3:4], raw[16:20])
			}
		}
		d.macs = append(d.macs, o)
	}
	for _, n := range inlist {
		d.listAlien += n
	}
	if in.sub != nil {
		var k uint64
		var v []byte
		var al []string
		it := in.sub.Iterate()
		for it.Next(&k, &v) {
			if !known[k] {
				d.alien++
				al = append(al, fmt.Sprintf("%x=%x", k, v))
			}
		}
		sort.Strings(al)
		d.alienKeys = strings.Join(al, ",")
	}
	d.stats = in.mgr.Stats()
	d.allowed = []allowedObs{}
	if in.allowed != nil {
		var k uint64
		var v []byte
		it := in.allowed.Iterate()
		for it.Next(&k, &v) {
			idx, ord := addrIndex(v[0:4])
			d.allowed = append(d.allowed, allowedObs{IP: idx, Order: ord, Port: int(binary.NativeEndian.Uint16(v[4:6])), Proto: int(v[6]),
				Reason: int(binary.NativeEndian.Uint32(v[8:12])), KIP: numIndex(uint32(k >> 32)), KPort: int(k >> 16 & 0xffff), KProto: int(k >> 8 & 0xff),
				KPad: int(k & 0xff), key: k, rest: fmt.Sprintf("%x", v[7:8])})
		}
		sort.Slice(d.allowed, func(i, j int) bool { return d.allowed[i].key < d.allowed[j].key })
	}
	return d
}

func (in *inst) Observe() map[string]any {
	d := in.dump()
	return map[string]any{"macs": d.macs, "alien": d.alien, "listalien": d.listAlien,
		"stats":   map[string]any{"total": d.stats.Total, "wg": d.stats.InWalledGarden, "prov": d.stats.Provisioned, "blk": d.stats.Blocked, "unk": d.stats.Unknown},
		"allowed": d.allowed}
}

// Fingerprint: the manager's table, every kernel entry (time left saturating once expired for good), the allowed
// destinations and the phase of the checker's ticker.
func (in *inst) Fingerprint() string {
	d := in.dump()
	var sb strings.Builder
	tr := in.tracked()
	var ks []string
	for k, v := range tr {
		ks = append(ks, fmt.Sprintf("%x:%d", k, v))
	}
	sort.Strings(ks)
	sb.WriteString(strings.Join(ks, ","))
	for _, o := range d.macs {
		left := o.Left
		if left < -3 {
			left = -3
		}
		if !o.Present {
			left = 0
		}
		fmt.Fprintf(&sb, "|%v,%d,%d,%v,%d,%d,%s,%d,%s", o.Tracked, o.Get, o.InList, o.Present, o.MSt, o.MVlan, o.MPip, left, o.rest)
	}
	fmt.Fprintf(&sb, "|alien=%s|la=%d|st=%v|", d.alienKeys, d.listAlien, d.stats)
	for _, a := range d.allowed {
		fmt.Fprintf(&sb, "%x=%d%s,%d,%d,%d,%s;", a.key, a.IP, a.Order, a.Port, a.Proto, a.Reason, a.rest)
	}
	fmt.Fprintf(&sb, "|phase=%d", int(time.Since(in.t0)/time.Second)%60)
	return sb.String()
}

func (in *inst) Probe() map[string]any { return nil }

// fromCfg rebuilds a system from the configuration recorded in a bundle / replay file.
func fromCfg(name string, c map[string]any) *WSystem {
	if c == nil {
		return nil
	}
	s := &WSystem{name: name, NM: toInt(c["nm"]), T: toInt(c["T"]), Full: toInt(c["full"]), RaceN: toInt(c["racen"])}
	s.Maps, _ = c["maps"].(bool)
	s.Order, _ = c["order"].(bool)
	ints := func(v any) []int {
		out := []int{}
		if l, ok := v.([]any); ok {
			for _, x := range l {
				out = append(out, toInt(x))
			}
		}
		return out
	}
	s.DNS = ints(c["dns"])
	if p := ints(c["portal"]); len(p) == 2 {
		s.Portal = [2]int{p[0], p[1]}
	}
	s.Custom = [][3]int{}
	if l, ok := c["custom"].([]any); ok {
		for _, x := range l {
			if t := ints(x); len(t) == 3 {
				s.Custom = append(s.Custom, [3]int{t[0], t[1], t[2]})
			}
		}
	}
	if l, ok := c["ops"].([]any); ok {
		for _, x := range l {
			s.Ops = append(s.Ops, fmt.Sprint(x))
		}
	}
	s.Vlans, s.Sets, s.Advs = ints(c["vlans"]), ints(c["sets"]), ints(c["advs"])
	if s.NM == 0 {
		return nil
	}
	return s
}

var _ = reflect.TypeOf
