//go:build verif

package walledgarden

import (
	"encoding/json"
	"fmt"
	"math/rand"
	"os"
	"strings"
	"testing"

	"verifharness/core"
)

type replayCase struct {
	ID     string         `json:"id"`
	System string         `json:"system"`
	Events []core.Event   `json:"events"`
	Cfg    map[string]any `json:"cfg"`
}

type replayFile struct {
	Property string       `json:"property"`
	Cases    []replayCase `json:"cases"`
}

type runStats struct {
	Systems     int                `json:"systems"`
	Nodes       int                `json:"nodes"`
	Edges       int                `json:"edges"`
	Chains      int                `json:"chains"`
	ChainEvents int                `json:"chain_events"`
	Closed      int                `json:"closed_systems"`
	KernelMaps  bool               `json:"kernel_maps"`
	Panics      []core.PanicRecord `json:"panics"`
	PerSystem   map[string][3]int  `json:"per_system"`
}

// Catalogue: configurations whose transition tables are extracted (until closed).
func Catalogue(tier string) []core.System {
	l := []core.System{
		// manager with kernel maps: every operation, expiry
		&WSystem{name: "map-t2", NM: 2, Maps: true, T: 2, Sets: []int{0}, Advs: []int{1}},
		&WSystem{name: "map-t1", NM: 2, Maps: true, T: 1, Sets: []int{0, 3}, Advs: []int{1, 3}, Vlans: []int{5, 300}},
		&WSystem{name: "map-t0", NM: 1, Maps: true, T: 0, Sets: []int{0, 1, 2, 3}, Advs: []int{1}},
		// a subscriber map with room for two entries and three MACs
		&WSystem{name: "full", NM: 3, Maps: true, T: 2, Full: 2, Ops: []string{"add", "rel", "blk", "rm"}},
		// no kernel maps (the manager as cmd/bng runs it)
		&WSystem{name: "nomap", NM: 2, Maps: false, T: 1, Sets: []int{0, 2}},
		// allowed destinations: triples that differ in one component only, a destination configured twice
		&WSystem{name: "dests", NM: 1, Maps: true, T: 1, Order: true, Ops: []string{"add", "rel", "rm", "adv"}, DNS: []int{1, 2, 1}, Portal: [2]int{3, 53},
			Custom: [][3]int{{1, 53, 6}, {1, 17, 53}, {4, 443, 6}, {4, 443, 17}, {5, 443, 6}, {3, 53, 6}, {2, 13568, 17}}},
	}
	// pkg/wifi gateway sessions
	l = append(l,
		&GSystem{name: "gw-portal", NM: 2, L: 3, GP: 1, Portal: true, Advs: []int{1}},
		&GSystem{name: "gw-open", NM: 2, L: 1, GP: 1, Portal: false, Advs: []int{1, 3}},
		// one address, two MACs: the address is given to the second MAC while the first still has its session
		&GSystem{name: "gw-reuse", NM: 2, NIP: 1, L: 2, GP: 1, Portal: true, Reuse: true, Advs: []int{1}},
	)
	if tier == "thorough" {
		l = append(l,
			&WSystem{name: "map-3", NM: 3, Maps: true, T: 1, Sets: []int{}, Advs: []int{1}},
			&WSystem{name: "map-t3", NM: 2, Maps: true, T: 3, Sets: []int{0, 1, 2, 3}, Advs: []int{1, 2}, Vlans: []int{5, 4094}},
			&WSystem{name: "full-1", NM: 2, Maps: true, T: 1, Full: 1, Sets: []int{0}},
			&GSystem{name: "gw-reuse-2", NM: 2, NIP: 2, L: 2, GP: 2, Portal: true, Reuse: true, Advs: []int{1}},
			&GSystem{name: "gw-grace-long", NM: 2, L: 1, GP: 3, Portal: true, Advs: []int{1, 2}},
		)
	}
	return l
}

// ChainCatalogue: configurations driven by long seeded random sequences.
func ChainCatalogue() []core.System {
	return []core.System{
		&WSystem{name: "rnd-map", NM: 5, Maps: true, T: 3, Sets: []int{0, 1, 2, 3}, Advs: []int{1, 1, 2, 5}, Vlans: []int{1, 5, 4094}},
		&WSystem{name: "rnd-full", NM: 5, Maps: true, T: 2, Full: 3, Sets: []int{0, 3}, Advs: []int{1}},
		&GSystem{name: "rnd-gw", NM: 4, L: 3, GP: 2, Portal: true, Advs: []int{1, 1, 2, 5}},
		&GSystem{name: "rnd-gw-reuse", NM: 4, NIP: 3, L: 2, GP: 1, Portal: true, Reuse: true, Advs: []int{1}},
		&WSystem{name: "rnd-nomap", NM: 4, Maps: false, T: 2, Sets: []int{0, 1, 2, 3}, Advs: []int{1, 4}},
	}
}

func raceSystem() *WSystem {
	return &WSystem{name: "race", NM: 2, Maps: true, T: 1, Ops: []string{"add", "rel", "blk", "rm", "adv", "race", "trace"}, RaceN: 50000}
}

func find(name string) core.System {
	for _, s := range append(append(Catalogue("thorough"), ChainCatalogue()...), raceSystem()) {
		if s.Name() == name {
			return s
		}
	}
	return nil
}

// sysFromCfg rebuilds a system of either kind from the configuration recorded in a bundle / replay file.
func sysFromCfg(name string, c map[string]any) core.System {
	if c == nil {
		return nil
	}
	if c["kind"] == "gw" {
		if g := gwFromCfg(name, c); g != nil {
			return g
		}
		return nil
	}
	if w := fromCfg(name, c); w != nil {
		return w
	}
	return nil
}

func randomChain(sys core.System, rng *rand.Rand, n int) []core.Event {
	evs := sys.Events()
	var out []core.Event
	for len(out) < n {
		out = append(out, evs[rng.Intn(len(evs))])
	}
	return out
}

func TestExplore(t *testing.T) {
	theT = t
	out := core.OutDir()
	if err := MapsUsable(); err != nil {
		t.Fatalf("cannot create kernel maps in this sandbox (infrastructure failure, not a verdict): %v", err)
	}
	if rf := os.Getenv("VERIF_REPLAY"); rf != "" {
		replay(t, rf, out)
		return
	}
	tier := core.Tier()
	seed := core.Seed()
	maxNodes := 8000
	if v := os.Getenv("VERIF_MAXNODES"); v != "" {
		fmt.Sscan(v, &maxNodes)
	}
	nchains, chainLen := 6, 150
	if tier == "thorough" {
		maxNodes = 60000
		nchains, chainLen = 30, 300
	}
	bundle := &core.Bundle{}
	st := runStats{PerSystem: map[string][3]int{}, KernelMaps: true}
	for _, sys := range Catalogue(tier) {
		if only := os.Getenv("VERIF_ONLY"); only != "" && only != sys.Name() {
			continue
		}
		// bubbles strictly one after the other (go1.25.0 bubbles must not overlap)
		tab, panics, err := core.Explore(sys, core.ExploreOptions{MaxNodes: maxNodes, AdequacySample: 20, Seed: seed, Workers: 1})
		if err != nil {
			t.Fatalf("explore %s: %v", sys.Name(), err)
		}
		st.Panics = append(st.Panics, panics...)
		bundle.Systems = append(bundle.Systems, tab)
		ne := 0
		for _, es := range tab.Edges {
			ne += len(es)
		}
		c := 0
		if tab.Closed {
			c = 1
			st.Closed++
		}
		st.PerSystem[sys.Name()] = [3]int{len(tab.Nodes), ne, c}
		st.Systems++
		st.Nodes += len(tab.Nodes)
		st.Edges += ne
	}
	rng := rand.New(rand.NewSource(seed))
	for _, sys := range ChainCatalogue() {
		if only := os.Getenv("VERIF_ONLY"); only != "" && only != sys.Name() {
			continue
		}
		for c := 0; c < nchains; c++ {
			seqv := randomChain(sys, rng, chainLen)
			tab, pr := core.Chain(sys, fmt.Sprintf("%s#%d", sys.Name(), c), seqv, false)
			if pr != nil {
				st.Panics = append(st.Panics, *pr)
				continue
			}
			bundle.Systems = append(bundle.Systems, tab)
			st.Chains++
			st.ChainEvents += len(seqv)
		}
	}
	// two calls at once for one MAC (plain goroutines, no gate; see inst.race): chains only, the outcome is the scheduler's
	if only := os.Getenv("VERIF_ONLY"); only == "" || only == "race" {
		rs := raceSystem()
		for c, seqv := range [][]core.Event{
			{mk("add", 2, 0, 5, 0), mk("race", 1, 2, 3, 0), mk("adv", 0, 0, 0, 1), mk("race", 2, 1, 3, 0)},
			{mk("race", 1, 1, 2, 0), mk("rm", 1, 0, 0, 0), mk("race", 1, 3, 2, 0)},
			{mk("trace", 1, 0, 0, 0)},
		} {
			tab, pr := core.Chain(rs, fmt.Sprintf("race#%d", c), seqv, false)
			if pr != nil {
				st.Panics = append(st.Panics, *pr)
				continue
			}
			bundle.Systems = append(bundle.Systems, tab)
			st.Chains++
			st.ChainEvents += len(seqv)
		}
	}
	// histories found by TLC on the implementation-shaped design spec, executed on the real code
	if xf := os.Getenv("VERIF_EXTRA_CASES"); xf != "" {
		b, err := os.ReadFile(xf)
		if err != nil {
			t.Fatal(err)
		}
		var rf replayFile
		if err := json.Unmarshal(b, &rf); err != nil {
			t.Fatal(err)
		}
		for _, c := range rf.Cases {
			sys := sysFromCfg(c.System, c.Cfg)
			if sys == nil {
				t.Fatalf("extra case %s: no configuration", c.ID)
			}
			evs := clean(c.Events)
			tab, pr := core.Chain(sys, c.System+"#"+c.ID, evs, false)
			if pr != nil {
				st.Panics = append(st.Panics, *pr)
				continue
			}
			bundle.Systems = append(bundle.Systems, tab)
			st.Chains++
			st.ChainEvents += len(evs)
		}
	}
	if err := core.WriteJSON(out, "bundle.json", bundle); err != nil {
		t.Fatal(err)
	}
	if err := core.WriteJSON(out, "stats.json", st); err != nil {
		t.Fatal(err)
	}
}

// clean keeps only the alphabet part of recorded events (results are observed afresh).
func clean(in []core.Event) []core.Event {
	evs := make([]core.Event, 0, len(in))
	for _, e := range in {
		if _, gw := e["ip"]; gw { // a WiFi-gateway step
			evs = append(evs, gmk(fmt.Sprint(e["op"]), toInt(e["m"]), toInt(e["ip"]), toInt(e["dt"])))
			continue
		}
		evs = append(evs, mk(fmt.Sprint(e["op"]), toInt(e["m"]), toInt(e["s"]), toInt(e["v"]), toInt(e["dt"])))
	}
	return evs
}

func replay(t *testing.T, file, out string) {
	b, err := os.ReadFile(file)
	if err != nil {
		t.Fatal(err)
	}
	var rf replayFile
	if err := json.Unmarshal(b, &rf); err != nil {
		t.Fatal(err)
	}
	st := runStats{PerSystem: map[string][3]int{}, KernelMaps: true}
	bundle := &core.Bundle{}
	for _, c := range rf.Cases {
		name := c.System
		if i := strings.IndexByte(name, '#'); i >= 0 {
			name = name[:i]
		}
		sys := find(name)
		if sys == nil {
			sys = sysFromCfg(name, c.Cfg)
		}
		if sys == nil {
			t.Fatalf("unknown system %q", c.System)
		}
		evs := clean(c.Events)
		tab, pr := core.Chain(sys, name+"#"+c.ID, evs, false)
		if pr != nil {
			st.Panics = append(st.Panics, *pr)
			continue
		}
		bundle.Systems = append(bundle.Systems, tab)
		st.Chains++
		st.ChainEvents += len(evs)
	}
	if err := core.WriteJSON(out, "bundle.json", bundle); err != nil {
		t.Fatal(err)
	}
	core.WriteJSON(out, "stats.json", st)
}
