//go:build verif

package subscriberfsm

import (
	"encoding/json"
	"fmt"
	"math/rand"
	"os"
	"strings"
	"testing"

	"verifharness/core"
)

type replayCase struct {
	ID     string         `json:"id"`
	System string         `json:"system"`
	Events []core.Event   `json:"events"`
	Cfg    map[string]any `json:"cfg"`
}

type replayFile struct {
	Property string       `json:"property"`
	Cases    []replayCase `json:"cases"`
}

type runStats struct {
	Systems     int                `json:"systems"`
	Nodes       int                `json:"nodes"`
	Edges       int                `json:"edges"`
	Chains      int                `json:"chains"`
	ChainEvents int                `json:"chain_events"`
	Closed      int                `json:"closed_systems"`
	Panics      []core.PanicRecord `json:"panics"`
	PerSystem   map[string][3]int  `json:"per_system"`
}

var seqOps = []string{"create", "auth:ok", "auth:walled", "auth:fail", "auth:err", "auth:okto", "assign:a", "assign:b6", "assign:x6", "assign:a-", "assign:6",
	"activate", "walled", "unwalled", "activity", "term:admin", "term:user"}

// Catalogue: configurations whose transition tables are extracted (breadth-first, until closed
// unless the node cap of the tier is hit).
func Catalogue(tier string) []*Sys {
	l := []*Sys{
		// one session, the whole sequential alphabet
		{name: "fsm1", N: 1, Max: 1, PoolA: []int{1}, PoolB: []int{2}, U6: 1,
			Ops: []string{"create", "auth:ok", "auth:walled", "auth:fail", "auth:err", "assign:a", "assign:b6", "assign:x6", "assign:a-", "assign:6",
				"activate", "walled", "unwalled", "activity", "term:admin"}},
		// two sessions competing for one unit per pool
		{name: "fsm2", N: 2, Max: 2, PoolA: []int{1}, PoolB: []int{2}, U6: 1, Nodes: 2500,
			Ops: []string{"create", "auth:ok", "auth:walled", "assign:a", "assign:b6", "activate", "unwalled", "term:user"}},
		// capacity: three MACs, two sessions
		{name: "cap", N: 3, Max: 2, Ops: []string{"create", "activate", "term:admin"}},
		// timeouts of one session (defaults 3/2 quanta, authentication result 2/1)
		{name: "time1", N: 1, Max: 1, STO: 3, ITO: 2, ASTO: 2, AITO: 1, Advs: []int{1, 2},
			Ops: []string{"create", "auth:okto", "auth:fail", "activate", "activity", "walled", "term:admin", "tick"}},
		// idle timeout of two sessions
		{name: "time2", N: 2, Max: 2, ITO: 2, Advs: []int{1, 3}, Ops: []string{"create", "activity", "activate", "tick"}},
		// session timeout only
		{name: "time3", N: 2, Max: 2, STO: 2, Advs: []int{1}, Ops: []string{"create", "activity", "term:admin", "tick"}},
		// one call in flight (parked between its critical sections) while others run:
		// Authenticate parked inside the authenticator
		{name: "raceA", N: 1, Max: 1, PoolA: []int{1},
			Ops: []string{"create", "auth:ok", "assign:a", "activate", "walled", "unwalled", "activity", "term:admin", "auth_begin:fail", "auth_begin:ok", "auth_begin:walled", "cont"}},
		// TerminateSession parked after its mark and after the release, AssignAddress parked inside the allocator
		{name: "raceT", N: 2, Max: 2, PoolA: []int{1, 2}, Nodes: 4000,
			Ops: []string{"create", "assign:a", "term:admin", "term_begin", "assign_begin:a", "cont"}},
	}
	if tier == "thorough" {
		for _, s := range l {
			if s.Nodes > 0 {
				s.Nodes *= 20
			}
		}
		l = append(l,
			&Sys{name: "fsm3", N: 3, Max: 2, PoolA: []int{1, 2}, U6: 1, Nodes: 30000,
				Ops: []string{"create", "auth:ok", "auth:walled", "assign:a", "assign:6", "activate", "unwalled", "term:admin"}},
			&Sys{name: "time4", N: 2, Max: 2, STO: 4, ITO: 2, ASTO: 2, AITO: 3, Advs: []int{1, 2}, Nodes: 30000,
				Ops: []string{"create", "auth:okto", "activate", "activity", "tick"}},
		)
	}
	return l
}

// ChainCatalogue: configurations driven by long seeded random sequences.
func ChainCatalogue() []*Sys {
	return []*Sys{
		{name: "rnd", N: 4, Max: 3, PoolA: []int{1, 2}, PoolB: []int{3}, U6: 2, STO: 6, ITO: 3, ASTO: 4, AITO: 2, Advs: []int{1, 2, 4},
			Ops: append(append([]string{}, seqOps...), "tick")},
		{name: "rndrace", N: 3, Max: 3, PoolA: []int{1, 2}, PoolB: []int{3}, U6: 1, ITO: 2, Advs: []int{1, 3},
			Ops: append(append([]string{}, seqOps...), "tick", "auth_begin:ok", "auth_begin:fail", "auth_begin:walled", "term_begin", "assign_begin:a", "assign_begin:b6", "tick_begin", "cont", "activity*")},
	}
}

func find(name string) *Sys {
	for _, s := range append(Catalogue("thorough"), ChainCatalogue()...) {
		if s.name == name {
			return s
		}
	}
	return nil
}

func intList(v any) []int {
	var out []int
	if l, ok := v.([]any); ok {
		for _, x := range l {
			out = append(out, toInt(x))
		}
	}
	return out
}

// fromCfg builds a system from a replay case's cfg (design counterexamples carry their own constants).
func fromCfg(name string, cfg map[string]any) *Sys {
	if cfg == nil || cfg["n"] == nil {
		return nil
	}
	s := &Sys{name: name, N: toInt(cfg["n"]), Max: toInt(cfg["max"]), STO: toInt(cfg["sto"]), ITO: toInt(cfg["ito"]), ASTO: toInt(cfg["asto"]), AITO: toInt(cfg["aito"]),
		PoolA: intList(cfg["poola"]), PoolB: intList(cfg["poolb"]), U6: toInt(cfg["u6"]), Advs: intList(cfg["advs"])}
	if l, ok := cfg["ops"].([]any); ok {
		for _, x := range l {
			s.Ops = append(s.Ops, fmt.Sprint(x))
		}
	}
	return s
}

// chainOf draws a random event sequence: create is drawn more often than the other calls (a
// session must exist for them to do anything), and once a call is in flight "cont" is drawn often.
func chainOf(rng *rand.Rand, s *Sys, n int) []core.Event {
	var evs []core.Event
	var cont core.Event
	for _, e := range s.Events() {
		w := 1
		switch e["op"] {
		case "create":
			w = 6
		case "cont":
			cont = e
		case "auth", "assign", "adv":
			w = 2
		case "tick", "tick_begin":
			w = 4
		}
		for i := 0; i < w; i++ {
			evs = append(evs, e)
		}
	}
	var out []core.Event
	inflight := false
	for i := 0; i < n; i++ {
		e := evs[rng.Intn(len(evs))]
		if inflight && cont != nil && rng.Intn(4) == 0 {
			e = cont
		}
		op := e["op"].(string)
		if strings.HasSuffix(op, "_begin") {
			inflight = true
		}
		if op == "cont" && rng.Intn(2) == 0 {
			inflight = false
		}
		out = append(out, e)
	}
	return out
}

func TestExplore(t *testing.T) {
	theT = t
	defer func() {
		harnessErrs.Lock()
		defer harnessErrs.Unlock()
		if len(harnessErrs.l) > 0 {
			t.Fatalf("harness cannot represent the observed behaviour (infrastructure failure, not a verdict):\n%s", strings.Join(harnessErrs.l, "\n"))
		}
	}()
	out := core.OutDir()
	if rf := os.Getenv("VERIF_REPLAY"); rf != "" {
		replay(t, rf, out)
		return
	}
	tier, seed := core.Tier(), core.Seed()
	nchains, chainLen := 6, 250
	if tier == "thorough" {
		nchains, chainLen = 60, 500
	}
	workers := 6
	if v := os.Getenv("VERIF_WORKERS"); v != "" {
		fmt.Sscan(v, &workers)
	}
	bundle := &core.Bundle{}
	st := runStats{PerSystem: map[string][3]int{}}
	only := os.Getenv("VERIF_ONLY")
	for _, sys := range Catalogue(tier) {
		if only != "" && only != sys.Name() {
			continue
		}
		tab, panics, err := core.Explore(sys, core.ExploreOptions{MaxDepth: sys.Depth, MaxNodes: sys.Nodes, Workers: workers, AdequacySample: 20, Seed: seed})
		if err != nil {
			t.Fatalf("explore %s: %v", sys.Name(), err)
		}
		st.Panics = append(st.Panics, panics...)
		bundle.Systems = append(bundle.Systems, tab)
		ne := 0
		for _, es := range tab.Edges {
			ne += len(es)
		}
		c := 0
		if tab.Closed {
			c = 1
			st.Closed++
		}
		st.PerSystem[sys.Name()] = [3]int{len(tab.Nodes), ne, c}
		st.Systems++
		st.Nodes += len(tab.Nodes)
		st.Edges += ne
	}
	rng := rand.New(rand.NewSource(seed))
	for _, sys := range ChainCatalogue() {
		if only != "" && only != sys.Name() {
			continue
		}
		for c := 0; c < nchains; c++ {
			seqv := chainOf(rng, sys, chainLen)
			tab, pr := core.Chain(sys, fmt.Sprintf("%s#%d", sys.Name(), c), seqv, false)
			if pr != nil {
				st.Panics = append(st.Panics, *pr)
				continue
			}
			bundle.Systems = append(bundle.Systems, tab)
			st.Chains++
			st.ChainEvents += len(seqv)
		}
	}
	// histories found by TLC on the implementation-shaped design spec, executed on the real code
	if xf := os.Getenv("VERIF_EXTRA_CASES"); xf != "" {
		b, err := os.ReadFile(xf)
		if err != nil {
			t.Fatal(err)
		}
		var rf replayFile
		if err := json.Unmarshal(b, &rf); err != nil {
			t.Fatal(err)
		}
		for _, c := range rf.Cases {
			sys := fromCfg(c.System, c.Cfg)
			if sys == nil {
				t.Fatalf("extra case %s: no configuration", c.ID)
			}
			tab, pr := core.Chain(sys, c.System+"#"+c.ID, c.Events, false)
			if pr != nil {
				st.Panics = append(st.Panics, *pr)
				continue
			}
			bundle.Systems = append(bundle.Systems, tab)
			st.Chains++
			st.ChainEvents += len(c.Events)
		}
	}
	if err := core.WriteJSON(out, "bundle.json", bundle); err != nil {
		t.Fatal(err)
	}
	if err := core.WriteJSON(out, "stats.json", st); err != nil {
		t.Fatal(err)
	}
}

func replay(t *testing.T, file, out string) {
	b, err := os.ReadFile(file)
	if err != nil {
		t.Fatal(err)
	}
	var rf replayFile
	if err := json.Unmarshal(b, &rf); err != nil {
		t.Fatal(err)
	}
	st := runStats{PerSystem: map[string][3]int{}}
	bundle := &core.Bundle{}
	for _, c := range rf.Cases {
		name := c.System
		if i := strings.IndexByte(name, '#'); i >= 0 {
			name = name[:i]
		}
		sys := find(name)
		if sys == nil {
			sys = fromCfg(name, c.Cfg)
		}
		if sys == nil {
			t.Fatalf("unknown system %q", c.System)
		}
		tab, pr := core.Chain(sys, name+"#"+c.ID, c.Events, false)
		if pr != nil {
			st.Panics = append(st.Panics, *pr)
			continue
		}
		bundle.Systems = append(bundle.Systems, tab)
		st.Chains++
		st.ChainEvents += len(c.Events)
	}
	if err := core.WriteJSON(out, "bundle.json", bundle); err != nil {
		t.Fatal(err)
	}
	core.WriteJSON(out, "stats.json", st)
}
