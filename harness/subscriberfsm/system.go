//go:build verif

// Package subscriberfsm binds the SubscriberFsm contract (specs/SubscriberFsm) to the real
// subscriber.Manager of /repo (pkg/subscriber/manager.go): the session state machine itself -
// which state follows which call, the by-MAC / by-IP indexes, the statistics, the events
// delivered to registered handlers, the idle / session timeouts of the cleanup pass.
//
// The harness only executes, observes and projects (session id -> slot, address -> unit,
// duration -> quanta); every verdict is TLC's (SubscriberFsmImpl.tla).
//
// Everything runs inside testing/synctest bubbles: time is virtual, one quantum = 1 minute,
// time only advances in "adv" events. The cleanup loop is never started; one pass of it is
// the event "tick" (VerifCleanupExpired, the loop body).
//
// Concurrency: the manager's calls that consist of several critical sections (Authenticate,
// AssignAddress, TerminateSession, the cleanup pass) can be started on a second goroutine
// (events auth_begin / assign_begin / term_begin / tick_begin). That goroutine parks at the
// points at which the real code holds no lock and calls out: inside the Authenticator, inside
// the AddressAllocator (both are the harness' own: they are the manager's environment) and at
// the verif gate "terminate.afterMark"; the event "cont" lets it run to its next park point or
// to completion. At most one call is in flight at a time, every other call runs to completion
// on the harness goroutine while the in-flight one is parked, so every schedule is deterministic.
package subscriberfsm

import (
	"context"
	"errors"
	"fmt"
	"net"
	"sort"
	"strings"
	"sync"
	"testing"
	"testing/synctest"
	"time"

	"github.com/codelaboratoryltd/bng/pkg/subscriber"
	"go.uber.org/zap"

	"verifharness/core"
)

// Quantum is the virtual-time unit of the alphabet.
const Quantum = time.Minute

var theT *testing.T

// harnessFail records a condition the harness cannot represent faithfully; TestExplore then
// fails (infrastructure failure, never a verdict).
var harnessErrs struct {
	sync.Mutex
	l []string
}

func harnessFail(msg string) {
	harnessErrs.Lock()
	if len(harnessErrs.l) < 20 {
		harnessErrs.l = append(harnessErrs.l, msg)
	}
	harnessErrs.Unlock()
}

// Sys is one configuration of manager + environment.
type Sys struct {
	name       string
	N          int   // slots (= MAC addresses)
	Max        int   // ManagerConfig.MaxSessions
	STO, ITO   int   // default session / idle timeout in quanta (0 = none)
	ASTO, AITO int   // timeouts carried by the authentication result "okto"
	PoolA      []int // IPv4 units of pool "a"
	PoolB      []int // IPv4 units of pool "b"
	U6         int   // IPv6 units 1..U6 of pool "6"
	Ops        []string
	Advs       []int
	Depth      int
	Nodes      int
}

func (s *Sys) u4() int {
	m := 0
	for _, u := range append(append([]int{}, s.PoolA...), s.PoolB...) {
		if u > m {
			m = u
		}
	}
	return m
}

// ageCap: ages are reported (fingerprint) and kept (ghost) saturated one quantum above the
// largest timeout any session of this system can have.
func (s *Sys) ageCap() int {
	m := 0
	for _, v := range []int{s.STO, s.ITO, s.ASTO, s.AITO} {
		if v > m {
			m = v
		}
	}
	return m + 1
}

func (s *Sys) Name() string { return s.name }

func (s *Sys) Config() map[string]any {
	return map[string]any{"impl": s.name, "n": s.N, "max": s.Max, "sto": s.STO, "ito": s.ITO, "asto": s.ASTO, "aito": s.AITO,
		"cap": s.ageCap(), "u4": s.u4(), "u6": s.U6, "nsubs": s.N,
		"poola": ints(s.PoolA), "poolb": ints(s.PoolB), "ops": s.Ops, "advs": ints(s.Advs)}
}

func ints(a []int) []int {
	if a == nil {
		return []int{}
	}
	return a
}

func ev(op string, k int, a string, q int) core.Event {
	return core.Event{"op": op, "s": k, "a": a, "q": q}
}

// Events expands the op list of the system: "op" or "op:variant"; per-slot ops are repeated for every slot.
func (s *Sys) Events() []core.Event {
	var out []core.Event
	// "op*" = the call is made for every session (s = 0)
	global := func(op string) bool {
		return op == "tick" || op == "tick_begin" || op == "cont" || strings.HasSuffix(op, "*")
	}
	for k := 1; k <= s.N; k++ {
		for _, o := range s.Ops {
			op, a, _ := strings.Cut(o, ":")
			if global(op) {
				continue
			}
			out = append(out, ev(op, k, a, 0))
		}
	}
	for _, o := range s.Ops {
		op, a, _ := strings.Cut(o, ":")
		if global(op) {
			out = append(out, ev(strings.TrimSuffix(op, "*"), 0, a, 0))
		}
	}
	for _, q := range s.Advs {
		out = append(out, ev("adv", 0, "", q))
	}
	return out
}

func (s *Sys) Wrap(f func()) { synctest.Test(theT, func(t *testing.T) { f() }) }

func mac(k int) net.HardwareAddr { return net.HardwareAddr{0x02, 0, 0, 0, 0x58, byte(k)} }
func ip4(u int) net.IP           { return net.IPv4(10, 88, 0, byte(u)).To4() }
func ip6(u int) net.IP {
	ip := net.ParseIP("2001:db8:58::")
	ip[15] = byte(u)
	return ip
}
func unit4(ip net.IP) int {
	if ip == nil {
		return 0
	}
	if v4 := ip.To4(); v4 != nil && v4[0] == 10 && v4[1] == 88 && v4[2] == 0 && v4[3] >= 1 {
		return int(v4[3])
	}
	return -1
}
func unit6(ip net.IP) int {
	if ip == nil {
		return 0
	}
	base := ip6(0)
	if len(ip) == 16 && ip.To4() == nil && ip[:15].Equal(base[:15]) && ip[15] >= 1 {
		return int(ip[15])
	}
	return -1
}

// --- environment: allocator and authenticator (harness-owned) -------------------------

type alloc struct {
	in   *inst
	mu   sync.Mutex
	own4 map[int]string // unit -> session id
	own6 map[int]string
}

func (a *alloc) pool(name string) ([]int, bool) {
	switch name {
	case "a":
		return a.in.s.PoolA, true
	case "b":
		return a.in.s.PoolB, true
	}
	return nil, false
}

// AllocateIPv4: the unit the session already holds in the pool, else the lowest free unit of the
// pool. Nothing is ever freed except by ReleaseIPv4 (like the allocators cmd/bng wires in: an
// address of another pool the session held before stays allocated).
func (a *alloc) AllocateIPv4(ctx context.Context, session *subscriber.Session, poolID string) (net.IP, net.IPMask, net.IP, error) {
	units, ok := a.pool(poolID)
	if !ok {
		return nil, nil, nil, fmt.Errorf("unknown pool %q", poolID)
	}
	a.mu.Lock()
	got := 0
	for _, u := range units {
		if a.own4[u] == session.ID {
			got = u
		}
	}
	if got == 0 {
		for _, u := range units {
			if _, used := a.own4[u]; !used {
				got = u
				break
			}
		}
	}
	if got == 0 {
		a.mu.Unlock()
		return nil, nil, nil, errors.New("pool exhausted")
	}
	a.own4[got] = session.ID
	a.mu.Unlock()
	a.in.setLast4(got)
	a.in.park("alloc4")
	return ip4(got), net.CIDRMask(24, 32), ip4(254), nil
}

func (a *alloc) AllocateIPv6(ctx context.Context, session *subscriber.Session, poolID string) (net.IP, *net.IPNet, error) {
	if poolID != "6" {
		return nil, nil, fmt.Errorf("unknown pool %q", poolID)
	}
	a.mu.Lock()
	defer a.mu.Unlock()
	got := 0
	for u := 1; u <= a.in.s.U6; u++ {
		if a.own6[u] == session.ID {
			got = u
		}
	}
	if got == 0 {
		for u := 1; u <= a.in.s.U6; u++ {
			if _, used := a.own6[u]; !used {
				got = u
				break
			}
		}
	}
	if got == 0 {
		return nil, nil, errors.New("pool exhausted")
	}
	a.own6[got] = session.ID
	a.in.setLast6(got)
	return ip6(got), &net.IPNet{IP: net.ParseIP("2001:db8:58:100::"), Mask: net.CIDRMask(64, 128)}, nil
}

func (a *alloc) ReleaseIPv4(ctx context.Context, ip net.IP) error {
	a.mu.Lock()
	delete(a.own4, unit4(ip))
	a.mu.Unlock()
	a.in.park("release4")
	return nil
}

func (a *alloc) ReleaseIPv6(ctx context.Context, ip net.IP) error {
	a.mu.Lock()
	delete(a.own6, unit6(ip))
	a.mu.Unlock()
	return nil
}

type authn struct{ in *inst }

func (a authn) Authenticate(ctx context.Context, req *subscriber.SessionRequest) (*subscriber.AuthResult, error) {
	v := a.in.takeAuthVariant()
	a.in.park("auth")
	q := func(n int) time.Duration { return time.Duration(n) * Quantum }
	switch v {
	case "ok":
		return &subscriber.AuthResult{Success: true, SubscriberID: "sub-" + req.MAC.String(), ISPID: "isp"}, nil
	case "okto":
		return &subscriber.AuthResult{Success: true, SubscriberID: "sub-" + req.MAC.String(), ISPID: "isp",
			SessionTimeout: q(a.in.s.ASTO), IdleTimeout: q(a.in.s.AITO)}, nil
	case "walled":
		return &subscriber.AuthResult{Success: true, SubscriberID: "sub-" + req.MAC.String(), ISPID: "isp", WalledGarden: true, WalledReason: "unknown"}, nil
	case "fail":
		return &subscriber.AuthResult{Success: false, Error: "rejected"}, nil
	case "err":
		return nil, errors.New("authentication backend unreachable")
	}
	panic("unknown auth variant " + v)
}

// --- instance ---------------------------------------------------------------------------

type evrec struct {
	id, typ, old, new, reason string
}

type worker struct {
	kind    string // "auth" | "term" | "assign" | "tick"
	slot    int
	variant string
	old     string // state of the slot's session when the call began
	point   string // where it is parked
	armed   map[string]bool
	done    chan struct{}
	ok      bool // result of the call (set before done is closed)
}

type inst struct {
	s   *Sys
	mgr *subscriber.Manager
	al  *alloc
	id  map[int]string // slot -> id of its latest session

	mu         sync.Mutex
	log        [2][]evrec
	last4      int
	last6      int
	authV      string
	mainActive bool
	w          *worker
	arrived    chan struct{}
	resume     chan struct{}
}

func (in *inst) setLast4(u int) { in.mu.Lock(); in.last4 = u; in.mu.Unlock() }
func (in *inst) setLast6(u int) { in.mu.Lock(); in.last6 = u; in.mu.Unlock() }
func (in *inst) takeAuthVariant() string {
	in.mu.Lock()
	defer in.mu.Unlock()
	return in.authV
}

// park holds the in-flight goroutine at a point it has armed; calls made by the harness
// goroutine itself never park.
func (in *inst) park(point string) {
	in.mu.Lock()
	w := in.w
	if w == nil || in.mainActive || !w.armed[point] {
		in.mu.Unlock()
		return
	}
	w.point = point
	in.mu.Unlock()
	in.arrived <- struct{}{}
	<-in.resume
}

func (s *Sys) New() core.Instance {
	q := func(n int) time.Duration { return time.Duration(n) * Quantum }
	cfg := subscriber.ManagerConfig{CleanupInterval: time.Hour, AuthTimeout: 24 * time.Hour, MaxSessions: s.Max,
		DefaultSessionTimeout: q(s.STO), DefaultIdleTimeout: q(s.ITO)}
	in := &inst{s: s, id: map[int]string{}, arrived: make(chan struct{}), resume: make(chan struct{})}
	in.al = &alloc{in: in, own4: map[int]string{}, own6: map[int]string{}}
	in.mgr = subscriber.NewManager(cfg, authn{in}, in.al, zap.NewNop())
	for h := 0; h < 2; h++ {
		h := h
		in.mgr.OnEvent(func(e *subscriber.SessionEvent) {
			in.mu.Lock()
			in.log[h] = append(in.log[h], evrec{e.SessionID, string(e.Type), string(e.OldState), string(e.NewState), e.Reason})
			in.mu.Unlock()
		})
	}
	subscriber.VerifSetGate(in.mgr, func(point string) { in.park(point) })
	return in
}

func (in *inst) sid(k int) string {
	if id, ok := in.id[k]; ok {
		return id
	}
	return fmt.Sprintf("no-such-session-%d", k)
}

func (in *inst) slotOf(id string) int {
	for k, v := range in.id {
		if v == id {
			return k
		}
	}
	return 0
}

func (in *inst) stateOf(k int) string {
	if ss, ok := in.mgr.GetSession(in.sid(k)); ok && ss != nil {
		return string(ss.State)
	}
	return "none"
}

// variants of assign: IPv4 pool / IPv6 pool
func pools(a string) (string, string) {
	switch a {
	case "a":
		return "a", ""
	case "b6":
		return "b", "6"
	case "x6":
		return "x", "6" // the IPv4 pool does not exist: the call fails
	case "a-":
		return "a", "bad" // the IPv6 pool does not exist: not fatal
	case "6":
		return "", "6"
	}
	panic("unknown assign variant " + a)
}

var reasons = map[string]subscriber.TerminateReason{"": subscriber.TerminateAdminReset, "admin": subscriber.TerminateAdminReset, "user": subscriber.TerminateUserRequest}

// call runs one public call of the manager to completion on the calling goroutine.
func (in *inst) call(op string, k int, a string) bool {
	ctx := context.Background()
	id := in.sid(k)
	switch op {
	case "create":
		ss, err := in.mgr.CreateSession(ctx, &subscriber.SessionRequest{MAC: mac(k), Type: subscriber.SessionTypeIPoE, NTEID: fmt.Sprintf("nte-%d", k), STag: 100, CTag: uint16(k)})
		if err == nil {
			in.id[k] = ss.ID
		}
		return err == nil
	case "auth":
		in.mu.Lock()
		in.authV = a
		in.mu.Unlock()
		_, err := in.mgr.Authenticate(ctx, id)
		return err == nil
	case "assign":
		p4, p6 := pools(a)
		return in.mgr.AssignAddress(ctx, id, p4, p6) == nil
	case "activate":
		return in.mgr.ActivateSession(id) == nil
	case "walled":
		return in.mgr.SetWalledGarden(id, "verif") == nil
	case "unwalled":
		return in.mgr.ClearWalledGarden(id) == nil
	case "activity":
		if k == 0 { // every session except the one a parked cleanup pass is ending right now
			v := in.victim()
			for j := 1; j <= in.s.N; j++ {
				if j != v {
					in.mgr.UpdateActivity(in.sid(j), 1, 1, 1, 1)
				}
			}
			return true
		}
		return in.mgr.UpdateActivity(id, 1, 1, 1, 1) == nil
	case "term":
		return in.mgr.TerminateSession(ctx, id, reasons[a]) == nil
	case "tick":
		in.mgr.VerifCleanupExpired()
		return true
	}
	panic("unknown op " + op)
}

var armedPoints = map[string]map[string]bool{
	"auth":   {"auth": true},
	"term":   {"terminate.afterMark": true, "release4": true},
	"assign": {"alloc4": true},
	"tick":   {"terminate.afterMark": true},
}

// allowedDuring: what the harness goroutine may call while a call of kind w.kind on slot w.slot is parked.
func allowedDuring(w *worker, victim int, op string, k int) bool {
	switch op {
	case "adv", "tick", "auth_begin", "term_begin", "assign_begin", "tick_begin":
		return false
	}
	if k == 0 { // a call made for every session: only while nothing or a cleanup pass is in flight
		return w.kind == "tick" && op == "activity"
	}
	switch w.kind {
	case "auth":
		if k == w.slot {
			return op == "walled" || op == "unwalled" || op == "activate" || op == "activity"
		}
		return true
	case "term":
		return k != w.slot
	case "assign":
		if k == w.slot {
			return op == "term"
		}
		return true
	}
	return false
}

// victim: the slot whose session the parked cleanup pass is terminating right now.
func (in *inst) victim() int {
	if in.w == nil || in.w.kind != "tick" {
		return 0
	}
	for k := 1; k <= in.s.N; k++ {
		if in.stateOf(k) == string(subscriber.StateTerminating) {
			return k
		}
	}
	return 0
}

// wait blocks until the in-flight goroutine parks (false) or finishes (true).
func (in *inst) wait() bool {
	select {
	case <-in.arrived:
		return false
	case <-in.w.done:
		in.w = nil
		return true
	}
}

func (in *inst) Apply(e core.Event) map[string]any {
	op := e["op"].(string)
	k := toInt(e["s"])
	a, _ := e["a"].(string)
	q := toInt(e["q"])
	st0 := in.mgr.Stats()
	in.mu.Lock()
	in.log[0], in.log[1] = nil, nil
	in.last4, in.last6 = 0, 0
	in.mu.Unlock()
	ok, done, skip := true, true, false
	point := ""
	switch {
	case op == "adv":
		if in.w != nil {
			skip = true
			break
		}
		time.Sleep(time.Duration(q) * Quantum)
	case op == "cont":
		if in.w == nil {
			skip = true
			break
		}
		w := in.w
		in.resume <- struct{}{}
		done = in.wait()
		if done {
			ok = w.ok
		} else {
			point = w.point
		}
	case strings.HasSuffix(op, "_begin"):
		if in.w != nil {
			skip = true
			break
		}
		base := strings.TrimSuffix(op, "_begin")
		w := &worker{kind: base, slot: k, variant: a, old: in.stateOf(k), armed: armedPoints[base], done: make(chan struct{})}
		in.mu.Lock()
		in.w = w
		in.mu.Unlock()
		go func() {
			w.ok = in.call(base, k, a)
			close(w.done)
		}()
		done = in.wait()
		if done {
			ok = w.ok
		} else {
			point = w.point
		}
	default:
		if in.w != nil && !allowedDuring(in.w, in.victim(), op, k) {
			skip = true
			break
		}
		in.mu.Lock()
		in.mainActive = true
		in.mu.Unlock()
		ok = in.call(op, k, a)
		in.mu.Lock()
		in.mainActive = false
		in.mu.Unlock()
	}
	synctest.Wait()
	st1 := in.mgr.Stats()
	in.mu.Lock()
	defer in.mu.Unlock()
	return map[string]any{"ok": ok, "done": done, "skip": skip, "pt": point, "u4": in.last4, "u6": in.last6,
		"evs": in.project(in.log[0]), "evs2": in.project(in.log[1]),
		"dc": int(st1.TotalSessionsCreated - st0.TotalSessionsCreated), "de": int(st1.TotalSessionsEnded - st0.TotalSessionsEnded),
		"dok": int(st1.AuthSuccesses - st0.AuthSuccesses), "dfail": int(st1.AuthFailures - st0.AuthFailures)}
}

// project: an event as the contract sees it. The Reason text is kept only for terminations
// (the contract is silent about the reason texts of the other events).
func (in *inst) project(l []evrec) []map[string]any {
	out := []map[string]any{}
	// one cleanup pass ends its sessions in map order: events of different sessions are reported
	// sorted by slot (events of one session keep their order)
	l = append([]evrec{}, l...)
	sort.SliceStable(l, func(i, j int) bool { return in.slotOf(l[i].id) < in.slotOf(l[j].id) })
	for _, r := range l {
		reason := ""
		if r.typ == string(subscriber.EventSessionTerminate) {
			reason = r.reason
		}
		out = append(out, map[string]any{"k": in.slotOf(r.id), "t": r.typ, "o": r.old, "n": r.new, "r": reason})
	}
	return out
}

func (in *inst) found(ss *subscriber.Session, ok bool) int {
	if !ok {
		return 0
	}
	if ss == nil {
		return -1 // the index answers "found" without a session
	}
	if k := in.slotOf(ss.ID); k != 0 {
		if cur, live := in.mgr.GetSession(ss.ID); live && cur == ss {
			return k
		}
	}
	return -1 // a session that is not (or no longer) in the table
}

func (in *inst) Observe() map[string]any {
	n := in.s.N
	ss := make([]map[string]any, n)
	for k := 1; k <= n; k++ {
		o := map[string]any{"live": false, "st": "none", "au": false, "wg": false, "a4": 0, "a6": 0}
		if s, ok := in.mgr.GetSession(in.sid(k)); ok && s != nil {
			o = map[string]any{"live": true, "st": string(s.State), "au": s.Authenticated, "wg": s.WalledGarden, "a4": unit4(s.IPv4), "a6": unit6(s.IPv6)}
		}
		ss[k-1] = o
	}
	bymac := make([]int, n)
	for k := 1; k <= n; k++ {
		bymac[k-1] = in.found(in.mgr.GetSessionByMAC(mac(k)))
	}
	by4 := make([]int, in.s.u4())
	for u := 1; u <= len(by4); u++ {
		by4[u-1] = in.found(in.mgr.GetSessionByIP(ip4(u)))
	}
	by6 := make([]int, in.s.U6)
	for u := 1; u <= len(by6); u++ {
		by6[u-1] = in.found(in.mgr.GetSessionByIP(ip6(u)))
	}
	st := in.mgr.Stats()
	fx := ""
	if in.w != nil {
		fx = in.w.kind
	}
	return map[string]any{"ss": ss, "bymac": bymac, "by4": by4, "by6": by6,
		"active": st.ActiveSessions, "walled": st.WalledGardenSessions, "nlist": len(in.mgr.ListSessions()), "fx": fx}
}

func (in *inst) name(id string) string {
	if k := in.slotOf(id); k != 0 {
		return fmt.Sprintf("c%d", k)
	}
	return "old"
}

func capq(d time.Duration, c int) int {
	v := int(d / Quantum)
	if v > c {
		return c
	}
	return v
}

// Fingerprint: every field of the manager that can influence future behaviour, with session ids
// rendered as slots, times as saturated ages, plus the environment's state and the in-flight call.
// Monotone statistics counters and traffic counters are left out (nothing reads them back).
func (in *inst) Fingerprint() string {
	now := time.Now()
	c := in.s.ageCap()
	var parts []string
	it := core.Field(in.mgr, "sessions").MapRange()
	for it.Next() {
		s := it.Value().Interface().(*subscriber.Session)
		if d := now.Sub(s.StartTime); d%Quantum != 0 {
			harnessFail(fmt.Sprintf("%s: session age %v is not a whole number of quanta", in.s.name, d))
		}
		parts = append(parts, fmt.Sprintf("S:%s(key=%v):%s:%v:%v:%s:%s:sto=%d:ito=%d:age=%d:idle=%d", in.name(s.ID), it.Key().String() == s.ID, s.State, s.Authenticated,
			s.WalledGarden, s.IPv4, s.IPv6, int(s.SessionTimeout/Quantum), int(s.IdleTimeout/Quantum), capq(now.Sub(s.StartTime), c), capq(now.Sub(s.LastActivity), c)))
	}
	for _, f := range []string{"byMAC", "byIP"} {
		it := core.Field(in.mgr, f).MapRange()
		for it.Next() {
			parts = append(parts, fmt.Sprintf("%s:%s=%s", f, it.Key().String(), in.name(it.Value().String())))
		}
	}
	in.al.mu.Lock()
	for u, id := range in.al.own4 {
		parts = append(parts, fmt.Sprintf("A4:%d=%s", u, in.name(id)))
	}
	for u, id := range in.al.own6 {
		parts = append(parts, fmt.Sprintf("A6:%d=%s", u, in.name(id)))
	}
	in.al.mu.Unlock()
	if w := in.w; w != nil {
		parts = append(parts, fmt.Sprintf("W:%s:%d:%s:%s:%s", w.kind, w.slot, w.variant, w.old, w.point))
	}
	sort.Strings(parts)
	return strings.Join(parts, ";")
}

func (in *inst) Probe() map[string]any { return nil }

// Close lets an in-flight call run to completion (nothing parks any more).
func (in *inst) Close() {
	if in.w != nil {
		in.mu.Lock()
		in.w.armed = map[string]bool{}
		in.mu.Unlock()
		w := in.w
		in.resume <- struct{}{}
		<-w.done
		in.w = nil
	}
	subscriber.VerifSetGate(in.mgr, nil)
}

func toInt(v any) int {
	switch x := v.(type) {
	case int:
		return x
	case int64:
		return int(x)
	case float64:
		return int(x)
	}
	return 0
}
