package hasync

// End-to-end runs: two real HASyncers, both Start()ed - the active listens on a loopback port and
// runs its broadcastLoop, the standby runs its own standbyLoop (full sync, stream, reconnect with
// backoff). The harness only mutates the active's store and calls PushChange (as the session
// manager would), cuts the stream now and then, and establishes quiescent points at which the two
// tables are observed. The network shim of system.go is used in free-running mode (every event is
// handed to the standby as soon as it asks for data); it is there to be able to cut the stream and
// to know when the standby has processed what it received.

import (
	"math/rand"
	"net"
	"net/http"
	"reflect"
	"sync/atomic"
	"time"

	"github.com/codelaboratoryltd/bng/pkg/ha"
	"go.uber.org/zap"

	"verifharness/core"
)

type E2ESystem struct {
	name  string
	NSess int
}

func NewE2E(nsess int) *E2ESystem { return &E2ESystem{name: "e2e", NSess: nsess} }

func (s *E2ESystem) Name() string         { return s.name }
func (s *E2ESystem) Events() []core.Event { return nil }
func (s *E2ESystem) Config() map[string]any {
	return map[string]any{"impl": s.name, "nsess": s.NSess, "nsubs": 0}
}
func (s *E2ESystem) New() core.Instance { return newE2E(s) }

type e2eInst struct {
	*inst
	es   *E2ESystem
	dead bool // a quiescent point could not be confirmed by the marker: the run is judged there and abandoned
}

func freePort() string {
	var err error
	for i := 0; i < 200; i++ {
		var l net.Listener
		if l, err = net.Listen("tcp", "127.0.0.1:0"); err == nil {
			defer l.Close()
			return l.Addr().String()
		}
		time.Sleep(50 * time.Millisecond)
	}
	harnessFail("e2e: no free loopback port: " + err.Error())
	return "127.0.0.1:1"
}

func setDuration(obj any, field string, d time.Duration) {
	f := core.Field(obj, field)
	if f.Kind() == reflect.Int64 {
		f.SetInt(int64(d))
	}
}

func newE2E(s *E2ESystem) *e2eInst {
	in := &inst{s: &SSystem{name: s.name, NSess: s.NSess}, phase: "down", free: true}
	in.cond = newCond(in)
	in.activeStore = ha.NewInMemorySessionStore()
	in.standbyStore = ha.NewInMemorySessionStore()
	in.host = freePort()
	ac := ha.DefaultSyncConfig()
	ac.NodeID, ac.Role, ac.ListenAddr = "bng-active", ha.RoleActive, in.host
	ac.HeartbeatInterval = 200 * time.Millisecond
	in.active = ha.NewHASyncer(ac, in.activeStore, zap.NewNop())
	byHost.Store(in.host, in)
	if err := in.active.Start(); err != nil {
		harnessFail("e2e: active.Start: " + err.Error())
	}
	// wait until the real server answers
	deadline := time.Now().Add(20 * time.Second)
	for {
		req, _ := http.NewRequest("GET", "http://"+in.host+"/ha/health", nil)
		resp, err := realTransport.RoundTrip(req)
		if err == nil {
			resp.Body.Close()
			break
		}
		if time.Now().After(deadline) {
			harnessFail("e2e: the active's HTTP server did not come up on " + in.host)
			break
		}
		time.Sleep(2 * time.Millisecond)
	}
	sc := ha.DefaultSyncConfig()
	sc.NodeID, sc.Role = "bng-standby", ha.RoleStandby
	sc.Partner = &ha.PartnerInfo{NodeID: "bng-active", Endpoint: in.host}
	sc.RequestTimeout = time.Hour
	in.standby = ha.NewHASyncer(sc, in.standbyStore, zap.NewNop())
	// reconnect backoff 1 s .. 30 s in production; shortened so that a run has many reconnects
	setDuration(in.standby, "backoff", 5*time.Millisecond)
	setDuration(in.standby, "backoffMin", 5*time.Millisecond)
	setDuration(in.standby, "backoffMax", 20*time.Millisecond)
	if err := in.standby.Start(); err != nil {
		harnessFail("e2e: standby.Start: " + err.Error())
	}
	return &e2eInst{inst: in, es: s}
}

var e2eCuts atomic.Int64

func (e *e2eInst) change(rng *rand.Rand) {
	in := e.inst
	id := 1 + rng.Intn(e.es.NSess)
	cur, have := in.activeStore.GetSession(sessID(id))
	switch {
	case !have:
		s := mkSession(id, 1)
		in.activeStore.PutSession(s)
		in.active.PushChange(ha.SyncTypeAdd, s)
	case rng.Intn(3) == 0:
		in.activeStore.DeleteSession(sessID(id))
		in.active.PushChange(ha.SyncTypeDelete, &ha.SessionState{SessionID: sessID(id)})
	default:
		s := mkSession(id, 3-versionOf(cur))
		in.activeStore.PutSession(s)
		in.active.PushChange(ha.SyncTypeUpdate, s)
	}
}

func (e *e2eInst) cutStream() bool {
	in := e.inst
	in.mu.Lock()
	open := in.upstream != nil
	in.closed = true
	up, cancel := in.upstream, in.cancelUp
	in.upstream, in.cancelUp = nil, nil
	in.inbox = nil
	in.cond.Broadcast()
	in.mu.Unlock()
	if cancel != nil {
		cancel()
	}
	if up != nil {
		up.Close()
	}
	if open {
		e2eCuts.Add(1)
	}
	return open
}

// quiesce: wait until the standby's own loop has the stream attached, push one marker change
// after everything else, and wait until the standby has processed it. Returns false if that
// could not be established (infrastructure failure).
func (e *e2eInst) quiesce() bool {
	in := e.inst
	for attempt := 0; attempt < 6; attempt++ {
		deadline := time.Now().Add(30 * time.Second)
		for {
			in.mu.Lock()
			open := in.upstream != nil && !in.closed
			in.mu.Unlock()
			if open && in.standby.IsConnected() && in.active.VerifSSEClients() == 1 {
				break
			}
			if time.Now().After(deadline) {
				harnessFail("e2e: the standby did not re-attach its stream within 30 s")
				return false
			}
			time.Sleep(time.Millisecond)
		}
		// marker: one more real change on session 1, pushed after all others
		cur, have := in.activeStore.GetSession(sessID(1))
		var s *ha.SessionState
		kind := ha.SyncTypeUpdate
		if have {
			s = mkSession(1, 3-versionOf(cur))
		} else {
			s, kind = mkSession(1, 1), ha.SyncTypeAdd
		}
		in.activeStore.PutSession(s)
		in.active.PushChange(kind, s)
		want := core.Field(in.active, "sequenceNum").Uint()
		ok := in.waitFor(30*time.Second, func() bool { return in.closed || (in.handedSeq >= want && in.idleAfterHand) })
		in.mu.Lock()
		closed := in.closed
		in.mu.Unlock()
		if ok && !closed {
			return true
		}
		if !ok {
			// The stream has been attached and the active quiet for 30 s, and a change pushed on the
			// attached stream has still not been processed: the tables are observed and judged as they
			// are (a violation is confirmed by a second, fresh run), and the rest of the schedule is dropped.
			e.dead = true
			return true
		}
	}
	harnessFail("e2e: stream kept breaking while establishing a quiescent point")
	return false
}

func (e *e2eInst) Apply(ev core.Event) map[string]any {
	op := ev["op"].(string)
	res := map[string]any{"did": false, "v": 0, "ok": true, "clients": 0, "arrived": false, "none": false, "kind": "", "mid": 0, "mv": 0, "dropped": 0}
	if e.dead {
		res["ok"] = false
		e.inst.phase = "down"
		return res
	}
	switch op {
	case "burst":
		rng := rand.New(rand.NewSource(int64(toInt(ev["seed"]))))
		for i := 0; i < toInt(ev["id"]); i++ {
			e.change(rng)
			if rng.Intn(4) == 0 {
				time.Sleep(time.Duration(rng.Intn(300)) * time.Microsecond)
			}
		}
		e.inst.phase = "down"
	case "cut":
		res["ok"] = e.cutStream()
		e.inst.phase = "down"
	case "quiesce":
		res["ok"] = e.quiesce()
		if res["ok"].(bool) {
			e.inst.phase = "streaming"
		} else {
			e.inst.phase = "down"
		}
	default:
		panic("unknown e2e op " + op)
	}
	return res
}

func (e *e2eInst) Observe() map[string]any {
	in := e.inst
	return map[string]any{"act": in.table(in.activeStore.GetAllSessions()), "sb": in.table(in.standbyStore.GetAllSessions()),
		"recv": in.recvTable(), "phase": in.phase, "inbox": 0, "clients": in.active.VerifSSEClients(), "connected": in.standby.IsConnected()}
}

func (e *e2eInst) Fingerprint() string   { return "" }
func (e *e2eInst) Probe() map[string]any { return nil }

func (e *e2eInst) Close() {
	in := e.inst
	e.cutStream()
	in.standby.Stop()
	e.cutStream()
	in.active.Stop()
	byHost.CompareAndDelete(in.host, in)
}

// e2eSchedule: bursts of changes, cuts in the middle of bursts, quiescent points.
func e2eSchedule(rng *rand.Rand, steps int) []core.Event {
	var out []core.Event
	out = append(out, core.Event{"op": "quiesce", "id": 0, "seed": 0})
	for len(out) < steps {
		switch r := rng.Intn(10); {
		case r < 5:
			out = append(out, core.Event{"op": "burst", "id": 1 + rng.Intn(6), "seed": rng.Intn(1 << 30)})
		case r < 7:
			out = append(out, core.Event{"op": "cut", "id": 0, "seed": 0})
		default:
			out = append(out, core.Event{"op": "quiesce", "id": 0, "seed": 0})
		}
	}
	out = append(out, core.Event{"op": "quiesce", "id": 0, "seed": 0})
	return out
}
