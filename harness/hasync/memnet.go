package hasync

// In-memory connections for the table exploration: tens of thousands of short-lived
// active/standby pairs would otherwise exhaust the host's ephemeral TCP ports (TIME_WAIT).
// net/http runs unchanged on top (real server, real client transport); only the socket is a pipe.
// The end-to-end runs (e2e.go) use real loopback TCP.

import (
	"context"
	"errors"
	"fmt"
	"net"
	"sync"
	"sync/atomic"
)

type memAddr string

func (a memAddr) Network() string { return "mem" }
func (a memAddr) String() string  { return string(a) }

type memListener struct {
	addr   memAddr
	ch     chan net.Conn
	once   sync.Once
	closed chan struct{}
}

var memListeners sync.Map // host -> *memListener
var memSeq, memConnSeq atomic.Int64

func newMemListener() *memListener {
	l := &memListener{addr: memAddr(fmt.Sprintf("inst-%d.mem:80", memSeq.Add(1))), ch: make(chan net.Conn), closed: make(chan struct{})}
	memListeners.Store(string(l.addr), l)
	return l
}

func (l *memListener) Accept() (net.Conn, error) {
	select {
	case c := <-l.ch:
		return c, nil
	case <-l.closed:
		return nil, net.ErrClosed
	}
}

func (l *memListener) Close() error {
	l.once.Do(func() {
		memListeners.CompareAndDelete(string(l.addr), l)
		close(l.closed)
	})
	return nil
}

func (l *memListener) Addr() net.Addr { return l.addr }

type memConn struct {
	net.Conn
	local, remote memAddr
}

func (c memConn) LocalAddr() net.Addr  { return c.local }
func (c memConn) RemoteAddr() net.Addr { return c.remote }

// dial is the DialContext of the harness' transport: in-memory hosts get a pipe, everything else TCP.
func dial(ctx context.Context, network, addr string) (net.Conn, error) {
	v, ok := memListeners.Load(addr)
	if !ok {
		if len(addr) > 7 && addr[len(addr)-7:] == ".mem:80" {
			return nil, errors.New("connection refused: " + addr)
		}
		return (&net.Dialer{}).DialContext(ctx, network, addr)
	}
	l := v.(*memListener)
	a, b := net.Pipe()
	// one standby host, a fresh port per connection (as with real TCP)
	cli := memAddr(fmt.Sprintf("standby.mem:%d", 1024+memConnSeq.Add(1)%60000))
	select {
	case l.ch <- memConn{b, l.addr, cli}:
		return memConn{a, cli, l.addr}, nil
	case <-l.closed:
		a.Close()
		b.Close()
		return nil, errors.New("connection refused: " + addr)
	case <-ctx.Done():
		a.Close()
		b.Close()
		return nil, ctx.Err()
	}
}
