package hasync

import (
	"encoding/json"
	"fmt"
	"math/rand"
	"os"
	"strings"
	"testing"

	"verifharness/core"
)

type replayCase struct {
	ID     string         `json:"id"`
	System string         `json:"system"`
	Events []core.Event   `json:"events"`
	Cfg    map[string]any `json:"cfg"`
}

type replayFile struct {
	Property string       `json:"property"`
	Cases    []replayCase `json:"cases"`
}

type runStats struct {
	Systems     int                `json:"systems"`
	Nodes       int                `json:"nodes"`
	Edges       int                `json:"edges"`
	Chains      int                `json:"chains"`
	ChainEvents int                `json:"chain_events"`
	Closed      int                `json:"closed_systems"`
	Panics      []core.PanicRecord `json:"panics"`
	PerSystem   map[string][3]int  `json:"per_system"`
}

func sysFor(name string, cfg map[string]any) core.System {
	if strings.HasPrefix(name, "e2e") {
		n := 4
		if cfg != nil && cfg["nsess"] != nil {
			n = toInt(cfg["nsess"])
		}
		return NewE2E(n)
	}
	return sysFor2(name, cfg)
}

func sysFor2(name string, cfg map[string]any) *SSystem {
	n := 3
	if cfg != nil && cfg["nsess"] != nil {
		n = toInt(cfg["nsess"])
	}
	if i := strings.IndexByte(name, '#'); i >= 0 {
		name = name[:i]
	}
	return NewSystem(name, n)
}

func failOnHarnessErrors(t *testing.T) {
	harnessErrs.Lock()
	defer harnessErrs.Unlock()
	if len(harnessErrs.l) > 0 {
		t.Fatalf("harness could not observe faithfully (infrastructure failure, not a verdict):\n%s", strings.Join(harnessErrs.l, "\n"))
	}
}

// weighted random schedule: mostly session changes and deliveries, reconnect cycles now and then
func randomSchedule(rng *rand.Rand, sys *SSystem, n int) []core.Event {
	var out []core.Event
	for len(out) < n {
		switch r := rng.Intn(100); {
		case r < 50:
			op := []string{"add", "update", "delete"}[rng.Intn(3)]
			out = append(out, core.Event{"op": op, "id": 1 + rng.Intn(sys.NSess)})
		case r < 75:
			out = append(out, core.Event{"op": "deliver", "id": 0})
		case r < 83:
			out = append(out, core.Event{"op": "disconnect", "id": 0})
		case r < 92:
			out = append(out, core.Event{"op": "fullsync", "id": 0})
		default:
			if rng.Intn(3) == 0 { // the post-attach snapshot answer is on the wire while a session changes
				out = append(out, core.Event{"op": "attach", "id": 0, "racepush": 1 + rng.Intn(sys.NSess)})
			} else {
				out = append(out, core.Event{"op": "attach", "id": 0})
			}
		}
	}
	return out
}

func TestExplore(t *testing.T) {
	defer failOnHarnessErrors(t)
	out := core.OutDir()
	if rf := os.Getenv("VERIF_REPLAY"); rf != "" {
		replay(t, rf, out)
		return
	}
	tier, seed := core.Tier(), core.Seed()
	type tcfg struct {
		name         string
		nsess, depth int
	}
	tables := []tcfg{{"sync-2", 2, 8}, {"sync-3", 3, 7}, {"sync-4", 4, 6}, {"link-2", 2, 8}}
	maxNodes, nchains, chainLen := 60000, 12, 120
	if tier == "thorough" {
		tables = []tcfg{{"sync-2", 2, 11}, {"sync-3", 3, 9}, {"sync-4", 4, 8}, {"link-2", 2, 10}}
		maxNodes, nchains, chainLen = 400000, 60, 400
	}
	if v := os.Getenv("VERIF_MAXNODES"); v != "" {
		fmt.Sscan(v, &maxNodes)
	}
	bundle := &core.Bundle{}
	st := runStats{PerSystem: map[string][3]int{}}
	for _, tc := range tables {
		if only := os.Getenv("VERIF_ONLY"); only != "" && only != tc.name {
			continue
		}
		sys := NewSystem(tc.name, tc.nsess)
		tab, panics, err := core.Explore(sys, core.ExploreOptions{MaxDepth: tc.depth, MaxNodes: maxNodes, AdequacySample: 20, Seed: seed})
		if err != nil {
			t.Fatalf("explore %s: %v", sys.Name(), err)
		}
		st.Panics = append(st.Panics, panics...)
		bundle.Systems = append(bundle.Systems, tab)
		ne := 0
		for _, es := range tab.Edges {
			ne += len(es)
		}
		c := 0
		if tab.Closed {
			c = 1
			st.Closed++
		}
		st.PerSystem[sys.Name()] = [3]int{len(tab.Nodes), ne, c}
		st.Systems++
		st.Nodes += len(tab.Nodes)
		st.Edges += ne
	}
	rng := rand.New(rand.NewSource(seed))
	rsys := NewSystem("rnd-4", 4)
	for c := 0; c < nchains; c++ {
		tab, pr := core.Chain(rsys, fmt.Sprintf("rnd-4#%d", c), randomSchedule(rng, rsys, chainLen), false)
		if pr != nil {
			st.Panics = append(st.Panics, *pr)
			continue
		}
		bundle.Systems = append(bundle.Systems, tab)
		st.Chains++
		st.ChainEvents += chainLen
	}
	// end-to-end: both syncers started, their own loops running
	ne2e, e2eSteps := 2, 24
	if tier == "thorough" {
		ne2e, e2eSteps = 12, 60
	}
	esys := NewE2E(4)
	if os.Getenv("VERIF_NO_E2E") != "" { // second attempt of a check whose end-to-end finding did not reproduce (lib/fam_hasync.py)
		ne2e = 0
	}
	for c := 0; c < ne2e; c++ {
		tab, pr := core.Chain(esys, fmt.Sprintf("e2e#%d", c), e2eSchedule(rng, e2eSteps), false)
		if pr != nil {
			st.Panics = append(st.Panics, *pr)
			continue
		}
		bundle.Systems = append(bundle.Systems, tab)
		st.Chains++
		st.ChainEvents += e2eSteps
	}
	if xf := os.Getenv("VERIF_EXTRA_CASES"); xf != "" {
		b, err := os.ReadFile(xf)
		if err != nil {
			t.Fatal(err)
		}
		var rf replayFile
		if err := json.Unmarshal(b, &rf); err != nil {
			t.Fatal(err)
		}
		for _, c := range rf.Cases {
			sys := sysFor(c.System, c.Cfg)
			tab, pr := core.Chain(sys, sys.Name()+"#"+c.ID, c.Events, false)
			if pr != nil {
				st.Panics = append(st.Panics, *pr)
				continue
			}
			bundle.Systems = append(bundle.Systems, tab)
			st.Chains++
			st.ChainEvents += len(c.Events)
		}
	}
	if err := core.WriteJSON(out, "bundle.json", bundle); err != nil {
		t.Fatal(err)
	}
	if err := core.WriteJSON(out, "stats.json", st); err != nil {
		t.Fatal(err)
	}
}

func replay(t *testing.T, file, out string) {
	b, err := os.ReadFile(file)
	if err != nil {
		t.Fatal(err)
	}
	var rf replayFile
	if err := json.Unmarshal(b, &rf); err != nil {
		t.Fatal(err)
	}
	st := runStats{PerSystem: map[string][3]int{}}
	bundle := &core.Bundle{}
	for _, c := range rf.Cases {
		sys := sysFor(c.System, c.Cfg)
		// an end-to-end schedule runs in real time with the syncers' own goroutines: what it shows depends on
		// timing, so its replay is a few fresh runs of the schedule (the driver looks for the case id, the last
		// component of the chain name, in the names of the violating chains)
		names := []string{sys.Name() + "#" + c.ID}
		if _, e2e := sys.(*E2ESystem); e2e {
			names = append(names, sys.Name()+"#again1#"+c.ID, sys.Name()+"#again2#"+c.ID)
		}
		for _, name := range names {
			tab, pr := core.Chain(sys, name, c.Events, false)
			if pr != nil {
				st.Panics = append(st.Panics, *pr)
				continue
			}
			bundle.Systems = append(bundle.Systems, tab)
			st.Chains++
			st.ChainEvents += len(c.Events)
		}
	}
	if err := core.WriteJSON(out, "bundle.json", bundle); err != nil {
		t.Fatal(err)
	}
	core.WriteJSON(out, "stats.json", st)
}
