// Package hasync binds the HaSync contract (specs/HaSync) to the real pkg/ha state
// synchronisation code of /repo.
//
// What is real: the active node's HASyncer (PushChange, broadcastToClients, the HTTP handlers
// for /ha/sessions and /ha/sessions/stream served over loopback HTTP by httptest), the standby
// node's HASyncer (performFullSync, connectToStream with its SSE parsing, handleSSEData), both
// InMemorySessionStores. What the harness plays: the session manager of the active node (store
// mutation followed by PushChange), the standby's reconnect loop (full sync, then attach), and the
// NETWORK between the two: the standby's HTTP client goes through a RoundTripper (installed as
// http.DefaultTransport in this test binary) that passes everything through to the real server
// but hands the bytes of the event stream to the standby one event at a time, when the explored
// schedule says "deliver", and can cut the stream. A Read on the stream body is the barrier that
// tells the harness the standby has finished processing everything it was given before.
// The network also carries the standby's GET /ha/sessions of an attachment (the full sync connectToStream
// performs once the stream's response header is in): it knows when the active has answered, can hold the
// answer back on the wire (attach with racepush), and sees the standby close the response body, which the
// standby does when it is done with the snapshot. An attachment is over only when that has happened.
package hasync

import (
	"bufio"
	"bytes"
	"context"
	"encoding/json"
	"fmt"
	"io"
	"net/http"
	"runtime"
	"sort"
	"strconv"
	"strings"
	"sync"
	"sync/atomic"
	"time"

	"github.com/codelaboratoryltd/bng/pkg/ha"
	"go.uber.org/zap"

	"verifharness/core"
)

// --- the network ----------------------------------------------------------------------------

var byHost sync.Map // host:port of an instance's active node -> *inst

var realTransport = &http.Transport{
	DialContext:         dial,
	MaxIdleConns:        0,
	MaxIdleConnsPerHost: 64,
	IdleConnTimeout:     30 * time.Second,
}

type network struct{}

func (network) RoundTrip(req *http.Request) (*http.Response, error) {
	v, ok := byHost.Load(req.URL.Host)
	if !ok && req.URL.Path == "/ha/sessions/stream" {
		harnessFail("stream request for an unknown instance " + req.URL.Host)
	}
	if ok && req.URL.Path == "/ha/sessions" {
		return v.(*inst).snapshotRoundTrip(req)
	}
	if !ok || req.URL.Path != "/ha/sessions/stream" {
		return realTransport.RoundTrip(req)
	}
	return v.(*inst).openStream(req)
}

// goid is the id of the calling goroutine (the network uses it to tell whether two requests of the standby were
// made one after the other by one goroutine).
func goid() uint64 {
	var b [64]byte
	f := strings.Fields(string(b[:runtime.Stack(b[:], false)]))
	if len(f) < 2 {
		return 0
	}
	id, _ := strconv.ParseUint(f[1], 10, 64)
	return id
}

func init() { http.DefaultTransport = network{} }

// harnessFail records a condition under which the harness cannot observe faithfully
// (infrastructure failure, never a verdict).
var harnessErrs struct {
	sync.Mutex
	l []string
}

func harnessFail(msg string) {
	harnessErrs.Lock()
	if len(harnessErrs.l) < 20 {
		harnessErrs.l = append(harnessErrs.l, msg)
	}
	harnessErrs.Unlock()
}

// missSeen: once an expected stream event failed to arrive, later waits are short.
var missSeen atomic.Bool

func arrivalTimeout() time.Duration {
	if missSeen.Load() {
		return 30 * time.Millisecond
	}
	return 10 * time.Second
}

// --- system -----------------------------------------------------------------------------------

type SSystem struct {
	name  string
	NSess int
	evs   []core.Event
}

func NewSystem(name string, nsess int) *SSystem {
	s := &SSystem{name: name, NSess: nsess}
	for i := 1; i <= nsess; i++ {
		for _, op := range []string{"add", "update", "delete"} {
			s.evs = append(s.evs, core.Event{"op": op, "id": i})
		}
	}
	for _, op := range []string{"fullsync", "attach", "disconnect", "deliver"} {
		s.evs = append(s.evs, core.Event{"op": op, "id": 0})
	}
	// an attachment during which the active's stream handler is descheduled right after the first
	// bytes of the response were flushed to the standby; it runs on at the next non-push event
	s.evs = append(s.evs, core.Event{"op": "attach", "id": 0, "hold": 1})
	// an attachment during which the active changes session 1 between taking the snapshot for the standby's
	// post-attach full sync and stamping it (the change goes out on the already registered stream)
	if !strings.HasPrefix(name, "link") && !strings.HasPrefix(name, "rnd") {
		return s // the link-level events below only in the systems named link-* and in the random schedules
	}
	s.evs = append(s.evs, core.Event{"op": "attach", "id": 0, "midpush": 1})
	// an attachment during which the answer to the standby's post-attach full sync is on the wire for a while: in
	// the meantime the active changes session 1, the change goes out on the registered stream and the network
	// offers it to the standby before it lets the (older) snapshot through
	s.evs = append(s.evs, core.Event{"op": "attach", "id": 0, "racepush": 1})
	// a link failure only the standby notices (the active's end of the old stream stays open), and the moment
	// the active finally notices it
	s.evs = append(s.evs, core.Event{"op": "disconnect", "id": 0, "half": 1}, core.Event{"op": "oldclose", "id": 0})
	return s
}

func (s *SSystem) Name() string         { return s.name }
func (s *SSystem) Events() []core.Event { return s.evs }
func (s *SSystem) Config() map[string]any {
	return map[string]any{"impl": s.name, "nsess": s.NSess, "nsubs": 0}
}
func (s *SSystem) New() core.Instance { return newInst(s) }

type streamEvent struct {
	raw       []byte // the complete SSE event as the active wrote it
	kind      string
	id        int
	v         int
	heartbeat bool
	seq       uint64
}

type inst struct {
	s            *SSystem
	activeStore  *ha.InMemorySessionStore
	standbyStore *ha.InMemorySessionStore
	active       *ha.HASyncer
	standby      *ha.HASyncer
	srv          *http.Server
	ln           *memListener
	host         string

	phase string // "down" | "synced" | "streaming"  (the standby reconnect loop, played by the harness)

	mu         sync.Mutex
	cond       *sync.Cond
	inbox      []streamEvent // events received from the active, not yet handed to the standby
	arrived    int           // data events received from the active on the current stream
	release    int           // events the schedule allows the standby to read
	idle       int           // number of times the standby asked for more stream data
	closed     bool          // the stream has been cut
	upstream   io.Closer
	cancelUp   context.CancelFunc
	streamDone chan error

	// change made by the active inside its snapshot handler (attach with mid), and what it was
	gen     int // current stream (openStream)
	midArm  func()
	midDesc map[string]any
	// the GET /ha/sessions the standby makes while attach() runs (all under mu)
	snapArm     bool   // attach() is running: the next full-sync request is followed
	snapEpoch   int    // which attach() the followed request belongs to
	snapState   int    // snapNone .. snapDone
	snapRelease bool   // the answer may be handed to the standby
	snapGo      uint64 // goroutine that made the followed request
	streamGo    uint64 // goroutine that made the stream request of this attachment (0 = none made)
	// streams whose standby end is gone but whose active end is still open (disconnect with half)
	stale    []func()
	handlers atomic.Int32 // stream handlers of the active that have not returned

	// the active's stream handler held after its first flush (attach with hold)
	holdArm  atomic.Bool
	holdCh   chan struct{}
	held     bool
	heldPush []string // changes pushed while held that the active queued for the stream

	// end-to-end mode (e2e.go): events are handed over as soon as the standby asks
	free          bool
	handedSeq     uint64 // sequence number of the last change handed to the standby
	idleAfterHand bool   // the standby has asked for more data since then
}

func newCond(in *inst) *sync.Cond { return sync.NewCond(&in.mu) }

func newInst(s *SSystem) *inst {
	in := &inst{s: s, phase: "down"}
	in.cond = sync.NewCond(&in.mu)
	in.activeStore = ha.NewInMemorySessionStore()
	in.standbyStore = ha.NewInMemorySessionStore()
	ac := ha.DefaultSyncConfig()
	ac.NodeID, ac.Role = "bng-active", ha.RoleActive
	in.active = ha.NewHASyncer(ac, hookStore{in.activeStore, in}, zap.NewNop())
	in.ln = newMemListener()
	in.srv = &http.Server{Handler: in.holdable(in.active.VerifHandler())}
	go in.srv.Serve(in.ln)
	in.host = in.ln.Addr().String()
	sc := ha.DefaultSyncConfig()
	sc.NodeID, sc.Role = "bng-standby", ha.RoleStandby
	sc.Partner = &ha.PartnerInfo{NodeID: "bng-active", Endpoint: in.host}
	sc.RequestTimeout = time.Hour // http.Client.Timeout also bounds the life of the stream request
	in.standby = ha.NewHASyncer(sc, in.standbyStore, zap.NewNop())
	byHost.Store(in.host, in)
	return in
}

// hookStore is the active's session store; after a snapshot was copied it can run one action (the session
// manager changing a session while the HA handler is still working on the snapshot).
type hookStore struct {
	*ha.InMemorySessionStore
	in *inst
}

func (h hookStore) GetAllSessions() []ha.SessionState {
	r := h.InMemorySessionStore.GetAllSessions()
	h.in.mu.Lock()
	f := h.in.midArm
	h.in.midArm = nil
	h.in.mu.Unlock()
	if f != nil {
		f()
	}
	return r
}

// holdable passes every request to the real handler; for the stream request it can hold the handler
// goroutine right after its first Flush (the scheduler's freedom, made explicit).
func (in *inst) holdable(h http.Handler) http.Handler {
	return http.HandlerFunc(func(w http.ResponseWriter, r *http.Request) {
		if f, ok := w.(http.Flusher); ok && r.URL.Path == "/ha/sessions/stream" && in.holdArm.CompareAndSwap(true, false) {
			w = &holdWriter{ResponseWriter: w, f: f, in: in}
		}
		if r.URL.Path == "/ha/sessions/stream" {
			in.handlers.Add(1)
			defer in.handlers.Add(-1)
		}
		h.ServeHTTP(w, r)
	})
}

type holdWriter struct {
	http.ResponseWriter
	f    http.Flusher
	in   *inst
	done bool
}

func (hw *holdWriter) Flush() {
	hw.f.Flush()
	if !hw.done {
		hw.done = true
		<-hw.in.holdCh
	}
}

// unhold lets a held stream handler run on and waits until what it owes has reached the network.
func (in *inst) unhold() {
	if !in.held {
		return
	}
	in.held = false
	in.mu.Lock()
	want := in.arrived + len(in.heldPush)
	in.mu.Unlock()
	in.heldPush = nil
	close(in.holdCh)
	if !in.waitFor(arrivalTimeout(), func() bool { return in.arrived >= want || in.closed }) {
		missSeen.Store(true)
	}
	// the handler registers the stream (if it had not) within its next few instructions
	deadline := time.Now().Add(2 * time.Second)
	for in.active.VerifSSEClients() == 0 && time.Now().Before(deadline) {
		time.Sleep(100 * time.Microsecond)
	}
}

const (
	snapNone     = iota // no full-sync request seen during this attach()
	snapAsked           // the request is with the active
	snapHeld            // the active has answered (its snapshot is taken); the answer is on the wire
	snapReturned        // the standby has the answer and works on it
	snapDone            // the standby closed the response body (or the request failed): it is done with the snapshot
)

// snapshotRoundTrip is the network's handling of the standby's GET /ha/sessions. Outside attach() it passes
// through. During attach() the complete answer is received first (so the moment the snapshot was taken is
// behind us), then it stays on the wire until attach() lets it through.
func (in *inst) snapshotRoundTrip(req *http.Request) (*http.Response, error) {
	in.mu.Lock()
	follow := in.snapArm && in.snapState == snapNone && !in.free
	epoch := in.snapEpoch
	if follow {
		in.snapState, in.snapGo = snapAsked, goid()
		in.cond.Broadcast()
	}
	in.mu.Unlock()
	if !follow {
		return realTransport.RoundTrip(req)
	}
	set := func(st int) {
		in.mu.Lock()
		if in.snapEpoch == epoch {
			in.snapState = st
			in.cond.Broadcast()
		}
		in.mu.Unlock()
	}
	resp, err := realTransport.RoundTrip(req)
	if err != nil {
		set(snapDone)
		return nil, err
	}
	body, rerr := io.ReadAll(resp.Body)
	resp.Body.Close()
	stop := context.AfterFunc(req.Context(), func() { in.mu.Lock(); in.cond.Broadcast(); in.mu.Unlock() })
	defer stop()
	in.mu.Lock()
	if in.snapEpoch == epoch {
		in.snapState = snapHeld
		in.cond.Broadcast()
	}
	for in.snapEpoch == epoch && !in.snapRelease && req.Context().Err() == nil {
		in.cond.Wait()
	}
	in.mu.Unlock()
	if err := req.Context().Err(); err != nil {
		set(snapDone)
		return nil, err
	}
	set(snapReturned)
	resp.Body = &snapBody{r: io.MultiReader(bytes.NewReader(body), errReader{rerr}), done: func() { set(snapDone) }}
	return resp, nil
}

type errReader struct{ err error }

func (e errReader) Read([]byte) (int, error) {
	if e.err != nil {
		return 0, e.err
	}
	return 0, io.EOF
}

// snapBody is the body of a followed full-sync answer; closing it is the standby saying it is done with it.
type snapBody struct {
	r    io.Reader
	once sync.Once
	done func()
}

func (b *snapBody) Read(p []byte) (int, error) { return b.r.Read(p) }
func (b *snapBody) Close() error               { b.once.Do(b.done); return nil }

// openStream is the network's handling of the standby's stream request.
func (in *inst) openStream(req *http.Request) (*http.Response, error) {
	// the upstream connection lives until the harness closes it (cut / oldclose), not until the standby gives up
	ctx, cancel := context.WithCancel(context.WithoutCancel(req.Context()))
	resp, err := realTransport.RoundTrip(req.WithContext(ctx))
	if err != nil {
		cancel()
		return nil, err
	}
	in.mu.Lock()
	in.inbox, in.arrived, in.release, in.closed = nil, 0, 0, false
	in.upstream, in.cancelUp = resp.Body, cancel
	in.gen++
	gen := in.gen
	in.streamGo = goid()
	in.mu.Unlock()
	up := resp.Body
	go in.pump(up, gen)
	gb := &gatedBody{in: in, gen: gen}
	// like a real response body, a blocked Read ends when the request's context is cancelled
	context.AfterFunc(req.Context(), func() { gb.Close() })
	resp.Body = gb
	return resp, nil
}

// pump receives the active's events as fast as they come and queues them.
func (in *inst) pump(up io.Reader, gen int) {
	r := bufio.NewReader(up)
	var cur bytes.Buffer
	for {
		line, err := r.ReadBytes('\n')
		if len(line) > 0 {
			cur.Write(line)
			if len(bytes.TrimRight(line, "\r\n")) == 0 { // blank line ends an event
				ev := parseEvent(append([]byte{}, cur.Bytes()...))
				cur.Reset()
				in.mu.Lock()
				if gen == in.gen { // what still arrives on a stream the standby has given up is lost
					in.inbox = append(in.inbox, ev)
					if !ev.heartbeat {
						in.arrived++
					}
					in.cond.Broadcast()
				}
				in.mu.Unlock()
			}
		}
		if err != nil {
			return
		}
	}
}

func parseEvent(raw []byte) streamEvent {
	ev := streamEvent{raw: raw, kind: "?"}
	for _, l := range strings.Split(string(raw), "\n") {
		if strings.HasPrefix(l, "data: ") {
			var m ha.SyncMessage
			if json.Unmarshal([]byte(l[6:]), &m) == nil {
				ev.kind = string(m.Type)
				ev.seq = m.SequenceNum
				ev.heartbeat = m.Type == ha.SyncTypeHeartbeat
				if len(m.Sessions) > 0 {
					ev.id, ev.v = sessNum(m.Sessions[0].SessionID), versionOf(&m.Sessions[0])
				}
			}
		}
	}
	return ev
}

// gatedBody is what the standby's connectToStream reads from.
type gatedBody struct {
	in   *inst
	gen  int // the stream this body belongs to; a body of an earlier stream is dead
	rest []byte
}

func (b *gatedBody) Read(p []byte) (int, error) {
	in := b.in
	if len(b.rest) > 0 {
		n := copy(p, b.rest)
		b.rest = b.rest[n:]
		return n, nil
	}
	in.mu.Lock()
	if b.gen != in.gen {
		in.mu.Unlock()
		return 0, io.EOF
	}
	in.idle++ // everything handed over so far has been processed
	in.idleAfterHand = true
	in.cond.Broadcast()
	for {
		if in.closed {
			in.mu.Unlock()
			return 0, io.EOF
		}
		if len(in.inbox) > 0 && (in.inbox[0].heartbeat || in.release > 0 || in.free) {
			ev := in.inbox[0]
			in.inbox = in.inbox[1:]
			if !ev.heartbeat {
				if !in.free {
					in.release--
				}
				in.handedSeq, in.idleAfterHand = ev.seq, false
				in.cond.Broadcast()
			}
			in.mu.Unlock()
			n := copy(p, ev.raw)
			b.rest = ev.raw[n:]
			return n, nil
		}
		in.cond.Wait()
	}
}

func (b *gatedBody) Close() error {
	in := b.in
	in.mu.Lock()
	if b.gen != in.gen { // closing the body of an earlier stream must not touch the current one
		in.mu.Unlock()
		return nil
	}
	in.closed = true
	up, cancel := in.upstream, in.cancelUp
	in.upstream, in.cancelUp = nil, nil
	in.cond.Broadcast()
	in.mu.Unlock()
	if cancel != nil {
		cancel()
	}
	if up != nil {
		up.Close()
	}
	return nil
}

// waitFor waits until pred (evaluated under in.mu) holds.
func (in *inst) waitFor(d time.Duration, pred func() bool) bool {
	deadline := time.Now().Add(d)
	stop := time.AfterFunc(d+10*time.Millisecond, func() { in.mu.Lock(); in.cond.Broadcast(); in.mu.Unlock() })
	defer stop.Stop()
	in.mu.Lock()
	defer in.mu.Unlock()
	for !pred() {
		if time.Now().After(deadline) {
			return false
		}
		in.cond.Wait()
	}
	return true
}

// --- sessions -----------------------------------------------------------------------------------

func sessID(i int) string { return fmt.Sprintf("sess-%03d", i) }
func sessNum(id string) int {
	var i int
	if _, err := fmt.Sscanf(id, "sess-%03d", &i); err != nil {
		return 0
	}
	return i
}

var t0 = time.Date(2026, 1, 1, 0, 0, 0, 0, time.UTC)

// bigName: version 2 of every session carries a long user name, so its stream event is a line of more than 4096
// bytes (longer than one bufio buffer) while version 1 fits into a few hundred bytes
var bigName = strings.Repeat("u", 5000) + "@isp.example"

func mkSession(i, v int) *ha.SessionState {
	s := mkSessionBase(i, v)
	if v == 2 {
		s.Username = bigName
	}
	return s
}

func mkSessionBase(i, v int) *ha.SessionState {
	return &ha.SessionState{SessionID: sessID(i), SubscriberID: fmt.Sprintf("sub-%03d", i), MAC: fmt.Sprintf("00:11:22:33:44:%02x", i),
		IP: fmt.Sprintf("10.0.%d.%d", v, i), VLAN: 100 + i, QoSProfile: fmt.Sprintf("profile-%d", v), DownloadRateBps: uint64(v) * 1_000_000,
		SessionType: "ipoe", CreatedAt: t0, LastActivity: t0.Add(time.Duration(v) * time.Minute), State: "active"}
}

// versionOf recognises the two contents the harness writes; anything else is 9.
func versionOf(s *ha.SessionState) int {
	i := sessNum(s.SessionID)
	for v := 1; v <= 2; v++ {
		w := mkSession(i, v)
		if s.IP == w.IP && s.QoSProfile == w.QoSProfile && s.DownloadRateBps == w.DownloadRateBps && s.MAC == w.MAC && s.VLAN == w.VLAN &&
			s.SubscriberID == w.SubscriberID && s.State == w.State && s.LastActivity.Equal(w.LastActivity) && s.Username == w.Username {
			return v
		}
	}
	if s.IP == "" && s.MAC == "" {
		return 8 // a bare id (what a delete message carries)
	}
	return 9
}

func (in *inst) table(all []ha.SessionState) []int {
	t := make([]int, in.s.NSess)
	for i := range all {
		n := sessNum(all[i].SessionID)
		if n >= 1 && n <= in.s.NSess {
			t[n-1] = versionOf(&all[i])
		} else {
			harnessFail(fmt.Sprintf("%s: unexpected session id %q in a store", in.s.name, all[i].SessionID))
		}
	}
	return t
}

// --- instance -----------------------------------------------------------------------------------

func toInt(v any) int {
	switch x := v.(type) {
	case int:
		return x
	case int64:
		return int(x)
	case float64:
		return int(x)
	}
	return 0
}

func (in *inst) push(kind ha.SyncMessageType, s *ha.SessionState) (clients int, arrived bool, err error) {
	in.mu.Lock()
	want := in.arrived + 1
	in.mu.Unlock()
	err = in.active.PushChange(kind, s)
	clients = in.active.VerifSSEClients()
	n := in.active.VerifBroadcastPending() // body of broadcastLoop for the queued change
	if err != nil || n == 0 || clients == 0 || in.phase != "streaming" {
		return clients, false, err
	}
	if in.held { // queued by the active for a handler that is not running: arrives after unhold
		in.heldPush = append(in.heldPush, fmt.Sprintf("%s:%s", kind, s.SessionID))
		return clients, false, nil
	}
	ok := in.waitFor(arrivalTimeout(), func() bool { return in.arrived >= want || in.closed })
	if !ok {
		missSeen.Store(true)
	}
	return clients, ok, nil
}

func (in *inst) Apply(ev core.Event) map[string]any {
	op := ev["op"].(string)
	id := toInt(ev["id"])
	res := map[string]any{"did": false, "v": 0, "ok": true, "clients": 0, "arrived": false, "none": false, "kind": "", "mid": 0, "mv": 0, "dropped": 0,
		"middid": false, "midop": "", "midid": 0, "midv": 0, "midhanded": false}
	if op != "add" && op != "update" && op != "delete" {
		in.unhold()
	}
	switch op {
	case "add", "update", "delete":
		cur, have := in.activeStore.GetSession(sessID(id))
		var kind ha.SyncMessageType
		var s *ha.SessionState
		switch {
		case op == "add" && !have:
			kind, s = ha.SyncTypeAdd, mkSession(id, 1)
			in.activeStore.PutSession(s)
			res["v"] = 1
		case op == "update" && have:
			nv := 3 - versionOf(cur)
			kind, s = ha.SyncTypeUpdate, mkSession(id, nv)
			in.activeStore.PutSession(s)
			res["v"] = nv
		case op == "delete" && have:
			kind, s = ha.SyncTypeDelete, &ha.SessionState{SessionID: sessID(id)}
			in.activeStore.DeleteSession(sessID(id))
		default:
			return res // not applicable in this state: nothing happens on the active
		}
		res["did"] = true
		clients, arrived, err := in.push(kind, s)
		res["clients"], res["arrived"], res["ok"] = clients, arrived, err == nil
	case "fullsync":
		if in.phase != "down" {
			res["ok"] = false
			res["none"] = true
			return res
		}
		err := in.standby.VerifFullSync()
		res["ok"] = err == nil
		if err == nil {
			in.phase = "synced"
		}
	case "attach":
		if in.phase != "synced" {
			res["ok"] = false
			res["none"] = true
			return res
		}
		if toInt(ev["hold"]) == 1 {
			in.holdCh = make(chan struct{})
			in.holdArm.Store(true)
		}
		if k := toInt(ev["midpush"]); k > 0 {
			in.midDesc = nil
			in.mu.Lock()
			in.midArm = func() { in.midDesc = in.changeNow(k) }
			in.mu.Unlock()
		}
		if k := toInt(ev["racepush"]); k > 0 {
			ok, d, handed := in.attachRace(k)
			res["ok"] = ok
			if d != nil && ok {
				for kk, v := range d {
					res[kk] = v
				}
				res["midhanded"] = handed
			}
		} else {
			res["ok"] = in.attach()
		}
		in.mu.Lock()
		in.midArm = nil
		in.mu.Unlock()
		if d := in.midDesc; d != nil {
			in.midDesc = nil
			// the change went out on the registered stream: wait until the network has it (as push does)
			if res["ok"].(bool) && in.active.VerifSSEClients() > 0 {
				if !in.waitFor(arrivalTimeout(), func() bool { return in.arrived >= 1 || in.closed }) {
					missSeen.Store(true)
				}
			}
			for kk, v := range d {
				res[kk] = v
			}
		}
		if toInt(ev["hold"]) == 1 {
			if in.holdArm.CompareAndSwap(true, false) { // the request never reached the handler
				close(in.holdCh)
			} else {
				in.held = true
				if !res["ok"].(bool) {
					in.unhold()
				}
			}
		}
		if res["ok"].(bool) && !in.held {
			// an undisturbed handler: let it reach its event loop before anything else happens
			deadline := time.Now().Add(2 * time.Second)
			for in.active.VerifSSEClients() == 0 && time.Now().Before(deadline) {
				time.Sleep(100 * time.Microsecond)
			}
		}
		if res["ok"].(bool) {
			in.phase = "streaming"
		} else {
			in.phase = "down"
		}
	case "disconnect":
		if in.phase == "down" {
			res["none"] = true
			return res
		}
		res["dropped"] = in.cutHow(toInt(ev["half"]) == 1)
		in.phase = "down"
	case "deliver":
		if in.phase != "streaming" {
			res["none"] = true
			return res
		}
		in.mu.Lock()
		if len(in.inbox) == 0 {
			in.mu.Unlock()
			res["none"] = true
			return res
		}
		ev0 := in.inbox[0]
		target := in.idle + 1
		in.release++
		in.cond.Broadcast()
		in.mu.Unlock()
		res["kind"], res["mid"], res["mv"] = ev0.kind, ev0.id, ev0.v
		if !in.waitFor(20*time.Second, func() bool { return in.idle >= target || in.closed }) {
			harnessFail(fmt.Sprintf("%s: the standby did not come back for more stream data after a delivery", in.s.name))
		}
	case "oldclose":
		if len(in.stale) == 0 {
			res["none"] = true
			return res
		}
		in.closeStale()
	default:
		panic("unknown op " + op)
	}
	return res
}

// changeNow is the session manager of the active changing session k (add if absent, else update) and pushing
// the change, from whatever goroutine calls it.
func (in *inst) changeNow(k int) map[string]any {
	cur, have := in.activeStore.GetSession(sessID(k))
	kind, op, v := ha.SyncTypeAdd, "add", 1
	if have {
		kind, op, v = ha.SyncTypeUpdate, "update", 3-versionOf(cur)
	}
	s := mkSession(k, v)
	in.activeStore.PutSession(s)
	in.active.PushChange(kind, s)
	in.active.VerifBroadcastPending()
	return map[string]any{"middid": true, "midop": op, "midid": k, "midv": v}
}

// attach runs the standby's own connectToStream; it returns once the standby has consumed the
// initial heartbeat and waits for stream data (or has given up), and is done with the answer to the
// full sync it makes on the way.
func (in *inst) attach() bool {
	a := in.beginAttach(true)
	return a.finish(false)
}

// attachRace is attach with the answer to the standby's post-attach full sync held on the wire: once the active
// has answered, the active changes session k and pushes the change; it goes out on the registered stream and the
// network offers it to the standby at once. Only then does the snapshot answer get through. If the standby took
// the change from the stream in the meantime, handed is true; otherwise the change is still in the network's
// queue when attachRace returns, exactly as after a plain attach followed by that change.
func (in *inst) attachRace(k int) (ok bool, desc map[string]any, handed bool) {
	a := in.beginAttach(false)
	held := in.waitFor(20*time.Second, func() bool { return a.ended() || in.snapState >= snapHeld || a.noSnapshot() })
	in.mu.Lock()
	held = held && in.snapState == snapHeld
	in.mu.Unlock()
	if held {
		in.mu.Lock()
		arrived0 := in.arrived
		in.mu.Unlock()
		desc = in.changeNow(k)
		onStream := in.active.VerifSSEClients() > 0
		if onStream {
			if !in.waitFor(arrivalTimeout(), func() bool { return in.arrived > arrived0 || in.closed }) {
				missSeen.Store(true)
				onStream = false
			}
		}
		if onStream {
			in.mu.Lock()
			in.release++
			in.idleAfterHand = false
			// Can the standby read the stream while the snapshot answer is outstanding? Not if the goroutine that
			// opened the stream is the one now waiting for that answer and nothing has read from the stream yet:
			// then its reading of the stream comes after. Otherwise something else may be reading: give it time.
			sequential := in.snapGo == in.streamGo && in.idle == a.base
			in.cond.Broadcast()
			in.mu.Unlock()
			if !sequential {
				in.waitFor(2*time.Second, func() bool { return (in.release == 0 && in.idleAfterHand) || in.closed || a.ended() })
			}
			in.mu.Lock()
			if in.release > 0 { // not taken: the offer ends here, the change stays queued
				in.release = 0
			} else {
				handed = true
			}
			in.mu.Unlock()
		}
	}
	ok = a.finish(handed)
	return ok, desc, handed
}

type attachment struct {
	in   *inst
	base int
	done chan error
	end  bool
	// when the standby was first seen waiting for stream data without having asked for a snapshot
	idleNoSnap time.Time
}

// ended (under in.mu): connectToStream has returned.
func (a *attachment) ended() bool {
	if a.end {
		return true
	}
	select {
	case err := <-a.done:
		a.done <- err
		a.end = true
	default:
	}
	return a.end
}

// noSnapshot (under in.mu): the standby reads the stream (or has given the stream up) and still has not asked
// for a snapshot a while later. Never the case with a connectToStream that makes its full sync before it reads
// the stream: no time is spent here then.
func (a *attachment) noSnapshot() bool {
	in := a.in
	if in.snapState != snapNone || (in.idle < a.base+2 && !a.ended()) {
		return false
	}
	if a.idleNoSnap.IsZero() {
		a.idleNoSnap = time.Now()
		time.AfterFunc(310*time.Millisecond, func() { in.mu.Lock(); in.cond.Broadcast(); in.mu.Unlock() })
	}
	return time.Since(a.idleNoSnap) >= 300*time.Millisecond
}

func (in *inst) beginAttach(letSnapshotThrough bool) *attachment {
	a := &attachment{in: in, done: make(chan error, 1)}
	in.mu.Lock()
	a.base = in.idle
	in.closed = false
	in.snapEpoch++
	in.snapArm, in.snapState, in.snapRelease, in.snapGo, in.streamGo = true, snapNone, letSnapshotThrough, 0, 0
	in.mu.Unlock()
	in.streamDone = a.done
	go func() {
		a.done <- in.standby.VerifConnectToStream()
		in.mu.Lock()
		in.cond.Broadcast()
		in.mu.Unlock()
	}()
	return a
}

// finish lets a held snapshot answer through and waits until the attachment has settled: connectToStream has
// returned, or the standby waits for stream data (having processed what it was handed) and is done with the
// snapshot it asked for.
func (a *attachment) finish(handed bool) bool {
	in := a.in
	in.mu.Lock()
	in.snapRelease = true
	in.cond.Broadcast()
	in.mu.Unlock()
	snapSettled := func() bool { return in.snapState == snapDone || a.noSnapshot() }
	ok := in.waitFor(20*time.Second, func() bool {
		if a.ended() {
			// a stream that was opened may have left a full sync running beside the reader
			return in.streamGo == 0 || snapSettled()
		}
		return in.idle >= a.base+2 && snapSettled() && (!handed || in.idleAfterHand)
	})
	in.mu.Lock()
	in.snapArm = false
	ended := a.ended()
	in.mu.Unlock()
	if !ok {
		harnessFail(fmt.Sprintf("%s: attach did not settle", in.s.name))
		return false
	}
	if ended {
		<-a.done
		in.streamDone = nil
		return false
	}
	return true
}

// cut severs the stream; events received from the active but not yet handed over are lost.
func (in *inst) cut() int { return in.cutHow(false) }

// cutHow severs the stream. half: only the standby's end goes away; the active's end is closed by "oldclose".
func (in *inst) cutHow(half bool) int {
	in.mu.Lock()
	dropped := 0
	for _, e := range in.inbox {
		if !e.heartbeat {
			dropped++
		}
	}
	in.inbox = nil
	in.closed = true
	in.gen++ // whatever still arrives on this stream is no longer for the standby
	up, cancel := in.upstream, in.cancelUp
	in.upstream, in.cancelUp = nil, nil
	in.cond.Broadcast()
	in.mu.Unlock()
	closeActiveEnd := func() {
		if cancel != nil {
			cancel()
		}
		if up != nil {
			up.Close()
		}
	}
	if half && up != nil {
		in.stale = append(in.stale, closeActiveEnd)
	} else {
		closeActiveEnd()
	}
	if in.streamDone != nil {
		select {
		case <-in.streamDone:
		case <-time.After(20 * time.Second):
			harnessFail(fmt.Sprintf("%s: the standby's stream reader did not return after the cut", in.s.name))
		}
		in.streamDone = nil
	}
	// the active notices through its request context; wait until it has unregistered the client
	in.waitHandlers(len(in.stale))
	return dropped
}

// waitHandlers waits until exactly n stream handlers of the active are still running.
func (in *inst) waitHandlers(n int) {
	deadline := time.Now().Add(20 * time.Second)
	for int(in.handlers.Load()) > n {
		if time.Now().After(deadline) {
			harnessFail(fmt.Sprintf("%s: %d stream handlers of the active still running 20 s after their streams were closed (want %d)", in.s.name, in.handlers.Load(), n))
			break
		}
		time.Sleep(200 * time.Microsecond)
	}
}

// closeStale closes the active's end of every half-open stream and waits for those handlers to return.
func (in *inst) closeStale() {
	for _, f := range in.stale {
		f()
	}
	in.stale = nil
	live := 0
	if in.phase == "streaming" {
		live = 1
	}
	in.waitHandlers(live)
}

func (in *inst) recvTable() []int {
	t := make([]int, in.s.NSess)
	for _, s := range in.standby.GetAllReceivedSessions() {
		n := sessNum(s.SessionID)
		if n >= 1 && n <= in.s.NSess {
			t[n-1] = versionOf(s)
		}
	}
	return t
}

func (in *inst) queue() []string {
	in.mu.Lock()
	defer in.mu.Unlock()
	q := []string{}
	for _, e := range in.inbox {
		if !e.heartbeat {
			q = append(q, fmt.Sprintf("%s:%d:%d", e.kind, e.id, e.v))
		}
	}
	return q
}

func (in *inst) Observe() map[string]any {
	return map[string]any{"act": in.table(in.activeStore.GetAllSessions()), "sb": in.table(in.standbyStore.GetAllSessions()),
		"recv": in.recvTable(), "phase": in.phase, "inbox": len(in.queue()), "clients": in.active.VerifSSEClients(),
		"connected": in.standby.IsConnected()}
}

var fpOpt = &core.FPOptions{SkipFields: map[string]bool{
	"stats": true, "sequenceNum": true, "backoff": true, "Endpoint": true, "Addr": true, "ListenAddr": true,
	"pendingChanges": true, "sseClients": true, "server": true,
	"in": true, // hookStore's way back to the harness instance
}}

func (in *inst) Fingerprint() string {
	obs := in.Observe()
	keys := make([]string, 0, len(obs))
	for k := range obs {
		keys = append(keys, k)
	}
	sort.Strings(keys)
	var sb strings.Builder
	for _, k := range keys {
		fmt.Fprintf(&sb, "%s=%v|", k, obs[k])
	}
	fmt.Fprintf(&sb, "queue=%v|held=%v%v|stale=%d|", in.queue(), in.held, in.heldPush, len(in.stale))
	sb.WriteString(core.Fingerprint(in.standby, fpOpt))
	sb.WriteString("|")
	sb.WriteString(core.Fingerprint(in.active, fpOpt))
	return sb.String()
}

func (in *inst) Probe() map[string]any { return nil }

func (in *inst) Close() {
	in.unhold()
	if len(in.stale) > 0 {
		in.closeStale()
	}
	if in.phase == "streaming" {
		in.cut()
	}
	// unregister before the port is released: the next instance may be given the same port at once
	byHost.CompareAndDelete(in.host, in)
	in.srv.Close()
	in.ln.Close()
	in.active.Stop()
	in.standby.Stop()
}
