// Package nat drives the real pkg/nat Manager (no eBPF maps loaded, compliance logger writing
// to a buffer) for property C10. It only executes, observes and projects: every verdict is
// TLC's, on specs/NatBlocks.
package nat

import (
	"bytes"
	"encoding/binary"
	"encoding/json"
	"fmt"
	"net"
	"reflect"
	"strings"
	"sync"
	"time"

	"github.com/cilium/ebpf"
	"go.uber.org/zap"

	bngnat "github.com/codelaboratoryltd/bng/pkg/nat"

	"verifharness/core"
)

// Config is one port / address / subscriber configuration of the manager.
type Config struct {
	PStart, PEnd, PPS int
	NIPs, NSubs       int
	LogMode           string // "bulk" (RFC 6908 port-block records) | "plain" (allocate/deallocate records)
	ByRange           bool   // configure the public addresses with one AddPublicIPRange call instead of one AddPublicIP each
	// MapCap > 0: the manager writes its allocations into a real kernel hash map (subscriber_nat) that holds only
	// MapCap entries, so the datapath update of a further subscriber fails until another one is released
	MapCap int
	// LateIPs > 0: the public addresses 1..LateIPs (the ones that sort FIRST) are not configured at
	// construction; an "addip" event adds address sub while blocks may already be held on the others
	// (an operator growing the pool of a running gateway)
	LateIPs int
}

func (c Config) Name() string {
	n := fmt.Sprintf("nat.Manager/%d-%d-%d/ips%d/subs%d/%s", c.PStart, c.PEnd, c.PPS, c.NIPs, c.NSubs, c.LogMode)
	if c.ByRange {
		n += "/range"
	}
	if c.MapCap > 0 {
		n += fmt.Sprintf("/map%d", c.MapCap)
	}
	if c.LateIPs > 0 {
		n += fmt.Sprintf("/late%d", c.LateIPs)
	}
	return n
}

func (c Config) Map() map[string]any {
	return map[string]any{"impl": "nat.Manager", "nsubs": c.NSubs, "nips": c.NIPs, "pstart": c.PStart, "pend": c.PEnd,
		"pps": c.PPS, "logmode": c.LogMode, "byrange": c.ByRange, "mapcap": c.MapCap, "lateips": c.LateIPs}
}

// ConfigFromMap rebuilds a Config from the cfg record of a bundle / replay file.
func ConfigFromMap(m map[string]any) Config {
	s, _ := m["logmode"].(string)
	if s == "" {
		s = "bulk"
	}
	return Config{PStart: toInt(m["pstart"]), PEnd: toInt(m["pend"]), PPS: toInt(m["pps"]), NIPs: toInt(m["nips"]),
		NSubs: toInt(m["nsubs"]), LogMode: s, ByRange: m["byrange"] == true, MapCap: toInt(m["mapcap"]), LateIPs: toInt(m["lateips"])}
}

func toInt(v any) int {
	switch x := v.(type) {
	case int:
		return x
	case float64:
		return int(x)
	case int64:
		return int(x)
	case json.Number:
		i, _ := x.Int64()
		return int(i)
	}
	return 0
}

func privIP(sub int) net.IP { return net.IPv4(10, 0, byte(sub/200), byte(sub%200+1)) }
func pubIP(i int) net.IP    { return net.IPv4(198, 51, 100, byte(i)) }
func privIndex(s string) int { // inverse of privIP on its textual form; 0 = not one of ours
	ip := net.ParseIP(s).To4()
	if ip == nil || ip[0] != 10 || ip[1] != 0 || ip[3] == 0 || ip[3] > 200 {
		return 0
	}
	return int(ip[2])*200 + int(ip[3]) - 1
}
func (c Config) pubIndex(ip net.IP) int { // position in the configured list; -1 = not configured
	ip4 := ip.To4()
	if ip4 == nil {
		return -1
	}
	for i := 1; i <= c.NIPs; i++ {
		if pubIP(i).Equal(ip4) {
			return i
		}
	}
	return -1
}

// System implements core.System for one Config.
type System struct {
	C Config
}

func (s *System) Name() string           { return s.C.Name() }
func (s *System) Config() map[string]any { return s.C.Map() }
func (s *System) Events() []core.Event {
	var evs []core.Event
	for sub := 1; sub <= s.C.NSubs; sub++ {
		evs = append(evs, core.Event{"op": "alloc", "sub": sub}, core.Event{"op": "release", "sub": sub})
	}
	for i := s.C.LateIPs; i >= 1; i-- {
		evs = append(evs, core.Event{"op": "addip", "sub": i})
	}
	return evs
}

type lockedBuf struct {
	mu sync.Mutex
	b  bytes.Buffer
	// stall: when armed, the next Write parks until released (a slow disk / blocked pipe under the
	// compliance log); parked is closed once a writer is actually waiting
	armed   bool
	parked  chan struct{}
	release chan struct{}
}

func (l *lockedBuf) arm() {
	l.mu.Lock()
	l.armed, l.parked, l.release = true, make(chan struct{}), make(chan struct{})
	l.mu.Unlock()
}

func (l *lockedBuf) Write(p []byte) (int, error) {
	l.mu.Lock()
	if l.armed {
		l.armed = false
		parked, release := l.parked, l.release
		l.mu.Unlock()
		close(parked)
		<-release
		l.mu.Lock()
	}
	defer l.mu.Unlock()
	return l.b.Write(p)
}
func (l *lockedBuf) take() []byte {
	l.mu.Lock()
	defer l.mu.Unlock()
	out := append([]byte{}, l.b.Bytes()...)
	l.b.Reset()
	return out
}

type callResult struct {
	ok  bool
	blk map[string]any
	err string
}

// gcall is one call running on its own goroutine under the gate scheduler.
type gcall struct {
	op       string
	sub      int
	evc      chan gateMsg  // parked-at-gate / finished notifications to the scheduler
	resume   chan struct{} // scheduler -> call: proceed past the gate
	finished bool
}

type gateMsg struct {
	point string      // non-empty: parked at this gate
	res   *callResult // non-nil: the call returned
}

type inst struct {
	s       *System
	m       *bngnat.Manager
	lg      *bngnat.Logger
	buf     *lockedBuf
	calls   map[int]*gcall
	cur     *gcall // the only gated call currently running (nil: calls run synchronously)
	closing bool
	// a compliance-log flush stalled in its first write (records are withheld meanwhile)
	holdLogs  bool
	flushDone chan struct{}
	stalled   bool
	kmap      *ebpf.Map
	added     map[int]bool // late public addresses already configured
}

func (s *System) New() core.Instance {
	c := s.C
	m, err := bngnat.NewManager(bngnat.ManagerConfig{Interface: "verif0", PortsPerSubscriber: c.PPS,
		PortRangeStart: c.PStart, PortRangeEnd: c.PEnd}, zap.NewNop())
	if err != nil {
		panic(err)
	}
	if c.ByRange {
		if err := m.AddPublicIPRange(pubIP(1), pubIP(c.NIPs)); err != nil {
			panic(err)
		}
	} else {
		for i := c.LateIPs + 1; i <= c.NIPs; i++ {
			if err := m.AddPublicIP(pubIP(i)); err != nil {
				panic(err)
			}
		}
	}
	lg, err := bngnat.NewLogger(bngnat.LoggerConfig{Enabled: true, Format: bngnat.LogFormatJSON, BulkLogging: c.LogMode == "bulk",
		BufferSize: 2 /* Flush reallocates the whole buffer: keep it small */}, zap.NewNop())
	if err != nil {
		panic(err)
	}
	in := &inst{s: s, m: m, lg: lg, buf: &lockedBuf{}, calls: map[int]*gcall{}}
	if c.MapCap > 0 {
		km, err := ebpf.NewMap(&ebpf.MapSpec{Type: ebpf.Hash, KeySize: 4, ValueSize: uint32(binary.Size(bngnat.SubscriberNAT{})), MaxEntries: uint32(c.MapCap)})
		if err != nil {
			panic(fmt.Sprintf("cannot create a kernel map (needed by %s): %v", c.Name(), err))
		}
		core.Field(m, "subscriberNAT").Set(reflect.ValueOf(km))
		in.kmap = km
	}
	lg.VerifSetWriter(in.buf)
	m.SetLogger(lg)
	bngnat.VerifSetGate(m, in.gate)
	return in
}

// gate runs on the goroutine of the call that reached a lock-free point of the manager.
func (in *inst) gate(point string) {
	gc := in.cur
	if gc == nil || in.closing {
		return // synchronous call, or instance being torn down
	}
	gc.evc <- gateMsg{point: point}
	<-gc.resume
}

func noBlock() map[string]any { return map[string]any{"ip": 0, "lo": 0, "hi": 0} }

func (in *inst) block(a *bngnat.Allocation) map[string]any {
	if a == nil {
		return noBlock()
	}
	return map[string]any{"ip": in.s.C.pubIndex(a.PublicIP), "lo": int(a.PortStart), "hi": int(a.PortEnd)}
}

func (in *inst) do(op string, sub int) *callResult {
	switch op {
	case "alloc":
		a, err := in.m.AllocateNAT(privIP(sub))
		if err != nil {
			return &callResult{ok: false, blk: noBlock(), err: errStr(err)}
		}
		return &callResult{ok: true, blk: in.block(a)}
	case "release":
		err := in.m.DeallocateNAT(privIP(sub))
		return &callResult{ok: err == nil, blk: noBlock(), err: errStr(err)}
	case "addip": // the operator configures one more public address (each address once)
		if sub < 1 || sub > in.s.C.LateIPs || in.added[sub] {
			return &callResult{ok: false, blk: noBlock(), err: "not a late address / already configured"}
		}
		if in.added == nil {
			in.added = map[int]bool{}
		}
		in.added[sub] = true
		err := in.m.AddPublicIP(pubIP(sub))
		return &callResult{ok: err == nil, blk: noBlock(), err: errStr(err)}
	}
	panic("unknown op " + op)
}

func errStr(err error) string {
	if err == nil {
		return ""
	}
	m := err.Error()
	if len(m) > 60 {
		m = m[:60]
	}
	return m
}

// logs flushes the compliance logger through its real formatting path and projects the
// records written since the last call.
func (in *inst) logs() []map[string]any {
	if in.holdLogs {
		return []map[string]any{}
	}
	// (Flush reallocates its whole buffer even when empty: only flush what holds records)
	st := in.lg.GetStats()
	if n, _ := st["buffer_used"].(int); n > 0 {
		in.lg.Flush()
	}
	if n, _ := st["port_block_buffer_used"].(int); n > 0 {
		in.lg.FlushPortBlocks()
	}
	out := []map[string]any{}
	raw := in.buf.take()
	if len(raw) == 0 {
		return out
	}
	for _, lb := range bytes.Split(raw, []byte{'\n'}) {
		line := strings.TrimSpace(string(lb))
		if line == "" {
			continue
		}
		var r map[string]any
		if err := json.Unmarshal([]byte(line), &r); err != nil {
			out = append(out, map[string]any{"kind": "unparsable", "sub": 0, "ip": 0, "lo": 0, "hi": -1})
			continue
		}
		et, _ := r["event_type"].(string)
		priv, _ := r["private_ip"].(string)
		pub, _ := r["public_ip"].(string)
		rec := map[string]any{"kind": et, "sub": privIndex(priv), "ip": in.s.C.pubIndex(net.ParseIP(pub)), "lo": 0, "hi": -1}
		switch et {
		case "port_block_assign":
			rec["kind"] = "assign"
			rec["lo"] = toInt(r["port_start"])
			rec["hi"] = toInt(r["port_end"])
		case "port_block_release":
			rec["kind"] = "release"
			rec["lo"] = toInt(r["port_start"])
		case "allocate":
			rec["kind"] = "assign"
			rec["lo"] = toInt(r["public_port"]) // first port only; the size is configuration
		case "deallocate":
			rec["kind"] = "release"
			rec["lo"] = toInt(r["public_port"])
		}
		out = append(out, rec)
	}
	return out
}

const gateTimeout = 20 * time.Second

// Apply executes one step. Without "call" (or call 0) the operation runs synchronously to
// completion. With call = k > 0 the step runs call k up to its next gate or its return: the
// first step with a new k invokes op(sub) on a fresh goroutine.
func (in *inst) Apply(ev core.Event) map[string]any {
	op := ev["op"].(string)
	sub := toInt(ev["sub"])
	k := toInt(ev["call"])
	if op == "flush" {
		return in.slowFlush(ev["phase"].(string))
	}
	if k == 0 {
		r := in.do(op, sub)
		return map[string]any{"first": true, "done": true, "ok": r.ok, "blk": r.blk, "err": r.err, "logs": in.logs(), "point": ""}
	}
	gc := in.calls[k]
	first := false
	if gc == nil {
		gc = &gcall{op: op, sub: sub, evc: make(chan gateMsg), resume: make(chan struct{})}
		in.calls[k] = gc
		first = true
		in.cur = gc
		go func() {
			r := in.do(gc.op, gc.sub)
			gc.evc <- gateMsg{res: r}
		}()
	} else if gc.finished {
		// the schedule steps a call that has already returned (a schedule written for another
		// version of the code): nothing happens
		return map[string]any{"first": false, "done": false, "ok": false, "blk": noBlock(), "err": "", "logs": in.logs(), "point": "finished"}
	} else {
		in.cur = gc
		gc.resume <- struct{}{}
	}
	var msg gateMsg
	select {
	case msg = <-gc.evc:
	case <-time.After(gateTimeout):
		panic(fmt.Sprintf("gated call %d (%s sub %d) neither reached a gate nor returned: a gate under a lock?", k, gc.op, gc.sub))
	}
	in.cur = nil
	if msg.res != nil {
		gc.finished = true
		return map[string]any{"first": first, "done": true, "ok": msg.res.ok, "blk": msg.res.blk, "err": msg.res.err, "logs": in.logs(), "point": ""}
	}
	return map[string]any{"first": first, "done": false, "ok": false, "blk": noBlock(), "err": "", "logs": in.logs(), "point": msg.point}
}

// slowFlush models the logger's background flush hitting a slow sink: "begin" starts Logger.Flush on
// its own goroutine and lets it park in its first write; calls made until "end" log into the
// logger's buffer while that flush is still writing. In the contract's vocabulary the flush is a
// call in flight (first/done), so the log need not reconstruct the table until it has finished.
func (in *inst) slowFlush(phase string) map[string]any {
	res := func(first, done bool, logs []map[string]any) map[string]any {
		return map[string]any{"first": first, "done": done, "ok": true, "blk": noBlock(), "err": "", "logs": logs, "point": ""}
	}
	if phase == "hold" { // records pile up in the logger's buffer: the (eventual) flush is in flight from here on
		if in.holdLogs {
			return res(false, false, []map[string]any{})
		}
		in.holdLogs = true
		return res(true, false, []map[string]any{})
	}
	if phase == "begin" {
		first := !in.holdLogs
		in.holdLogs = true
		if in.flushDone != nil {
			return res(false, false, []map[string]any{})
		}
		in.buf.arm()
		in.flushDone = make(chan struct{})
		go func() {
			in.lg.Flush()
			in.lg.FlushPortBlocks()
			close(in.flushDone)
		}()
		select {
		case <-in.buf.parked:
			in.stalled = true
		case <-in.flushDone: // nothing was buffered: the flush returned without writing
			in.stalled = false
			in.buf.mu.Lock()
			in.buf.armed = false
			in.buf.mu.Unlock()
		case <-time.After(gateTimeout):
			panic("slow flush neither parked nor returned")
		}
		return res(first, false, []map[string]any{})
	}
	if !in.holdLogs {
		return res(false, false, in.logs())
	}
	if in.flushDone == nil { // held but never begun
		in.holdLogs = false
		return res(false, true, in.logs())
	}
	if in.stalled {
		close(in.buf.release)
	} else {
		in.buf.mu.Lock()
		in.buf.armed = false
		in.buf.mu.Unlock()
	}
	select {
	case <-in.flushDone:
	case <-time.After(gateTimeout):
		panic("stalled flush did not finish after the sink was released")
	}
	in.holdLogs = false
	in.flushDone = nil
	return res(false, true, in.logs())
}

func (in *inst) Observe() map[string]any {
	bl := make([]map[string]any, in.s.C.NSubs)
	for s := 1; s <= in.s.C.NSubs; s++ {
		bl[s-1] = in.block(in.m.GetAllocation(privIP(s)))
	}
	return map[string]any{"blocks": bl}
}

// everything that can influence a future observed answer: the allocations map, the pool
// entries (subscriber counts) and the port configuration. Subscriber-id numbering is not
// observed (the property does not speak about it) and therefore not part of the fingerprint.
var fpOpt = &core.FPOptions{
	SkipFields: map[string]bool{"SubscriberID": true, "nextSubscriberID": true, "subscriberIDs": true, "AllocatedAt": true,
		"natLogger": true, "logger": true, "usedBlocks": true},
	SkipTypes: []string{"*nat.Logger", "*ebpf."},
}

// Fingerprint: the reflection walk of the whole Manager, except that the per-address block
// bitmap (one bool per block, 64512 of them with one port per subscriber) is rendered as the
// list of its set indices.
func (in *inst) Fingerprint() string {
	var sb strings.Builder
	sb.WriteString(core.Fingerprint(in.m, fpOpt))
	pool := core.Field(in.m, "pool")
	for i := 0; i < pool.Len(); i++ {
		ub := pool.Index(i).FieldByName("usedBlocks")
		if !ub.IsValid() {
			continue // a tree without the bitmap
		}
		fmt.Fprintf(&sb, "|used%d:", i)
		for k := 0; k < ub.Len(); k++ {
			if ub.Index(k).Bool() {
				fmt.Fprintf(&sb, "%d,", k)
			}
		}
	}
	return sb.String()
}

func (in *inst) Probe() map[string]any { return nil }

// Close lets every parked call run to completion (no goroutine is left behind) and drops the gate.
func (in *inst) Close() {
	in.closing = true
	if in.kmap != nil {
		defer in.kmap.Close()
	}
	for _, gc := range in.calls {
		if gc.finished {
			continue
		}
		gc.resume <- struct{}{}
		for !gc.finished {
			select {
			case msg := <-gc.evc:
				if msg.res != nil {
					gc.finished = true
				}
			case <-time.After(gateTimeout):
				gc.finished = true // leaked goroutine; reported by the step that parked it
			}
		}
	}
	bngnat.VerifSetGate(in.m, nil)
}
