package nat

import (
	"encoding/json"
	"fmt"
	"math/rand"
	"os"
	"strings"
	"testing"
	"time"

	"verifharness/core"
)

type replayCase struct {
	ID     string         `json:"id"`
	System string         `json:"system"`
	NSubs  int            `json:"nsubs"`
	Events []core.Event   `json:"events"`
	Cfg    map[string]any `json:"cfg"`
}

type replayFile struct {
	Property string       `json:"property"`
	Cases    []replayCase `json:"cases"`
}

type runStats struct {
	Systems     int                `json:"systems"`
	Nodes       int                `json:"nodes"`
	Edges       int                `json:"edges"`
	Closed      int                `json:"closed_systems"`
	Chains      int                `json:"chains"`
	ChainEvents int                `json:"chain_events"`
	GatedChains int                `json:"gated_chains"`
	GatedEvents int                `json:"gated_events"`
	GatePoints  map[string]int     `json:"gate_points"` // how often each gate parked a call
	Scenarios   int                `json:"scenarios"`
	Panics      []core.PanicRecord `json:"panics"`
	PerSystem   map[string][3]int  `json:"per_system"` // nodes, edges, closed(1/0)
	Concurrency string             `json:"concurrency"`
}

// port configurations of DESIGN.md section 7 C10 (start, end, ports per subscriber)
var (
	pDefault  = [3]int{1024, 65535, 1024}  // 63 blocks
	pNonDiv   = [3]int{1024, 65535, 1000}  // 64 blocks, 512 ports left over
	pHigh     = [3]int{60000, 65535, 2048} // 2 blocks per address
	pWhole    = [3]int{1, 65535, 65535}    // one block = the whole range, ends at 65535
	pSingle   = [3]int{1024, 65535, 1}     // one port per subscriber
	pSmallOdd = [3]int{65000, 65535, 100}  // 5 blocks, non-dividing, near the top
	pLastPort = [3]int{65534, 65535, 1}    // 2 one-port blocks ending at 65535
	pTinyOdd  = [3]int{65000, 65535, 150}  // 3 blocks, 86 ports left over
)

func cfg(p [3]int, nips, nsubs int, mode string) Config {
	// pools of three addresses are configured with one AddPublicIPRange call
	return Config{PStart: p[0], PEnd: p[1], PPS: p[2], NIPs: nips, NSubs: nsubs, LogMode: mode, ByRange: nips >= 3}
}

// tableConfigs: closed transition tables (fixed point of the real object under the alphabet).
func tableConfigs(tier string) []Config {
	if tier == "thorough" {
		return []Config{
			cfg(pDefault, 1, 6, "bulk"), cfg(pDefault, 2, 5, "plain"),
			cfg(pNonDiv, 1, 5, "plain"),
			cfg(pHigh, 1, 6, "bulk"), cfg(pHigh, 2, 6, "plain"), cfg(pHigh, 3, 6, "bulk"),
			cfg(pWhole, 1, 6, "plain"), cfg(pWhole, 2, 6, "bulk"), cfg(pWhole, 3, 6, "plain"),
			cfg(pSingle, 1, 5, "bulk"),
			cfg(pSmallOdd, 1, 6, "plain"), cfg(pSmallOdd, 2, 4, "bulk"), cfg(pTinyOdd, 1, 6, "bulk"), cfg(pTinyOdd, 2, 6, "plain"),
			cfg(pLastPort, 1, 4, "bulk"), cfg(pLastPort, 3, 6, "plain"),
			withMap(cfg(pHigh, 1, 5, "bulk"), 2), withMap(cfg(pWhole, 2, 5, "plain"), 1), withMap(cfg(pDefault, 1, 4, "plain"), 3),
			withLate(cfg(pHigh, 2, 5, "plain"), 1), withLate(cfg(pWhole, 2, 4, "bulk"), 1), withLate(cfg(pHigh, 3, 5, "bulk"), 2),
		}
	}
	return []Config{
		cfg(pDefault, 1, 5, "bulk"),
		cfg(pNonDiv, 1, 4, "plain"),
		cfg(pHigh, 1, 6, "bulk"), cfg(pHigh, 2, 6, "plain"), cfg(pHigh, 3, 4, "bulk"),
		cfg(pWhole, 1, 6, "plain"), cfg(pWhole, 2, 6, "bulk"), cfg(pWhole, 3, 6, "plain"),
		cfg(pSingle, 1, 4, "bulk"),
		cfg(pSmallOdd, 1, 4, "plain"), cfg(pTinyOdd, 1, 6, "bulk"),
		cfg(pLastPort, 2, 5, "bulk"),
		withMap(cfg(pHigh, 1, 4, "bulk"), 2), withMap(cfg(pWhole, 2, 4, "plain"), 1),
		withLate(cfg(pHigh, 2, 4, "plain"), 1), withLate(cfg(pWhole, 2, 3, "bulk"), 1),
	}
}

// withMap: the same configuration with a kernel map of n entries behind the manager
func withMap(c Config, n int) Config { c.MapCap = n; return c }

// chainConfigs: long random histories with more subscribers than blocks (exhaustion and reuse).
// withLate: the first n public addresses (the ones that sort first) are configured while the gateway runs
func withLate(c Config, n int) Config { c.LateIPs = n; c.ByRange = false; return c }

func chainConfigs() []Config {
	return []Config{
		cfg(pDefault, 1, 12, "bulk"),
		cfg(pNonDiv, 1, 70, "plain"), // 64 blocks
		cfg(pHigh, 3, 8, "bulk"),     // 6 blocks
		cfg(pSmallOdd, 2, 12, "plain"),
		cfg(pSingle, 2, 20, "bulk"),
		cfg(pWhole, 3, 5, "plain"),
	}
}

func randomChain(rng *rand.Rand, nsubs, n int) []core.Event {
	var evs []core.Event
	pAlloc := 0.6
	for i := 0; i < n; i++ {
		if i%50 == 0 { // phases: mostly allocate / mostly release, so that full and empty are reached
			pAlloc = []float64{0.75, 0.5, 0.3, 0.6}[rng.Intn(4)]
		}
		op := "release"
		if rng.Float64() < pAlloc {
			op = "alloc"
		}
		evs = append(evs, core.Event{"op": op, "sub": 1 + rng.Intn(nsubs)})
	}
	return evs
}

type call struct {
	op  string
	sub int
}

func seq(cs ...call) []core.Event {
	var evs []core.Event
	for _, c := range cs {
		evs = append(evs, core.Event{"op": c.op, "sub": c.sub})
	}
	return evs
}

// interleavings enumerates, by depth-first search on the REAL object, every schedule of the
// given concurrent calls (after the sequential prefix): a schedule is the order in which the
// calls' gate-delimited segments run. Each complete schedule becomes one chain.
func interleavings(sys *System, prefix []core.Event, calls []call, emit func(events []core.Event)) {
	var dfs func(sched []int)
	dfs = func(sched []int) {
		// replay the schedule on a fresh object to learn which calls are still running
		in := sys.New()
		for _, e := range prefix {
			in.Apply(e)
		}
		done := make([]bool, len(calls))
		var evs []core.Event
		for _, k := range sched {
			ev := core.Event{"op": calls[k].op, "sub": calls[k].sub, "call": k + 1}
			r := in.Apply(ev)
			evs = append(evs, ev)
			if r["done"].(bool) {
				done[k] = true
			}
		}
		in.Close()
		all := true
		for k := range calls {
			if !done[k] {
				all = false
				dfs(append(append([]int{}, sched...), k))
			}
		}
		if all {
			emit(append(append([]core.Event{}, prefix...), evs...))
		}
	}
	dfs(nil)
}

// multisets of size n over the call alphabet (order inside a set is irrelevant: every schedule is enumerated)
func callSets(alpha []call, n int) [][]call {
	var out [][]call
	var rec func(start int, cur []call)
	rec = func(start int, cur []call) {
		if len(cur) == n {
			out = append(out, append([]call{}, cur...))
			return
		}
		for i := start; i < len(alpha); i++ {
			rec(i, append(cur, alpha[i]))
		}
	}
	rec(0, nil)
	return out
}

// scenarios: the counterexample schedules TLC finds for the design as found
// (specs/NatBlocks/MC_algo_asfound_*.cfg), transcribed to harness events. Steps of a call
// that has already returned are no-ops, so the same schedule can be replayed on any version.
func scenarios() []struct {
	name string
	c    Config
	evs  []core.Event
} {
	g := func(op string, sub, k int) core.Event { return core.Event{"op": op, "sub": sub, "call": k} }
	return []struct {
		name string
		c    Config
		evs  []core.Event
	}{
		{"middle-release", cfg(pDefault, 1, 3, "bulk"),
			seq(call{"alloc", 1}, call{"alloc", 2}, call{"release", 1}, call{"alloc", 3})},
		{"same-address-race", cfg(pDefault, 1, 2, "bulk"),
			[]core.Event{g("alloc", 1, 1), g("alloc", 1, 2), g("alloc", 1, 1), g("alloc", 1, 2)}},
		{"release-alloc-race", cfg(pDefault, 1, 2, "plain"),
			[]core.Event{{"op": "alloc", "sub": 2}, g("release", 2, 1), g("release", 2, 1), g("alloc", 1, 2), g("alloc", 1, 2), g("release", 2, 1)}},
	}
}

// TestExplore extracts the transition tables of the real nat.Manager, runs long random
// histories and every gate-delimited interleaving of 2 (thorough: 3) concurrent calls.
func TestExplore(t *testing.T) {
	out := core.OutDir()
	if rf := os.Getenv("VERIF_REPLAY"); rf != "" {
		replay(t, rf, out)
		return
	}
	tier := core.Tier()
	seed := core.Seed()
	t0 := time.Now()
	maxNodes := 6000
	nchains, chainLen := 2, 300
	if tier == "thorough" {
		maxNodes = 40000
		nchains, chainLen = 20, 500
	}
	bundle := &core.Bundle{}
	st := runStats{PerSystem: map[string][3]int{}, GatePoints: map[string]int{},
		Concurrency: "gated: every interleaving of the lock-free windows marked by verifGate in pkg/nat/manager.go"}

	// 1. closed tables
	for _, c := range tableConfigs(tier) {
		sys := &System{C: c}
		tab, panics, err := core.Explore(sys, core.ExploreOptions{MaxDepth: 0, MaxNodes: maxNodes, AdequacySample: 5, Seed: seed})
		if err != nil {
			t.Fatalf("explore %s: %v", c.Name(), err)
		}
		st.Panics = append(st.Panics, panics...)
		bundle.Systems = append(bundle.Systems, tab)
		ne := 0
		for _, es := range tab.Edges {
			ne += len(es)
		}
		cl := 0
		if tab.Closed {
			cl = 1
			st.Closed++
		}
		st.PerSystem[c.Name()] = [3]int{len(tab.Nodes), ne, cl}
		st.Systems++
		st.Nodes += len(tab.Nodes)
		st.Edges += ne
	}

	t.Logf("tables: %d systems %d nodes %d edges in %v", st.Systems, st.Nodes, st.Edges, time.Since(t0))
	// 2. long random histories
	rng := rand.New(rand.NewSource(seed))
	for _, c := range chainConfigs() {
		sys := &System{C: c}
		for i := 0; i < nchains; i++ {
			evs := randomChain(rng, c.NSubs, chainLen)
			tab, pr := core.Chain(sys, fmt.Sprintf("%s#s%d-%d", c.Name(), seed, i), evs, false)
			if pr != nil {
				st.Panics = append(st.Panics, *pr)
				continue
			}
			bundle.Systems = append(bundle.Systems, tab)
			st.Chains++
			st.ChainEvents += len(evs)
		}
	}

	t.Logf("chains done at %v", time.Since(t0))
	// 3. concurrent callers: every interleaving of the gate-delimited segments
	type gatedSetup struct {
		c      Config
		prefix []core.Event
	}
	a := func(s int) call { return call{"alloc", s} }
	r := func(s int) call { return call{"release", s} }
	setups := []gatedSetup{
		{cfg(pDefault, 1, 3, "bulk"), nil},
		{cfg(pDefault, 1, 3, "plain"), seq(a(1), a(2), a(3))},
		{cfg(pDefault, 1, 3, "bulk"), seq(a(1), a(2), a(3), r(2))},
		{cfg(pHigh, 1, 3, "plain"), seq(a(1), a(2))},      // address full: exhaustion paths
		{cfg(pHigh, 2, 3, "bulk"), seq(a(1), a(2), r(1))}, // hole on the first address, second address empty
	}
	alpha := []call{a(1), r(1), a(2), r(2), a(3), r(3)}
	sizes := []int{2}
	if tier == "thorough" {
		sizes = []int{2, 3}
	}
	gi := 0
	for si, su := range setups {
		sys := &System{C: su.c}
		for _, n := range sizes {
			if n == 3 && tier != "thorough" {
				continue
			}
			for _, cs := range callSets(alpha, n) {
				interleavings(sys, su.prefix, cs, func(evs []core.Event) {
					tab, pr := core.Chain(sys, fmt.Sprintf("%s#g%d-%d", su.c.Name(), si, gi), evs, false)
					gi++
					if pr != nil {
						st.Panics = append(st.Panics, *pr)
						return
					}
					for _, es := range tab.Edges {
						for _, e := range es {
							if p, _ := e.Ev["point"].(string); p != "" {
								st.GatePoints[p]++
							}
						}
					}
					bundle.Systems = append(bundle.Systems, tab)
					st.GatedChains++
					st.GatedEvents += len(evs)
				})
			}
		}
	}
	// quick tier: one setup also with three concurrent calls
	if tier != "thorough" {
		su := setups[2]
		sys := &System{C: su.c}
		for _, cs := range callSets(alpha, 3) {
			interleavings(sys, su.prefix, cs, func(evs []core.Event) {
				tab, pr := core.Chain(sys, fmt.Sprintf("%s#g3-%d", su.c.Name(), gi), evs, false)
				gi++
				if pr != nil {
					st.Panics = append(st.Panics, *pr)
					return
				}
				bundle.Systems = append(bundle.Systems, tab)
				st.GatedChains++
				st.GatedEvents += len(evs)
			})
		}
	}

	// 3b. the compliance log's background flush stalled in a slow sink while calls keep logging
	{
		nsf := 40
		if tier == "thorough" {
			nsf = 400
		}
		rngF := rand.New(rand.NewSource(seed + 4242))
		for i := 0; i < nsf; i++ {
			// plain log mode: in bulk mode a call whose record fills the block buffer flushes inline and
			// would itself wait for the stalled sink
			c := cfg(pDefault, 1+i%2, 5, "plain")
			sys := &System{C: c}
			var evs []core.Event
			rnd := func(n int) {
				for k := 0; k < n; k++ {
					op := "alloc"
					if rngF.Intn(3) == 0 {
						op = "release"
					}
					evs = append(evs, core.Event{"op": op, "sub": 1 + rngF.Intn(5)})
				}
			}
			// records pile up in the buffer, a flush starts and stalls, more calls log, the flush finishes
			evs = append(evs, core.Event{"op": "flush", "sub": 0, "phase": "hold"})
			rnd(2 + rngF.Intn(3))
			evs = append(evs, core.Event{"op": "flush", "sub": 0, "phase": "begin"})
			rnd(2 + rngF.Intn(4))
			evs = append(evs, core.Event{"op": "flush", "sub": 0, "phase": "end"})
			rnd(2)
			tab, pr := core.Chain(sys, fmt.Sprintf("%s#f%d", c.Name(), i), evs, false)
			if pr != nil {
				st.Panics = append(st.Panics, *pr)
				continue
			}
			bundle.Systems = append(bundle.Systems, tab)
			st.Chains++
			st.ChainEvents += len(evs)
		}
	}

	t.Logf("gated: %d chains at %v", st.GatedChains, time.Since(t0))
	// 4. the design counterexamples, replayed on the real code
	for _, sc := range scenarios() {
		sys := &System{C: sc.c}
		tab, pr := core.Chain(sys, fmt.Sprintf("%s#x-%s", sc.c.Name(), sc.name), sc.evs, false)
		if pr != nil {
			st.Panics = append(st.Panics, *pr)
			continue
		}
		bundle.Systems = append(bundle.Systems, tab)
		st.Scenarios++
	}

	if err := core.WriteJSON(out, "bundle.json", bundle); err != nil {
		t.Fatal(err)
	}
	if err := core.WriteJSON(out, "stats.json", st); err != nil {
		t.Fatal(err)
	}
}

func replay(t *testing.T, file, out string) {
	b, err := os.ReadFile(file)
	if err != nil {
		t.Fatal(err)
	}
	var rf replayFile
	if err := json.Unmarshal(b, &rf); err != nil {
		t.Fatal(err)
	}
	st := runStats{PerSystem: map[string][3]int{}, GatePoints: map[string]int{}}
	bundle := &core.Bundle{}
	for _, c := range rf.Cases {
		if c.Cfg == nil || toInt(c.Cfg["pps"]) == 0 {
			t.Fatalf("replay case %s: cfg with pstart/pend/pps/nips/nsubs/logmode required", c.ID)
		}
		conf := ConfigFromMap(c.Cfg)
		if c.NSubs > conf.NSubs {
			conf.NSubs = c.NSubs
		}
		name := c.System
		if i := strings.IndexByte(name, '#'); i >= 0 {
			name = name[:i]
		}
		if name == "" {
			name = conf.Name()
		}
		sys := &System{C: conf}
		tab, pr := core.Chain(sys, name+"#"+c.ID, c.Events, false)
		if pr != nil {
			pr.System = name + "#" + c.ID
			st.Panics = append(st.Panics, *pr)
			continue
		}
		bundle.Systems = append(bundle.Systems, tab)
		st.Chains++
	}
	if err := core.WriteJSON(out, "bundle.json", bundle); err != nil {
		t.Fatal(err)
	}
	core.WriteJSON(out, "stats.json", st)
}
