//go:build verif

// Package bpfnative runs the gateway's bpf/*.c programs as ordinary user-space C (compiled
// from /repo's current tree with the shim headers in /verif/cshim) and mirrors real kernel
// eBPF maps - written by the Go control plane through cilium/ebpf - into the native program.
package bpfnative

import (
	"bufio"
	"encoding/hex"
	"fmt"
	"io"
	"os"
	"os/exec"
	"path/filepath"
	"strconv"
	"strings"
	"sync"

	"github.com/cilium/ebpf"
)

func repoDir() string {
	if d := os.Getenv("VERIF_REPO"); d != "" {
		return d
	}
	return "/repo"
}

func cshimDir() string {
	if d := os.Getenv("VERIF_CSHIM"); d != "" {
		return d
	}
	return "/verif/cshim"
}

var buildMu sync.Mutex

// Build compiles cshim/drv_<name>.c against <repo>/bpf and returns the executable's path.
func Build(name, outDir string) (string, error) {
	buildMu.Lock()
	defer buildMu.Unlock()
	out := filepath.Join(outDir, "drv_"+name)
	cmd := exec.Command("clang", "-O1", "-g", "-Wno-comment", "-Wno-unused-function", "-I", cshimDir(), "-I", filepath.Join(repoDir(), "bpf"),
		"-o", out, filepath.Join(cshimDir(), "drv_"+name+".c"))
	b, err := cmd.CombinedOutput()
	if err != nil {
		return "", fmt.Errorf("native build of %s failed: %v\n%s", name, err, b)
	}
	return out, nil
}

// MapInfo is one map declaration of the C program (sizes come from the C source).
type MapInfo struct {
	Name                string
	Type                int
	KeySize, ValueSize  int
	MaxEntries          int
}

// Driver is one running native program.
type Driver struct {
	cmd *exec.Cmd
	in  io.WriteCloser
	out *bufio.Reader
	mu  sync.Mutex
}

func Start(path string) (*Driver, error) {
	cmd := exec.Command(path)
	in, err := cmd.StdinPipe()
	if err != nil {
		return nil, err
	}
	outp, err := cmd.StdoutPipe()
	if err != nil {
		return nil, err
	}
	cmd.Stderr = os.Stderr
	if err := cmd.Start(); err != nil {
		return nil, err
	}
	return &Driver{cmd: cmd, in: in, out: bufio.NewReaderSize(outp, 1<<17)}, nil
}

func (d *Driver) Close() {
	d.in.Close()
	d.cmd.Wait()
}

func (d *Driver) line(cmd string) (string, error) {
	if _, err := io.WriteString(d.in, cmd+"\n"); err != nil {
		return "", fmt.Errorf("native driver died (write): %v", err)
	}
	s, err := d.out.ReadString('\n')
	if err != nil {
		return "", fmt.Errorf("native driver died (read after %q): %v", cmd[:min(len(cmd), 60)], err)
	}
	return strings.TrimSpace(s), nil
}

func hx(b []byte) string {
	if len(b) == 0 {
		return "-"
	}
	return hex.EncodeToString(b)
}

func (d *Driver) Maps() ([]MapInfo, error) {
	d.mu.Lock()
	defer d.mu.Unlock()
	if _, err := io.WriteString(d.in, "maps\n"); err != nil {
		return nil, err
	}
	var out []MapInfo
	for {
		s, err := d.out.ReadString('\n')
		if err != nil {
			return nil, err
		}
		s = strings.TrimSpace(s)
		if s == "ok" {
			return out, nil
		}
		f := strings.Fields(s)
		if len(f) != 6 || f[0] != "map" {
			return nil, fmt.Errorf("bad maps line %q", s)
		}
		t, _ := strconv.Atoi(f[2])
		k, _ := strconv.Atoi(f[3])
		v, _ := strconv.Atoi(f[4])
		m, _ := strconv.Atoi(f[5])
		out = append(out, MapInfo{Name: f[1], Type: t, KeySize: k, ValueSize: v, MaxEntries: m})
	}
}

func (d *Driver) expectOK(cmd string) error {
	d.mu.Lock()
	defer d.mu.Unlock()
	s, err := d.line(cmd)
	if err != nil {
		return err
	}
	if s != "ok" {
		return fmt.Errorf("native driver: %q -> %q", cmd[:min(len(cmd), 80)], s)
	}
	return nil
}

func (d *Driver) Reset() error                          { return d.expectOK("reset") }
func (d *Driver) SetTime(ns uint64) error               { return d.expectOK("time " + strconv.FormatUint(ns, 10)) }
func (d *Driver) Set(m string, k, v []byte) error       { return d.expectOK("set " + m + " " + hx(k) + " " + hx(v)) }
func (d *Driver) Del(m string, k []byte) error          { return d.expectOK("del " + m + " " + hx(k)) }

func (d *Driver) Get(m string, k []byte) ([]byte, bool, error) {
	d.mu.Lock()
	defer d.mu.Unlock()
	s, err := d.line("get " + m + " " + hx(k))
	if err != nil {
		return nil, false, err
	}
	if s == "none" {
		return nil, false, nil
	}
	f := strings.Fields(s)
	if len(f) != 2 || f[0] != "val" {
		return nil, false, fmt.Errorf("native driver get: %q", s)
	}
	b, err := hex.DecodeString(f[1])
	return b, true, err
}

// Run executes program prog on frame; tail is program specific. Returns verdict, frame after, aux.
func (d *Driver) Run(prog string, frame []byte, tail int) (int, []byte, uint32, error) {
	d.mu.Lock()
	defer d.mu.Unlock()
	s, err := d.line(fmt.Sprintf("run %s %s %d", prog, hx(frame), tail))
	if err != nil {
		return 0, nil, 0, err
	}
	f := strings.Fields(s)
	if len(f) != 4 || f[0] != "verdict" {
		return 0, nil, 0, fmt.Errorf("native driver run: %q", s[:min(len(s), 120)])
	}
	v, _ := strconv.Atoi(f[1])
	var after []byte
	if f[2] != "-" {
		after, err = hex.DecodeString(f[2])
		if err != nil {
			return 0, nil, 0, err
		}
	}
	aux, _ := strconv.ParseUint(f[3], 10, 32)
	return v, after, uint32(aux), nil
}

// NewKernelMap creates a real kernel map with the C-declared key/value sizes (capacity reduced).
func NewKernelMap(mi MapInfo) (*ebpf.Map, error) {
	spec := &ebpf.MapSpec{Name: trunc(mi.Name), Type: ebpf.MapType(mi.Type), KeySize: uint32(mi.KeySize), ValueSize: uint32(mi.ValueSize), MaxEntries: uint32(min(max(mi.MaxEntries, 1), 128))}
	if spec.Type == ebpf.LPMTrie {
		spec.Flags = 1 // BPF_F_NO_PREALLOC
	}
	if spec.Type == ebpf.PerCPUArray {
		spec.Type = ebpf.Array
	}
	return ebpf.NewMap(spec)
}

func trunc(s string) string {
	if len(s) > 15 {
		return s[:15]
	}
	return s
}

// Dump returns all (key, value) byte pairs of a kernel map.
func Dump(m *ebpf.Map) ([][2][]byte, error) {
	var out [][2][]byte
	it := m.Iterate()
	k := make([]byte, m.KeySize())
	v := make([]byte, m.ValueSize())
	for it.Next(&k, &v) {
		out = append(out, [2][]byte{append([]byte{}, k...), append([]byte{}, v...)})
	}
	return out, it.Err()
}

// Mirror replaces the native program's copy of map name by the kernel map's contents.
func (d *Driver) Mirror(name string, m *ebpf.Map, old [][2][]byte) ([][2][]byte, error) {
	cur, err := Dump(m)
	if err != nil {
		return nil, err
	}
	for _, kv := range old {
		if err := d.Del(name, kv[0]); err != nil {
			return nil, err
		}
	}
	for _, kv := range cur {
		if err := d.Set(name, kv[0], kv[1]); err != nil {
			return nil, err
		}
	}
	return cur, nil
}
