//go:build verif

// Package qos binds the QoS control plane (pkg/qos.Manager writing real kernel maps) and the TC
// token bucket bpf/qos_ratelimit.c (compiled natively, scripted bpf_ktime_get_ns) to the
// TokenBucket contract (property C19). Each trace = one policy set through the manager API +
// one arrival sequence; the verdict sequence is judged by Apalache (64-bit values).
package qos

import (
	"encoding/binary"
	"encoding/json"
	"fmt"
	"math/rand"
	"net"
	"os"
	"path/filepath"
	"reflect"
	"testing"

	"github.com/cilium/ebpf"
	q "github.com/codelaboratoryltd/bng/pkg/qos"
	"github.com/codelaboratoryltd/bng/pkg/radius"
	"go.uber.org/zap"

	"verifharness/bpfnative"
	"verifharness/core"
)

type Ev struct {
	E    uint64 `json:"e"` // nanoseconds elapsed since the first arrival (the kernel clock T may wrap)
	T    uint64 `json:"t"`
	Size int    `json:"size"`
	Adm  bool   `json:"adm"`
}

type Trace struct {
	ID         string `json:"id"`
	Dir        string `json:"dir"`
	RateBPS    uint64 `json:"rate_bps"` // as handed to the control plane
	Burst      uint64 `json:"burst"`    // burst_bytes of the bucket the manager wrote (0 if no bucket was found)
	MapRate    uint64 `json:"map_rate"` // rate_bps found in the map (information)
	Backlogged bool   `json:"backlogged"`
	MaxPkt     int    `json:"maxpkt"`
	Pattern    string `json:"pattern"`
	Clock0     uint64 `json:"clock0"`
	Events     []Ev   `json:"events"`
	ViaPolicy  bool   `json:"via_policy"`
}

type spec struct {
	ID      string `json:"id"`
	Dir     string `json:"dir"`
	Rate    uint64 `json:"rate"`
	Burst   uint32 `json:"burst"`
	Pattern string `json:"pattern"`
	Clock0  uint64 `json:"clock0"`
	N       int    `json:"n"`
	Seed    int64  `json:"seed"`
	Policy  bool   `json:"policy"`
	// an earlier policy of the same subscriber, set (and optionally removed) before the one under test
	Prev     bool   `json:"prev"`
	PrevRate uint64 `json:"prev_rate"`
	Remove   bool   `json:"remove"`
}

func frameFor(dir string, sub net.IP, size int) []byte {
	if size < 34 {
		size = 34
	}
	f := make([]byte, 34) // only the linear headers are materialised; skb->len carries the wire length
	copy(f[0:6], []byte{2, 0, 0, 0, 0, 1})
	copy(f[6:12], []byte{2, 0, 0, 0, 0, 2})
	f[12], f[13] = 0x08, 0x00
	f[14] = 0x45
	binary.BigEndian.PutUint16(f[16:], uint16(min(size-14, 65535)))
	f[22], f[23] = 64, 17
	other := net.IPv4(203, 0, 113, 9).To4()
	if dir == "egress" {
		copy(f[26:30], other)
		copy(f[30:34], sub.To4())
	} else {
		copy(f[26:30], sub.To4())
		copy(f[30:34], other)
	}
	return f
}

// runTrace sets the policy through the real manager, mirrors the maps and feeds the arrivals.
func runTrace(t *testing.T, drvPath string, infos []bpfnative.MapInfo, sp spec) Trace {
	drv, err := bpfnative.Start(drvPath)
	if err != nil {
		t.Fatal(err)
	}
	defer drv.Close()
	pm := radius.NewPolicyManager()
	mgr, err := q.NewManager(q.ManagerConfig{Interface: "verif0"}, pm, zap.NewNop())
	if err != nil {
		t.Fatal(err)
	}
	maps := map[string]*ebpf.Map{}
	fields := map[string]string{"qos_egress": "qosEgress", "qos_ingress": "qosIngress"}
	for _, mi := range infos {
		f, ok := fields[mi.Name]
		if !ok {
			continue
		}
		km, err := bpfnative.NewKernelMap(mi)
		if err != nil {
			t.Fatalf("cannot create kernel map %s: %v", mi.Name, err)
		}
		defer km.Close()
		maps[mi.Name] = km
		core.Field(mgr, f).Set(reflect.ValueOf(km))
	}
	sub := net.IPv4(10, 77, 3, 9).To4()
	if sp.Prev && sp.Policy {
		// the plan itself is redefined: the same policy name is applied before and after
		// (the earlier definition has a much larger burst: a redefinition that keeps any part of the old one shows)
		prevBurst := uint32(400000) + 4*sp.Burst
		if sp.Burst > 1<<29 {
			prevBurst = sp.Burst/8 + 100
		}
		pm.AddPolicy(&radius.QoSPolicy{Name: "p", DownloadBPS: sp.PrevRate, UploadBPS: sp.PrevRate, BurstSize: prevBurst, Priority: 1})
		if err := mgr.SetSubscriberPolicy(sub, "p"); err != nil {
			t.Fatal(err)
		}
		if sp.Remove {
			if err := mgr.RemoveSubscriberQoS(sub); err != nil {
				t.Fatal(err)
			}
		}
	} else if sp.Prev {
		if err := mgr.SetSubscriberQoS(&q.SubscriberQoS{IP: sub, DownloadBPS: sp.PrevRate, UploadBPS: sp.PrevRate, BurstBytes: 3000, Priority: 1}); err != nil {
			t.Fatal(err)
		}
		if sp.Remove {
			if err := mgr.RemoveSubscriberQoS(sub); err != nil {
				t.Fatal(err)
			}
		}
	}
	if sp.Policy {
		pm.AddPolicy(&radius.QoSPolicy{Name: "p", DownloadBPS: sp.Rate, UploadBPS: sp.Rate, BurstSize: sp.Burst, Priority: 3})
		if err := mgr.SetSubscriberPolicy(sub, "p"); err != nil {
			t.Fatal(err)
		}
	} else {
		if err := mgr.SetSubscriberQoS(&q.SubscriberQoS{IP: sub, DownloadBPS: sp.Rate, UploadBPS: sp.Rate, BurstBytes: sp.Burst, Priority: 3}); err != nil {
			t.Fatal(err)
		}
	}
	mapName := "qos_" + sp.Dir
	tr := Trace{ID: sp.ID, Dir: sp.Dir, RateBPS: sp.Rate, Pattern: sp.Pattern, Clock0: sp.Clock0, ViaPolicy: sp.Policy, MaxPkt: 1514}
	if sp.Pattern == "starve" || sp.Pattern == "drift" {
		tr.MaxPkt = 64
	}
	// the bucket the manager wrote (its burst is the contract's burst; the rate is the API's)
	d, err := bpfnative.Dump(maps[mapName])
	if err != nil {
		t.Fatal(err)
	}
	if len(d) == 1 {
		var tb q.TokenBucket
		if err := maps[mapName].Lookup(d[0][0], &tb); err == nil {
			tr.Burst, tr.MapRate = uint64(tb.BurstBytes), tb.RateBPS
		}
	}
	// a burst handed to the control plane is part of the policy to be enforced (the download direction takes it as
	// given; only a burst of 0 and the upload direction are computed by the manager: then the map's value counts)
	if sp.Dir == "egress" && sp.Burst != 0 {
		tr.Burst = uint64(sp.Burst)
	}
	for name, km := range maps {
		if _, err := drv.Mirror(name, km, nil); err != nil {
			t.Fatal(err)
		}
	}
	rng := rand.New(rand.NewSource(sp.Seed))
	now := sp.Clock0
	var elapsed uint64
	rateBps := sp.Rate / 8 // bytes per second
	for i := 0; i < sp.N; i++ {
		size, gap := 1514, uint64(0)
		switch sp.Pattern {
		case "backlog-fine": // offered load >= rate with gaps far below one token time
			size = 64 + rng.Intn(1450)
			maxGap := uint64(1)
			if rateBps > 0 {
				maxGap = uint64(size) * 1000000000 / rateBps
			}
			gap = uint64(rng.Int63n(int64(min(maxGap, 20000) + 1)))
			tr.Backlogged = true
		case "backlog-coarse":
			size = 600 + rng.Intn(900)
			maxGap := uint64(1)
			if rateBps > 0 {
				maxGap = uint64(size) * 1000000000 / rateBps
			}
			gap = uint64(rng.Int63n(int64(maxGap + 1)))
			tr.Backlogged = true
		case "starve": // small packets offered faster than one token time: per-arrival accrual below one byte
			size = 64
			gap = 0
			if rateBps > 0 {
				tok := uint64(1000000000) / rateBps // ns per byte
				if tok > 1 {
					gap = tok - 1 - uint64(rng.Int63n(int64(tok/4+1)))
				}
			}
			tr.Backlogged = true
		case "drift": // minimum-size packets offered at least as fast as they accrue, nanosecond-grained gaps:
			// every refill rounds, so rounding in the bucket's favour accumulates with the number of refills
			size = 64
			maxGap := uint64(1)
			if sp.Rate > 0 {
				maxGap = max(1, uint64(size)*8000000000/sp.Rate)
			}
			gap = 1 + uint64(rng.Int63n(int64(maxGap)))
			tr.Backlogged = true
		case "burst": // back-to-back trains separated by idle periods
			size = 64 + rng.Intn(1450)
			if i%12 == 11 {
				gap = uint64(rng.Int63n(3_000_000_000))
			} else {
				gap = uint64(rng.Int63n(2000))
			}
		case "idle": // long idle gaps: hours to days
			size = 64 + rng.Intn(1450)
			gap = uint64(rng.Int63n(200_000_000_000_000))
			if i%3 != 0 {
				gap = uint64(rng.Int63n(50_000))
			}
		default: // mixed
			size = 34 + rng.Intn(9000)
			gap = uint64(rng.Int63n(1 << uint(rng.Intn(34))))
		}
		if i == 0 {
			gap = 0
		}
		elapsed += gap
		now += gap // wraps modulo 2^64 like the kernel clock would
		if err := drv.SetTime(now); err != nil {
			t.Fatal(err)
		}
		v, _, _, err := drv.Run(sp.Dir, frameFor(sp.Dir, sub, size), size)
		if err != nil {
			t.Fatal(err)
		}
		tr.Events = append(tr.Events, Ev{E: elapsed, T: now, Size: size, Adm: v == 0})
		if size > tr.MaxPkt {
			tr.MaxPkt = size
		}
	}
	return tr
}

func specs(tier string, seed int64) []spec {
	rng := rand.New(rand.NewSource(seed))
	rates := []uint64{0, 1000, 64_000, 1_000_000, 10_000_000, 100_000_000, 1_000_000_000, 10_000_000_000, 100_000_000_000}
	bursts := []uint32{1, 1500, 65536, 1_000_000, 4_000_000_000}
	patterns := []string{"backlog-fine", "backlog-coarse", "burst", "idle", "mixed"}
	clocks := []uint64{0, 1_000_000_000, 864_000_000_000_000, 1<<63 - 5_000, 1<<64 - 1 - 3_000_000}
	n, count := 40, 24
	driftRates, driftN := []uint64{30_000_000, 2_400_000_000, 10_000_000_000, 100_000_000_000}, 4000
	if tier == "thorough" {
		n, count = 60, 160
		driftRates, driftN = []uint64{3_000_000, 30_000_000, 300_000_000, 999_999_937, 2_400_000_000, 7_000_000_000, 10_000_000_000, 33_000_000_000, 100_000_000_000}, 40000
	}
	var out []spec
	for i := 0; i < count; i++ {
		sp := spec{ID: fmt.Sprintf("t%03d", i), Dir: []string{"egress", "ingress"}[i%2], Rate: rates[rng.Intn(len(rates))], Burst: bursts[rng.Intn(len(bursts))],
			Pattern: patterns[i%len(patterns)], Clock0: clocks[rng.Intn(len(clocks))], N: n, Seed: seed*1000 + int64(i), Policy: i%4 == 0}
		if i < len(rates) { // every rate once with the fine backlog pattern
			sp.Rate, sp.Pattern = rates[i], "backlog-fine"
		}
		if i >= len(rates) && i < len(rates)+4 { // long small-packet traces against a minimal bucket (two packets)
			sp.Rate, sp.Pattern, sp.Burst, sp.N, sp.Dir = []uint64{64_000, 10_000_000, 100_000_000, 800_000_000}[i-len(rates)], "starve", []uint32{128, 64, 128, 64}[i-len(rates)], 240, "egress" // 64: a bucket of exactly one packet
		}
		if i >= len(rates)+4 && i < len(rates)+4+len(driftRates) { // rounding drift: rates whose byte time is not a whole number of ns
			sp.Rate, sp.Pattern, sp.Burst, sp.N, sp.Dir = driftRates[i-len(rates)-4], "drift", 128, driftN, "egress"
		}
		if i%3 == 2 { // a plan change: the subscriber had another policy before (every third of those was removed first)
			sp.Prev, sp.PrevRate, sp.Remove = true, rates[rng.Intn(len(rates))], i%9 == 8
			if sp.Rate != 0 && i%2 == 0 {
				sp.PrevRate = 0
			}
		}
		switch i - (len(rates) + 4 + len(driftRates)) { // plan changes to and from unlimited
		case 0: // limited -> unlimited, download; 40 full-size packets exceed the old 3000-byte bucket at once
			sp.Rate, sp.Prev, sp.PrevRate, sp.Remove, sp.Dir, sp.Pattern = 0, true, 2_000_000, false, "egress", "backlog-coarse"
			sp.Policy = false
		case 1: // limited -> unlimited, upload (the manager gives the old bucket 64 KB: more packets needed)
			sp.Rate, sp.Prev, sp.PrevRate, sp.Remove, sp.Dir, sp.Pattern, sp.N = 0, true, 400_000, false, "ingress", "backlog-coarse", 120
		case 2: // limited, removed, unlimited
			sp.Rate, sp.Prev, sp.PrevRate, sp.Remove, sp.Dir, sp.Pattern = 0, true, 2_000_000, true, "egress", "backlog-coarse"
		case 3: // unlimited -> limited, by redefining the named policy the subscriber already has
			sp.Rate, sp.Prev, sp.PrevRate, sp.Remove, sp.Dir, sp.Pattern, sp.Burst = 10_000_000, true, 0, false, "egress", "backlog-fine", 3000
			sp.Policy = true
		}
		if sp.Dir == "ingress" {
			sp.Burst = 0 // the manager computes the ingress burst itself
		}
		out = append(out, sp)
	}
	return out
}

func TestExplore(t *testing.T) {
	out := core.OutDir()
	drvPath, err := bpfnative.Build("qos", out)
	if err != nil {
		t.Fatal(err)
	}
	d, err := bpfnative.Start(drvPath)
	if err != nil {
		t.Fatal(err)
	}
	infos, err := d.Maps()
	d.Close()
	if err != nil {
		t.Fatal(err)
	}
	var sps []spec
	if rf := os.Getenv("VERIF_REPLAY"); rf != "" {
		b, err := os.ReadFile(rf)
		if err != nil {
			t.Fatal(err)
		}
		var f struct {
			Specs []spec `json:"specs"`
		}
		if err := json.Unmarshal(b, &f); err != nil {
			t.Fatal(err)
		}
		sps = f.Specs
	} else {
		sps = specs(core.Tier(), core.Seed())
	}
	var traces []Trace
	for _, sp := range sps {
		traces = append(traces, runTrace(t, drvPath, infos, sp))
	}
	if err := core.WriteJSON(out, "traces.json", map[string]any{"traces": traces, "specs": sps}); err != nil {
		t.Fatal(err)
	}
	_ = filepath.Join
}
