//go:build verif

package agentfsm

import (
	"encoding/json"
	"fmt"
	"math/rand"
	"os"
	"strings"
	"testing"

	"verifharness/core"
)

type replayCase struct {
	ID     string         `json:"id"`
	System string         `json:"system"`
	Events []core.Event   `json:"events"`
	Cfg    map[string]any `json:"cfg"`
}

type replayFile struct {
	Property string       `json:"property"`
	Cases    []replayCase `json:"cases"`
}

type runStats struct {
	Systems     int                `json:"systems"`
	Nodes       int                `json:"nodes"`
	Edges       int                `json:"edges"`
	Chains      int                `json:"chains"`
	ChainEvents int                `json:"chain_events"`
	Closed      int                `json:"closed_systems"`
	Panics      []core.PanicRecord `json:"panics"`
	PerSystem   map[string][3]int  `json:"per_system"`
}

var (
	allScripts  = []string{"approved", "approved202", "pending", "rejected", "unknown", "empty", "s500", "s401", "s403", "junk", "neterr"}
	coreScripts = []string{"approved", "pending", "rejected", "s500"}
	macs        = []string{"02:00:00:00:00:01", "02:00:00:00:00:02", "02:00:00:00:00:03", "02:00:00:00:00:ff"}
	ntes        = []string{"ont-1", "ont-2", "ont-3", "ont-ff"}
)

// Catalogue: configurations whose transition tables are extracted (until closed).
func Catalogue(tier string) []*ASystem {
	l := []*ASystem{
		// RegisterWithRetry alone
		{name: "reg-max3", Kind: "reg", MaxRetries: 3, Retry: 2, HB: 3, Scripts: allScripts, Adv: []int{1}},
		{name: "reg-inf", Kind: "reg", MaxRetries: 0, Retry: 2, HB: 3, Scripts: allScripts, Adv: []int{1}},
		{name: "reg-max1", Kind: "reg", MaxRetries: 1, Retry: 1, HB: 3, Scripts: coreScripts, Adv: []int{1}},
		{name: "ztp-max2", Kind: "ztp", MaxRetries: 2, Retry: 3, HB: 3, Scripts: coreScripts, Adv: []int{1, 2}},
		// the Agent life cycle
		{name: "agent-inf", Kind: "agent", MaxRetries: 0, Retry: 2, HB: 3, NH: 2, Scripts: coreScripts, Adv: []int{1}},
		{name: "agent-max2", Kind: "agent", MaxRetries: 2, Retry: 1, HB: 2, NH: 1, Scripts: []string{"approved202", "pending", "rejected", "junk"}, Adv: []int{1}, NoSub: true},
		// the tables
		{name: "tab-sub", Kind: "tab", NID: 2, Macs: []string{macs[0], macs[1], macs[3]}, AMac: 2, Ntes: []string{ntes[0], ntes[1], ntes[3]}, ANte: 2,
			Isps: []string{"", "ispA", "ispB"}, NCH: 2, NSer: 0, Ports: 0},
		{name: "tab-nte", Kind: "tab", NID: 1, Macs: []string{macs[0], macs[3]}, AMac: 1, Ntes: []string{ntes[0], ntes[3]}, ANte: 1,
			Isps: []string{"ispA", "ispB"}, NCH: 1, NSer: 2, Ports: 2},
	}
	if tier == "thorough" {
		l = append(l,
			&ASystem{name: "reg-max4", Kind: "reg", MaxRetries: 4, Retry: 4, HB: 3, Scripts: allScripts, Adv: []int{1, 3}},
			&ASystem{name: "agent-max3", Kind: "agent", MaxRetries: 3, Retry: 2, HB: 3, NH: 2, Scripts: allScripts, Adv: []int{1, 2}},
			&ASystem{name: "tab-sub3", Kind: "tab", NID: 3, Macs: []string{macs[0], macs[1], macs[3]}, AMac: 2, Ntes: []string{ntes[0], ntes[3]}, ANte: 1,
				Isps: []string{"", "ispA", "ispB"}, NCH: 2, NSer: 1, Ports: 1},
		)
	}
	return l
}

// ChainCatalogue: configurations driven by long seeded random sequences.
func ChainCatalogue() []*ASystem {
	return []*ASystem{
		{name: "rnd-reg", Kind: "reg", MaxRetries: 6, Retry: 3, HB: 3, Scripts: allScripts, Adv: []int{1, 2, 3}},
		{name: "rnd-reg-inf", Kind: "ztp", MaxRetries: 0, Retry: 2, HB: 3, Scripts: allScripts, Adv: []int{1, 2}},
		{name: "rnd-agent", Kind: "agent", MaxRetries: 0, Retry: 2, HB: 4, NH: 2, Scripts: allScripts, Adv: []int{1, 2}},
		{name: "rnd-tab", Kind: "tab", NID: 4, Macs: macs, AMac: 3, Ntes: ntes, ANte: 3, Isps: []string{"", "ispA", "ispB", "ispC"}, NCH: 2, NSer: 3, Ports: 2},
	}
}

func find(name string) *ASystem {
	for _, s := range append(Catalogue("thorough"), ChainCatalogue()...) {
		if s.name == name {
			return s
		}
	}
	return nil
}

// randomChain: a registration life is short (start .. decision), so a chain is cut after the decision has been
// explored for a while; terminal answers are drawn less often than the others.
func randomChain(sys *ASystem, rng *rand.Rand, n int) []core.Event {
	evs := sys.Events()
	var weighted []core.Event
	for _, e := range evs {
		w := 4
		switch e["op"] {
		case "adv":
			w = 12
		case "ans":
			if c := scriptClass(toStr(e["s"])); c != "retry" {
				w = 1
			}
		case "cancel", "stop":
			w = 1
		case "start":
			w = 2
		}
		if sys.Kind == "tab" {
			w = 1
		}
		for i := 0; i < w; i++ {
			weighted = append(weighted, e)
		}
	}
	var out []core.Event
	if sys.Kind != "tab" {
		out = append(out, evs[0]) // start
	}
	for len(out) < n {
		out = append(out, weighted[rng.Intn(len(weighted))])
	}
	return out
}

func addTable(bundle *core.Bundle, st *runStats, tab *core.Table) {
	bundle.Systems = append(bundle.Systems, tab)
	ne := 0
	for _, es := range tab.Edges {
		ne += len(es)
	}
	if strings.Contains(tab.Name, "#") {
		st.Chains++
		st.ChainEvents += len(tab.Nodes) - 1
		return
	}
	c := 0
	if tab.Closed {
		c = 1
		st.Closed++
	}
	st.PerSystem[tab.Name] = [3]int{len(tab.Nodes), ne, c}
	st.Systems++
	st.Nodes += len(tab.Nodes)
	st.Edges += ne
}

func TestExplore(t *testing.T) {
	theT = t
	defer func() {
		harnessErrs.Lock()
		defer harnessErrs.Unlock()
		if len(harnessErrs.l) > 0 {
			t.Fatalf("harness cannot represent the observed behaviour (infrastructure failure, not a verdict):\n%s", strings.Join(harnessErrs.l, "\n"))
		}
	}()
	out := core.OutDir()
	if rf := os.Getenv("VERIF_REPLAY"); rf != "" {
		replay(t, rf, out)
		return
	}
	tier := core.Tier()
	seed := core.Seed()
	maxNodes := 3000
	nchains, chainLen := 8, 50
	if tier == "thorough" {
		maxNodes = 30000
		nchains, chainLen = 80, 120
	}
	if v := os.Getenv("VERIF_MAXNODES"); v != "" {
		fmt.Sscan(v, &maxNodes)
	}
	bundle := &core.Bundle{}
	st := runStats{PerSystem: map[string][3]int{}}
	for _, sys := range Catalogue(tier) {
		if only := os.Getenv("VERIF_ONLY"); only != "" && only != sys.Name() {
			continue
		}
		// bubbles strictly one after the other (go1.25.0 synctest is not safe with bubbles on several Ps)
		w := 1
		if sys.Kind == "tab" {
			w = 4
		}
		tab, panics, err := core.Explore(sys, core.ExploreOptions{MaxDepth: sys.MaxDepth, MaxNodes: maxNodes, AdequacySample: 10, Seed: seed, Workers: w})
		if err != nil {
			t.Fatalf("explore %s: %v", sys.Name(), err)
		}
		st.Panics = append(st.Panics, panics...)
		addTable(bundle, &st, tab)
	}
	for _, sys := range ChainCatalogue() {
		if only := os.Getenv("VERIF_ONLY"); only != "" && only != sys.Name() {
			continue
		}
		n, l := nchains, chainLen
		if sys.Kind == "tab" {
			n, l = nchains/2, 3*chainLen
		}
		for c := 0; c < n; c++ {
			rng := rand.New(rand.NewSource(seed*1000003 + int64(c)*7919 + int64(len(sys.Name()))))
			tab, pr := core.Chain(sys, fmt.Sprintf("%s#%d", sys.Name(), c), randomChain(sys, rng, l), false)
			if pr != nil {
				st.Panics = append(st.Panics, *pr)
				continue
			}
			addTable(bundle, &st, tab)
		}
	}
	// histories found by TLC on the implementation-shaped design spec, executed on the real code
	if xf := os.Getenv("VERIF_EXTRA_CASES"); xf != "" {
		runCases(t, xf, bundle, &st, true)
	}
	if err := core.WriteJSON(out, "bundle.json", bundle); err != nil {
		t.Fatal(err)
	}
	if err := core.WriteJSON(out, "stats.json", st); err != nil {
		t.Fatal(err)
	}
}

// clean keeps only the alphabet part of recorded events (results are observed afresh).
func clean(in []core.Event) []core.Event {
	evs := make([]core.Event, 0, len(in))
	for _, e := range in {
		evs = append(evs, mk(toStr(e["op"]), toStr(e["s"]), toInt(e["d"]), toInt(e["id"]), toStr(e["mac"]), toStr(e["nte"]), toStr(e["isp"]), toInt(e["port"])))
	}
	return evs
}

func runCases(t *testing.T, file string, bundle *core.Bundle, st *runStats, extra bool) {
	b, err := os.ReadFile(file)
	if err != nil {
		t.Fatal(err)
	}
	var rf replayFile
	if err := json.Unmarshal(b, &rf); err != nil {
		t.Fatal(err)
	}
	for _, c := range rf.Cases {
		name := c.System
		if i := strings.IndexByte(name, '#'); i >= 0 {
			name = name[:i]
		}
		var sys *ASystem
		if !extra {
			sys = find(name)
		}
		if sys == nil {
			sys = fromCfg(name, c.Cfg)
		}
		if sys == nil {
			t.Fatalf("case %s: unknown system %q and no configuration", c.ID, c.System)
		}
		tab, pr := core.Chain(sys, name+"#"+c.ID, clean(c.Events), false)
		if pr != nil {
			st.Panics = append(st.Panics, *pr)
			continue
		}
		addTable(bundle, st, tab)
	}
}

func replay(t *testing.T, file, out string) {
	st := runStats{PerSystem: map[string][3]int{}}
	bundle := &core.Bundle{}
	runCases(t, file, bundle, &st, false)
	if err := core.WriteJSON(out, "bundle.json", bundle); err != nil {
		t.Fatal(err)
	}
	core.WriteJSON(out, "stats.json", st)
}
