//go:build verif

// Package agentfsm drives the REAL pkg/agent of the tree under test (extra family X11):
//
//   - kind "reg" / "ztp": agent.Bootstrap.RegisterWithRetry (or BootstrapWithZTP with ZTP disabled) against a scripted
//     Nexus. The Nexus is an http.RoundTripper put into the Bootstrap's own *http.Client (reached by reflection; the
//     client, its 30 s timeout, request construction and response parsing are the real ones). Every request waits at
//     the Nexus until the harness answers it, so one attempt = one `ans` event.
//   - kind "agent": agent.Agent (New, OnStateChange, Start, Stop, the subscriber / NTE counts used by the heartbeat)
//     with its real bootstrapLoop / heartbeatLoop / watchLoop goroutines. Heartbeats are not sent anywhere on this tree
//     ("TODO: Send heartbeat to CLSet. For now, just log it"): they are observed where the code puts them, in the
//     logger (a zap observer core at debug level).
//   - kind "tab": the subscriber and NTE tables of an Agent that is never started (Set/Remove/lookups/counts/churn).
//
// reg, ztp and agent live in a testing/synctest bubble each (virtual time: the retry timer, the http client's timeout,
// the heartbeat ticker are the real ones). Harness actions take no virtual time; `adv` advances it by whole units.
package agentfsm

import (
	"bytes"
	"context"
	"encoding/json"
	"fmt"
	"io"
	"net/http"
	"runtime"
	"strings"
	"sync"
	"testing"
	"testing/synctest"
	"time"

	"go.uber.org/zap"
	"go.uber.org/zap/zapcore"
	"go.uber.org/zap/zaptest/observer"

	"github.com/codelaboratoryltd/bng/pkg/agent"

	"verifharness/core"
)

// Unit of virtual time: RetryInterval = Retry units, HeartbeatInterval = HB units; the http client's hard-coded 30 s
// timeout is 3 units.
const Unit = 10 * time.Second

const (
	nexusURL = "http://nexus.test:9000"
	serial   = "VERIF-SERIAL-11"
)

var theT *testing.T

var harnessErrs struct {
	sync.Mutex
	l []string
}

func harnessFail(msg string) {
	harnessErrs.Lock()
	defer harnessErrs.Unlock()
	if len(harnessErrs.l) < 20 {
		harnessErrs.l = append(harnessErrs.l, msg)
	}
}

// ASystem is one configuration of the component.
type ASystem struct {
	name       string
	Kind       string // reg | ztp | agent | tab
	MaxRetries int
	Retry      int // units
	HB         int // units
	NH         int // state-change handlers registered before Start
	Scripts    []string
	Adv        []int // time steps of the alphabet (units)
	// tab
	NID   int      // subscriber ids s1..sNID
	Macs  []string // lookup universe; the first AMac are used by Set
	AMac  int
	Ntes  []string
	ANte  int
	Isps  []string // "" allowed
	NCH   int      // churn handlers
	NSer  int      // NTE serials n1..nNSer
	Ports int      // ports 1..Ports
	NoSub bool     // agent: no sub/nte toggles in the alphabet
	MaxDepth int
}

func (s *ASystem) Name() string { return s.name }

func (s *ASystem) Config() map[string]any {
	return map[string]any{"impl": s.name, "kind": s.Kind, "maxretries": s.MaxRetries, "retry": s.Retry, "hb": s.HB, "nh": s.NH,
		"scripts": strs(s.Scripts), "adv": ints(s.Adv), "nid": s.NID, "macs": strs(s.Macs), "amac": s.AMac, "ntes": strs(s.Ntes), "ante": s.ANte,
		"isps": strs(s.Isps), "nch": s.NCH, "nser": s.NSer, "ports": s.Ports, "nosub": s.NoSub, "nsubs": 0}
}

func strs(l []string) []string {
	if l == nil {
		return []string{}
	}
	return l
}
func ints(l []int) []int {
	if l == nil {
		return []int{}
	}
	return l
}

// mk builds one event with every alphabet field present (TLC records must be uniform).
func mk(op, scr string, d, id int, mac, nte, isp string, port int) core.Event {
	return core.Event{"op": op, "s": scr, "d": d, "id": id, "mac": mac, "nte": nte, "isp": isp, "port": port}
}

func (s *ASystem) Events() []core.Event {
	var l []core.Event
	switch s.Kind {
	case "reg", "ztp", "agent":
		l = append(l, mk("start", "", 0, 0, "", "", "", 0))
		for _, sc := range s.Scripts {
			l = append(l, mk("ans", sc, 0, 0, "", "", "", 0))
		}
		for _, d := range s.Adv {
			l = append(l, mk("adv", "", d, 0, "", "", "", 0))
		}
		if s.Kind == "agent" {
			l = append(l, mk("stop", "", 0, 0, "", "", "", 0), mk("addh", "", 0, 0, "", "", "", 0))
			if !s.NoSub {
				l = append(l, mk("sub", "", 0, 0, "", "", "", 0), mk("nte", "", 0, 0, "", "", "", 0))
			}
		} else {
			l = append(l, mk("cancel", "", 0, 0, "", "", "", 0))
		}
	case "tab":
		for id := 1; id <= s.NID; id++ {
			for _, m := range s.Macs[:s.AMac] {
				for _, n := range s.Ntes[:s.ANte] {
					for _, isp := range s.Isps {
						l = append(l, mk("set", "", 0, id, m, n, isp, 0))
					}
				}
			}
			l = append(l, mk("rm", "", 0, id, "", "", "", 0))
		}
		for ser := 1; ser <= s.NSer; ser++ {
			for p := 1; p <= s.Ports; p++ {
				l = append(l, mk("nset", "", 0, ser, "", "", "", p))
			}
			l = append(l, mk("nrm", "", 0, ser, "", "", "", 0))
		}
	}
	return l
}

func (s *ASystem) Wrap(f func()) {
	if s.Kind == "tab" {
		f()
		return
	}
	completed := false
	defer func() {
		// Time stops when a bubble's main goroutine has exited; goroutines that are still blocked then (possible on a
		// changed tree only: Close drives the clock until the component's goroutines are gone) make synctest.Test panic.
		// Everything the replay observed has been recorded by then; the goroutines are abandoned.
		if r := recover(); r != nil {
			if completed && strings.Contains(fmt.Sprint(r), "main bubble goroutine has exited") {
				return
			}
			panic(r)
		}
	}()
	synctest.Test(theT, func(t *testing.T) {
		f()
		completed = true
	})
}

// ---------------------------------------------------------------------------------------------------------------
// the scripted Nexus

type reqRec struct {
	gap int // units since the previous attempt ended (-1: there was none)
	wf  bool
}

type nexus struct {
	mu      sync.Mutex
	pending chan string // non-nil while a request waits for its answer
	arrived time.Time
	reqs    []reqRec // requests that arrived in the current step
	aborted bool     // the client gave the waiting request up in the current step
	lastEnd time.Time
	hasEnd  bool
	total   int
	dead    bool
	last    string // how the latest attempt ended: "" | approved | rejected | retry | abort
}

func scriptClass(s string) string {
	switch s {
	case "approved", "approved202":
		return "approved"
	case "rejected":
		return "rejected"
	}
	return "retry"
}

func scriptDev(s string) string {
	switch s {
	case "approved":
		return "dev-7"
	case "approved202":
		return "dev-8"
	}
	return ""
}

func (n *nexus) RoundTrip(req *http.Request) (*http.Response, error) {
	n.mu.Lock()
	dead := n.dead
	n.mu.Unlock()
	if dead {
		// the instance is being closed: whatever still loops (possible on a changed tree only) ends here, with its defers
		runtime.Goexit()
	}
	// like http.Transport: a request whose context is already over never reaches the wire
	if err := req.Context().Err(); err != nil {
		return nil, err
	}
	wf := req.Method == "POST" && req.URL.String() == nexusURL+"/api/v1/devices/register" && req.Header.Get("Content-Type") == "application/json"
	if req.Body != nil {
		b, _ := io.ReadAll(req.Body)
		req.Body.Close()
		var rr agent.RegistrationRequest
		if json.Unmarshal(b, &rr) != nil || rr.Serial != serial || rr.AgentVersion != agent.Version {
			wf = false
		}
	} else {
		wf = false
	}
	n.mu.Lock()
	gap := -1
	if n.hasEnd {
		gap = int(time.Since(n.lastEnd) / Unit)
	}
	n.reqs = append(n.reqs, reqRec{gap: gap, wf: wf})
	n.total++
	if n.pending != nil {
		// a second request while one is waiting (possible on a changed tree only): recorded, refused
		n.mu.Unlock()
		return nil, fmt.Errorf("nexus: busy")
	}
	ch := make(chan string, 1)
	n.pending = ch
	n.arrived = time.Now()
	n.mu.Unlock()
	select {
	case s := <-ch:
		n.mu.Lock()
		n.pending = nil
		n.lastEnd, n.hasEnd = time.Now(), true
		n.last = scriptClass(s)
		n.mu.Unlock()
		return respond(req, s)
	case <-req.Context().Done():
		n.mu.Lock()
		n.pending = nil
		n.aborted = true
		n.last = "abort"
		n.lastEnd, n.hasEnd = time.Now(), true
		n.mu.Unlock()
		return nil, req.Context().Err()
	}
}

func respond(req *http.Request, s string) (*http.Response, error) {
	code, body := 200, ""
	switch s {
	case "approved":
		body = `{"status":"approved","device_id":"dev-7","config":{"device_id":"dev-7","netco_id":"netco","isps":[{"isp_id":"ispA","name":"A"}]},"clset_peers":["10.0.0.1:7000"],"message":"welcome"}`
	case "approved202":
		code, body = 202, `{"status":"approved","device_id":"dev-8"}`
	case "pending":
		code, body = 202, `{"status":"pending","message":"awaiting approval"}`
	case "rejected":
		body = `{"status":"rejected","message":"device not authorized"}`
	case "unknown":
		body = `{"status":"on-hold","device_id":"dev-9"}`
	case "empty":
		body = `{}`
	case "s500":
		code, body = 500, "internal error"
	case "s401":
		code, body = 401, "who are you"
	case "s403":
		code, body = 403, `{"status":"approved","device_id":"dev-6"}`
	case "junk":
		body = `<<not json`
	case "neterr":
		return nil, fmt.Errorf("nexus: connection reset by peer")
	default:
		harnessFail("unknown script " + s)
		return nil, fmt.Errorf("nexus: unknown script")
	}
	return &http.Response{StatusCode: code, Status: fmt.Sprintf("%d %s", code, http.StatusText(code)), Proto: "HTTP/1.1", ProtoMajor: 1, ProtoMinor: 1,
		Header: http.Header{"Content-Type": []string{"application/json"}}, Body: io.NopCloser(bytes.NewReader([]byte(body))),
		ContentLength: int64(len(body)), Request: req}, nil
}

// ---------------------------------------------------------------------------------------------------------------

type inst struct {
	s  *ASystem
	nx *nexus

	// reg / ztp
	b      *agent.Bootstrap
	ctx    context.Context
	cancel context.CancelFunc
	mu     sync.Mutex
	done   bool
	ret    string // "" | ok | err  (set when the call returned)
	rdev   string
	retNew bool // the call returned in the current step
	exited bool // the goroutine that made the call is gone

	// agent / tab
	a         *agent.Agent
	logs      *observer.ObservedLogs
	nh        int
	calls     []map[string]any
	churn     []map[string]any
	stopped   bool
	stopret   bool
	connAt    time.Time
	connected bool

	started   bool
	cancelled bool
}

func (s *ASystem) bootCfg() agent.BootstrapConfig {
	return agent.BootstrapConfig{NexusServerURL: nexusURL, SerialOverride: serial, RetryInterval: time.Duration(s.Retry) * Unit, MaxRetries: s.MaxRetries}
}

func (s *ASystem) New() core.Instance {
	in := &inst{s: s, nx: &nexus{}}
	switch s.Kind {
	case "reg", "ztp":
		b, err := agent.NewBootstrap(s.bootCfg(), zap.NewNop())
		if err != nil {
			panic(err)
		}
		in.b = b
		core.Field(b, "client").Interface().(*http.Client).Transport = in.nx
		in.ctx, in.cancel = context.WithCancel(context.Background())
	case "agent", "tab":
		oc, logs := observer.New(zapcore.DebugLevel)
		in.logs = logs
		cfg := agent.Config{Bootstrap: s.bootCfg(), DataDir: "/nonexistent", HeartbeatInterval: time.Duration(s.HB) * Unit}
		if s.Kind == "tab" {
			cfg.HeartbeatInterval = 30 * time.Second
		}
		a, err := agent.New(cfg, zap.New(oc))
		if err != nil {
			panic(err)
		}
		in.a = a
		b := core.Field(a, "bootstrap").Interface().(*agent.Bootstrap)
		core.Field(b, "client").Interface().(*http.Client).Transport = in.nx
		for i := 0; i < s.NH; i++ {
			in.addHandler()
		}
		for i := 1; i <= s.NCH; i++ {
			h := i
			a.OnISPChurn(func(ev agent.ISPChurnEvent) {
				locked := in.locksHeld()
				in.mu.Lock()
				in.churn = append(in.churn, map[string]any{"h": h, "sub": subIdx(ev.SubscriberID), "old": ev.OldISPID, "new": ev.NewISPID, "locked": locked})
				in.mu.Unlock()
			})
		}
	default:
		panic("unknown kind " + s.Kind)
	}
	return in
}

// locksHeld: is one of the agent's locks write-held right now (would a read accessor called from here block)?
func (in *inst) locksHeld() bool {
	held := false
	for _, f := range []string{"mu", "subscribersMu", "ntesMu"} {
		m := core.Field(in.a, f).Addr().Interface().(*sync.RWMutex)
		if m.TryRLock() {
			m.RUnlock()
		} else {
			held = true
		}
	}
	return held
}

func (in *inst) addHandler() {
	in.nh++
	h := in.nh
	in.a.OnStateChange(func(o, n agent.State) {
		locked := in.locksHeld()
		in.mu.Lock()
		in.calls = append(in.calls, map[string]any{"h": h, "old": o.String(), "new": n.String(), "locked": locked})
		in.mu.Unlock()
	})
}

func subIdx(id string) int {
	var i int
	if _, err := fmt.Sscanf(id, "s%d", &i); err != nil {
		return 0
	}
	return i
}

func toInt(v any) int {
	switch x := v.(type) {
	case int:
		return x
	case int64:
		return int(x)
	case float64:
		return int(x)
	case json.Number:
		i, _ := x.Int64()
		return int(i)
	}
	return 0
}

func toStr(v any) string {
	if s, ok := v.(string); ok {
		return s
	}
	return ""
}

func (in *inst) settle() {
	if in.s.Kind != "tab" {
		synctest.Wait()
	}
}

func (in *inst) Apply(ev core.Event) map[string]any {
	op := toStr(ev["op"])
	noop := false
	if in.s.Kind == "tab" {
		return in.applyTab(op, ev)
	}
	switch op {
	case "start":
		if in.started {
			noop = true
			break
		}
		in.started = true
		switch in.s.Kind {
		case "reg", "ztp":
			go func() {
				defer func() {
					in.mu.Lock()
					in.exited = true
					in.mu.Unlock()
				}()
				var resp *agent.RegistrationResponse
				var err error
				if in.s.Kind == "ztp" {
					resp, err = in.b.BootstrapWithZTP(in.ctx)
				} else {
					resp, err = in.b.RegisterWithRetry(in.ctx)
				}
				in.mu.Lock()
				defer in.mu.Unlock() // (runs before the deferred `exited` above)
				in.done, in.retNew = true, true
				switch {
				case err == nil && resp != nil:
					in.ret, in.rdev = "ok", resp.DeviceID
					if resp.Status != "approved" {
						in.rdev = "?status=" + resp.Status
					}
				case err != nil && resp == nil:
					in.ret = "err"
				default:
					in.ret, in.rdev = "ok", "?nil"
				}
			}()
		case "agent":
			if err := in.a.Start(); err != nil {
				panic("agent.Start: " + err.Error())
			}
		}
	case "ans":
		in.nx.mu.Lock()
		ch := in.nx.pending
		in.nx.mu.Unlock()
		if ch == nil {
			noop = true
			break
		}
		ch <- toStr(ev["s"])
	case "adv":
		time.Sleep(time.Duration(toInt(ev["d"])) * Unit)
	case "cancel":
		in.cancelled = true
		in.cancel()
	case "stop":
		if in.stopped {
			noop = true
			break
		}
		in.stopped, in.cancelled = true, true
		go func() {
			in.a.Stop()
			in.mu.Lock()
			in.stopret = true
			in.mu.Unlock()
		}()
	case "addh":
		if in.nh >= 3 {
			noop = true
			break
		}
		in.addHandler()
	case "sub":
		if in.a.GetSubscriber("s1") == nil {
			in.a.SetSubscriber(&agent.Subscriber{SubscriberID: "s1", ISPID: "ispA", MACString: "02:00:00:00:00:01", NTEID: "ont-1"})
		} else {
			in.a.RemoveSubscriber("s1")
		}
	case "nte":
		if in.a.GetNTE("n1") == nil {
			in.a.SetNTE(&agent.NTE{Serial: "n1", Port: 1})
		} else {
			in.a.RemoveNTE("n1")
		}
	default:
		harnessFail("unknown op " + op)
	}
	in.settle()
	return in.endStep(noop)
}

func (in *inst) endStep(noop bool) map[string]any {
	n := in.nx
	n.mu.Lock()
	nreq, gap, wf, abort := len(n.reqs), -1, true, n.aborted
	for i, r := range n.reqs {
		if i == 0 {
			gap = r.gap
		}
		wf = wf && r.wf
	}
	asince := 0
	if abort {
		asince = int(time.Since(n.lastEnd) / Unit)
	}
	n.reqs, n.aborted = nil, false
	n.mu.Unlock()
	in.mu.Lock()
	defer in.mu.Unlock()
	res := map[string]any{"noop": noop, "nreq": nreq, "gap": gap, "wf": wf, "abort": abort, "asince": asince, "ret": "", "rdev": "",
		"calls": []map[string]any{}, "hbs": []map[string]any{}, "stopret": false}
	if in.retNew {
		res["ret"], res["rdev"] = in.ret, in.rdev
		in.retNew = false
	}
	if in.a != nil {
		if len(in.calls) > 0 {
			res["calls"] = in.calls
			in.calls = nil
		}
		hbs := []map[string]any{}
		for _, e := range in.logs.TakeAll() {
			if e.Message != "Sending heartbeat" {
				continue
			}
			m := e.ContextMap()
			hbs = append(hbs, map[string]any{"status": toStr(m["status"]), "subs": toInt(m["subscribers"]), "ntes": toInt(m["ntes"])})
		}
		res["hbs"] = hbs
		if in.stopret {
			res["stopret"] = true
			in.stopret = false
		}
		if !in.connected && in.a.State() == agent.StateConnected {
			in.connected, in.connAt = true, time.Now()
		}
	}
	return res
}

func (in *inst) attCap() int {
	if in.s.MaxRetries <= 0 {
		return 0
	}
	t := in.nx.total
	if t > in.s.MaxRetries+1 {
		t = in.s.MaxRetries + 1
	}
	return t
}

func (in *inst) Observe() map[string]any {
	if in.s.Kind == "tab" {
		return in.observeTab()
	}
	in.nx.mu.Lock()
	flight := in.nx.pending != nil
	att := in.attCap()
	in.nx.mu.Unlock()
	in.mu.Lock()
	done := in.done
	in.mu.Unlock()
	o := map[string]any{"flight": flight, "done": done, "att": att, "state": "", "online": false, "devid": "", "hascfg": false, "nh": 0,
		"subs": 0, "ntes": 0, "stopped": false, "healthok": true}
	if in.a != nil {
		st := in.a.State()
		o["state"], o["online"], o["devid"], o["hascfg"] = st.String(), in.a.IsOnline(), in.a.DeviceID(), in.a.DeviceConfig() != nil
		o["nh"], o["subs"], o["ntes"], o["stopped"] = in.nh, in.a.GetSubscriberCount(), in.a.GetNTECount(), in.stopped
		h := in.a.Health()
		o["healthok"] = h["status"] == st.String() && h["online"] == in.a.IsOnline() && h["device_id"] == in.a.DeviceID() &&
			h["subscribers"] == in.a.GetSubscriberCount() && h["ntes"] == in.a.GetNTECount()
	}
	return o
}

func capAt(v, c int) int {
	if v > c {
		return c
	}
	return v
}

func (in *inst) Fingerprint() string {
	if in.s.Kind == "tab" {
		b, _ := json.Marshal(in.observeTab())
		return string(b) + core.Fingerprint(in.a, nil)
	}
	o := in.Observe()
	in.nx.mu.Lock()
	fage, wait := -1, -1
	if in.nx.pending != nil {
		fage = capAt(int(time.Since(in.nx.arrived)/Unit), 4)
	} else if in.nx.hasEnd {
		wait = capAt(int(time.Since(in.nx.lastEnd)/Unit), in.s.Retry)
	}
	o["_last"] = in.nx.last
	in.nx.mu.Unlock()
	in.mu.Lock()
	o["_ret"], o["_rdev"] = in.ret, in.rdev
	in.mu.Unlock()
	o["_started"], o["_cancelled"], o["_fage"], o["_wait"] = in.started, in.cancelled, fage, wait
	hbph := -1
	if in.connected && !in.stopped {
		hbph = int(time.Since(in.connAt)/Unit) % in.s.HB
	}
	o["_hbph"] = hbph
	b, _ := json.Marshal(o)
	fp := string(b)
	if in.a != nil {
		fp += core.Fingerprint(in.a, nil)
	} else {
		fp += core.Fingerprint(in.b, nil)
	}
	return fp
}

func (in *inst) Probe() map[string]any { return nil }

func (in *inst) Close() {
	if in.s.Kind == "tab" {
		return
	}
	in.nx.mu.Lock()
	in.nx.dead = true
	in.nx.mu.Unlock()
	if in.cancel != nil {
		in.cancel()
	}
	stopped := in.a == nil
	if in.a != nil {
		go func() {
			in.a.Stop()
			in.mu.Lock()
			stopped = true
			in.mu.Unlock()
		}()
	}
	synctest.Wait()
	// on the tree as found everything has ended by now; a changed tree may keep looping on its timers: drive the clock
	// until the registration goroutine (it ends in the dead Nexus at the latest) and Stop are through
	for i := 0; i < 40; i++ {
		in.mu.Lock()
		ok := stopped && (in.b == nil || !in.started || in.exited)
		in.mu.Unlock()
		if ok {
			break
		}
		time.Sleep(4 * Unit)
		synctest.Wait()
	}
	time.Sleep(4 * Unit) // the http client's timer goroutine of an abandoned request
	synctest.Wait()
}

// ---------------------------------------------------------------------------------------------------------------
// tables

func (in *inst) applyTab(op string, ev core.Event) map[string]any {
	id := toInt(ev["id"])
	switch op {
	case "set":
		in.a.SetSubscriber(&agent.Subscriber{SubscriberID: fmt.Sprintf("s%d", id), MACString: toStr(ev["mac"]), NTEID: toStr(ev["nte"]), ISPID: toStr(ev["isp"])})
	case "rm":
		in.a.RemoveSubscriber(fmt.Sprintf("s%d", id))
	case "nset":
		in.a.SetNTE(&agent.NTE{Serial: fmt.Sprintf("n%d", id), Port: toInt(ev["port"])})
	case "nrm":
		in.a.RemoveNTE(fmt.Sprintf("n%d", id))
	default:
		harnessFail("unknown op " + op)
	}
	in.mu.Lock()
	defer in.mu.Unlock()
	res := map[string]any{"noop": false, "churn": []map[string]any{}}
	if len(in.churn) > 0 {
		res["churn"] = in.churn
		in.churn = nil
	}
	return res
}

func (in *inst) observeTab() map[string]any {
	s := in.s
	a := in.a
	subs := []map[string]any{}
	for i := 1; i <= s.NID; i++ {
		p := a.GetSubscriber(fmt.Sprintf("s%d", i))
		if p == nil {
			subs = append(subs, map[string]any{"present": false, "mac": "", "nte": "", "isp": ""})
		} else {
			if p.SubscriberID != fmt.Sprintf("s%d", i) {
				harnessFail("GetSubscriber returned a record with another id")
			}
			subs = append(subs, map[string]any{"present": true, "mac": p.MACString, "nte": p.NTEID, "isp": p.ISPID})
		}
	}
	// two subscribers may share a MAC or an NTE; which of them a by-key lookup returns is left open (it follows Go's map
	// iteration order), so the lookup is repeated and the SET of answers is the observation
	look := func(get func(string) *agent.Subscriber, key string, field func(*agent.Subscriber) string) map[string]any {
		seen := map[int]bool{}
		none, keyok, live := false, true, true
		for try := 0; try < 256; try++ {
			p := get(key)
			if p == nil {
				none = true
				continue
			}
			seen[subIdx(p.SubscriberID)] = true
			keyok = keyok && field(p) == key
			live = live && a.GetSubscriber(p.SubscriberID) == p
		}
		ids := []int{}
		for i := 0; i <= s.NID; i++ {
			if seen[i] {
				ids = append(ids, i)
			}
		}
		return map[string]any{"none": none, "ids": ids, "keyok": keyok, "live": live}
	}
	bymac := []map[string]any{}
	for _, m := range s.Macs {
		bymac = append(bymac, look(a.GetSubscriberByMAC, m, func(p *agent.Subscriber) string { return p.MACString }))
	}
	bynte := []map[string]any{}
	for _, n := range s.Ntes {
		bynte = append(bynte, look(a.GetSubscriberByNTE, n, func(p *agent.Subscriber) string { return p.NTEID }))
	}
	counts := a.GetSubscriberCountByISP()
	byisp := []int{}
	for _, isp := range s.Isps {
		byisp = append(byisp, counts[isp])
	}
	nz := 0
	for _, c := range counts {
		if c != 0 {
			nz++
		}
	}
	ntes := []map[string]any{}
	for i := 1; i <= s.NSer; i++ {
		p := a.GetNTE(fmt.Sprintf("n%d", i))
		if p == nil {
			ntes = append(ntes, map[string]any{"present": false, "port": 0})
		} else {
			ntes = append(ntes, map[string]any{"present": true, "port": p.Port})
		}
	}
	h := a.Health()
	return map[string]any{"subs": subs, "bymac": bymac, "bynte": bynte, "count": a.GetSubscriberCount(), "byisp": byisp, "byispkeys": nz,
		"ntes": ntes, "ncount": a.GetNTECount(), "healthok": h["subscribers"] == a.GetSubscriberCount() && h["ntes"] == a.GetNTECount(),
		"state": a.State().String()}
}

// fromCfg rebuilds a system from the configuration record of a bundle / replay file.
func fromCfg(name string, c map[string]any) *ASystem {
	if c == nil {
		return nil
	}
	sl := func(v any) []string {
		var out []string
		if l, ok := v.([]any); ok {
			for _, x := range l {
				out = append(out, toStr(x))
			}
		}
		return out
	}
	il := func(v any) []int {
		var out []int
		if l, ok := v.([]any); ok {
			for _, x := range l {
				out = append(out, toInt(x))
			}
		}
		return out
	}
	b, _ := c["nosub"].(bool)
	s := &ASystem{name: name, Kind: toStr(c["kind"]), MaxRetries: toInt(c["maxretries"]), Retry: toInt(c["retry"]), HB: toInt(c["hb"]), NH: toInt(c["nh"]),
		Scripts: sl(c["scripts"]), Adv: il(c["adv"]), NID: toInt(c["nid"]), Macs: sl(c["macs"]), AMac: toInt(c["amac"]), Ntes: sl(c["ntes"]), ANte: toInt(c["ante"]),
		Isps: sl(c["isps"]), NCH: toInt(c["nch"]), NSer: toInt(c["nser"]), Ports: toInt(c["ports"]), NoSub: b}
	if s.Kind == "" {
		return nil
	}
	if i := strings.IndexByte(s.name, '#'); i >= 0 {
		s.name = s.name[:i]
	}
	return s
}
