//go:build verif

package bfd

import (
	"errors"
	"fmt"
	"net"
	"sort"
	"sync"
	"time"

	"github.com/codelaboratoryltd/bng/pkg/routing"
	"go.uber.org/zap"

	"verifharness/core"
)

// HSystem drives the real routing.HealthChecker ("3 failures -> down, 2 successes -> up") through
// CheckAll with a scripted RoutingPlatform.Ping. The checker has no timers of its own (the
// periodic loop lives in routing.Manager), so no virtual time is involved.
type HSystem struct {
	name     string
	NTargets int
	Alphabet []core.Event
}

func (s *HSystem) Name() string { return s.name }
func (s *HSystem) Config() map[string]any {
	return map[string]any{"impl": s.name, "kind": "hc", "ntargets": s.NTargets, "failth": 3, "okth": 2, "nsubs": 0}
}
func (s *HSystem) Events() []core.Event { return s.Alphabet }

func targetName(t int) string { return fmt.Sprintf("upstream-%d", t) }
func targetIP(t int) net.IP   { return net.IPv4(192, 0, 2, byte(t)) }

// fakePlatform answers Ping from the script of the current step; everything else is unused by the checker.
type fakePlatform struct {
	mu    sync.Mutex
	ans   map[string]bool // ip -> reachable
	pings map[string]int
}

func (f *fakePlatform) Ping(target net.IP, timeout time.Duration) (time.Duration, error) {
	f.mu.Lock()
	defer f.mu.Unlock()
	f.pings[target.String()]++
	if f.ans[target.String()] {
		return 3 * time.Millisecond, nil
	}
	return 0, errors.New("request timed out")
}
func (f *fakePlatform) AddRoute(*routing.Route) error            { return nil }
func (f *fakePlatform) DeleteRoute(*routing.Route) error         { return nil }
func (f *fakePlatform) GetRoutes(int) ([]*routing.Route, error)  { return nil, nil }
func (f *fakePlatform) FlushTable(int) error                     { return nil }
func (f *fakePlatform) AddRule(*routing.PolicyRule) error        { return nil }
func (f *fakePlatform) DeleteRule(*routing.PolicyRule) error     { return nil }
func (f *fakePlatform) GetRules() ([]*routing.PolicyRule, error) { return nil, nil }
func (f *fakePlatform) SetInterfaceUp(string) error              { return nil }
func (f *fakePlatform) SetInterfaceDown(string) error            { return nil }
func (f *fakePlatform) GetInterfaceByName(string) (*routing.InterfaceInfo, error) {
	return nil, errors.New("no such interface")
}

type hinst struct {
	s   *HSystem
	h   *routing.HealthChecker
	pf  *fakePlatform
	cbs []map[string]any
}

func (s *HSystem) New() core.Instance {
	in := &hinst{s: s, pf: &fakePlatform{ans: map[string]bool{}, pings: map[string]int{}}}
	in.h = routing.NewHealthChecker(time.Second, time.Second, zap.NewNop())
	in.h.OnStateChange(func(name string, up bool) {
		t := 0
		for i := 1; i <= s.NTargets; i++ {
			if targetName(i) == name {
				t = i
			}
		}
		in.cbs = append(in.cbs, map[string]any{"t": t, "up": up})
	})
	return in
}

func (in *hinst) ups() []string {
	out := make([]string, in.s.NTargets)
	for t := 1; t <= in.s.NTargets; t++ {
		if _, ok := in.h.GetTarget(targetName(t)); !ok {
			out[t-1] = "none"
		} else if in.h.IsUp(targetName(t)) {
			out[t-1] = "up"
		} else {
			out[t-1] = "down"
		}
	}
	return out
}

func (in *hinst) Apply(ev core.Event) map[string]any {
	op := ev["op"].(string)
	t := toInt(ev["t"])
	in.cbs = nil
	res := make([]string, in.s.NTargets)
	for i := range res {
		res[i] = "skip"
	}
	switch op {
	case "check":
		// r: one character per target, 'o' = reachable, 'f' = unreachable
		r := ev["r"].(string)
		in.pf.mu.Lock()
		in.pf.pings = map[string]int{}
		for i := 1; i <= in.s.NTargets; i++ {
			in.pf.ans[targetIP(i).String()] = i <= len(r) && r[i-1] == 'o'
		}
		in.pf.mu.Unlock()
		in.h.CheckAll(in.pf)
		for i := 1; i <= in.s.NTargets; i++ {
			switch n := in.pf.pings[targetIP(i).String()]; {
			case n == 0:
			case n == 1 && in.pf.ans[targetIP(i).String()]:
				res[i-1] = "ok"
			case n == 1:
				res[i-1] = "fail"
			default:
				res[i-1] = "many"
			}
		}
	case "addt":
		in.h.AddTarget(targetName(t), targetIP(t))
	case "rmt":
		in.h.RemoveTarget(targetName(t))
	default:
		panic("unknown op " + op)
	}
	cbs := append([]map[string]any{}, in.cbs...)
	sort.SliceStable(cbs, func(i, j int) bool { return cbs[i]["t"].(int) < cbs[j]["t"].(int) }) // CheckAll visits the targets in map order
	return map[string]any{"res": res, "cbs": cbs, "up": in.ups()}
}

func (in *hinst) Observe() map[string]any {
	return map[string]any{"kind": "hc", "up": in.ups()}
}

// Fingerprint: state and the two hysteresis counters of every target, saturated at the thresholds
// (beyond them the code only compares with >=). LastCheck/LastSuccess/RTT are never read back.
func (in *hinst) Fingerprint() string {
	s := ""
	for t := 1; t <= in.s.NTargets; t++ {
		tg, ok := in.h.GetTarget(targetName(t))
		if !ok {
			s += "-;"
			continue
		}
		s += fmt.Sprintf("%t/%d/%d/%s/%s;", tg.State, sat(tg.ConsecutiveFail, 3), sat(tg.ConsecutiveOK, 2), tg.Name, tg.Target)
	}
	return s
}

func sat(v, c int) int {
	if v > c {
		return c
	}
	return v
}

func (in *hinst) Probe() map[string]any { return nil }
func (in *hinst) Close()                {}
