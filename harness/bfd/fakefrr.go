//go:build verif

package bfd

import (
	"fmt"
	"os"
	"os/exec"
	"path/filepath"
	"sync"
)

// The BFD manager talks to FRR exclusively by executing `vtysh [--vty_socket DIR] -c COMMAND`
// (BFDConfig.VtyshPath / VtyshSocket). The harness points VtyshPath at the stand-in below and
// gives every manager its own DIR, so the REAL exec path of routing.BFDManager is exercised and
// no hook in /repo is needed. The stand-in is deliberately dumb: it logs every command it is
// given, answers "show bfd peers json" with the single line the harness keeps in DIR/peers.json,
// fails when the harness raised a flag file, and - when DIR/hold exists - keeps its answer back
// until the harness writes to the FIFO DIR/go (this is the window between GetPeerStatus() and
// the critical section of refreshPeers()). The FRR side of the world (which peers exist, their
// session status) is the harness' `frr` table; configuration commands are applied to it by the
// harness after the API call returned.
//
//	DIR/log        "S\t<command>\n" when an invocation starts, "E\t<exit code>\t<command>\n" when it ends
//	               (newlines of the command written as '|'; each record is one write)
//	DIR/peers.json FRR's answer to "show bfd peers json" (one line)
//	DIR/fail_show  status commands fail (exit 1, message on stderr)
//	DIR/garbage    "show bfd peers json" answers with text that is not JSON
//	DIR/fail_conf  configuration commands fail
//	DIR/hold       the next "show bfd peers json" reads peers.json, removes hold, creates DIR/ack
//	               and blocks opening DIR/go until the harness releases it
const vtyshC = `
#include <stdio.h>
#include <string.h>
#include <unistd.h>
#include <fcntl.h>
#include <sys/stat.h>
static char dir[400];
static const char *P(const char *n){ static char b[512]; snprintf(b,sizeof b,"%s/%s",dir,n); return b; }
static int ex(const char *n){ struct stat s; return stat(P(n),&s)==0; }
static void lg(const char *cmd,int rc){ /* one record = one write(): "S\t<cmd>\n" when the command starts, "E\t<rc>\t<cmd>\n" when it ends; newlines of cmd as '|' */
  static char b[8192]; int n; if(rc<0) n=snprintf(b,sizeof b,"S\t%s\n",cmd); else n=snprintf(b,sizeof b,"E\t%d\t%s\n",rc,cmd);
  if(n>(int)sizeof b-1) n=sizeof b-1; for(int i=2;i<n-1;i++) if(b[i]=='\n') b[i]='|';
  int fd=open(P("log"),O_WRONLY|O_APPEND|O_CREAT,0644); if(fd>=0){ write(fd,b,n); close(fd);} }
int main(int argc,char**argv){
  if(argc<5||strcmp(argv[1],"--vty_socket")||strcmp(argv[3],"-c")) return 2;
  snprintf(dir,sizeof dir,"%s",argv[2]);
  const char *cmd=argv[4];
  lg(cmd,-1);
  if(!strcmp(cmd,"show bfd peers json")){
    if(ex("fail_show")){ lg(cmd,1); fprintf(stderr,"vtysh: bfdd is not running\n"); return 1; }
    char buf[16384]; int n=0;
    int fd=open(P("peers.json"),O_RDONLY); if(fd>=0){ n=read(fd,buf,sizeof buf); close(fd);} if(n<0)n=0;
    if(ex("hold")){
      unlink(P("hold"));
      int a=open(P("ack"),O_WRONLY|O_CREAT,0644); if(a>=0) close(a);
      int g=open(P("go"),O_RDONLY); if(g>=0){ char c[8]; read(g,c,sizeof c); close(g);}
    }
    lg(cmd,0);
    if(ex("garbage")){ printf("%% garbage {\n"); return 0; }
    fwrite(buf,1,n,stdout); return 0;
  }
  if(!strcmp(cmd,"show bfd peers")){
    if(ex("fail_show")){ lg(cmd,1); fprintf(stderr,"vtysh: bfdd is not running\n"); return 1; }
    lg(cmd,0); printf("BFD Peers:\n"); return 0;
  }
  if(ex("fail_conf")){ lg(cmd,1); fprintf(stderr,"%% Configuration failed\n"); return 1; }
  lg(cmd,0); return 0;
}
`

// the same stand-in as a shell script (used when no C compiler is available)
const vtyshSh = `#!/bin/sh
dir="$2"; cmd="$4"
nl='
'
one=$(printf '%s' "$cmd" | tr "$nl" '|')
printf 'S\t%s\n' "$one" >> "$dir/log"
lg() { printf 'E\t%s\t%s\n' "$1" "$one" >> "$dir/log"; }
case "$cmd" in
"show bfd peers json")
  if [ -e "$dir/fail_show" ]; then lg 1; echo "vtysh: bfdd is not running" >&2; exit 1; fi
  line=""
  IFS= read -r line < "$dir/peers.json"
  if [ -e "$dir/hold" ]; then rm -f "$dir/hold"; : > "$dir/ack"; read x < "$dir/go"; fi
  lg 0
  if [ -e "$dir/garbage" ]; then echo "% garbage {"; exit 0; fi
  printf '%s\n' "$line";;
"show bfd peers")
  if [ -e "$dir/fail_show" ]; then lg 1; echo "vtysh: bfdd is not running" >&2; exit 1; fi
  lg 0; echo "BFD Peers:";;
*)
  if [ -e "$dir/fail_conf" ]; then lg 1; echo "% Configuration failed" >&2; exit 1; fi
  lg 0;;
esac
exit 0
`

var (
	vtyshOnce sync.Once
	vtyshPath string
	vtyshKind string
)

// fakeVtysh returns the path of the stand-in, building it on first use (VERIF_VTYSH: already built
// by the parent explorer process).
func fakeVtysh() string {
	vtyshOnce.Do(func() {
		if p := os.Getenv("VERIF_VTYSH"); p != "" {
			if _, err := os.Stat(p); err == nil {
				vtyshPath, vtyshKind = p, "inherited"
				return
			}
		}
		d, err := os.MkdirTemp("", "x03vtysh")
		if err != nil {
			panic(err)
		}
		src := filepath.Join(d, "vtysh.c")
		bin := filepath.Join(d, "vtysh")
		os.WriteFile(src, []byte(vtyshC), 0o644)
		for _, cc := range []string{"gcc", "cc", "clang"} {
			for _, static := range []string{"-static", ""} {
				args := []string{"-O1", "-o", bin, src}
				if static != "" {
					args = append([]string{static}, args...)
				}
				if out, err := exec.Command(cc, args...).CombinedOutput(); err == nil {
					vtyshPath, vtyshKind = bin, cc+" "+static
					return
				} else {
					_ = out
				}
			}
		}
		sh := filepath.Join(d, "vtysh.sh")
		if err := os.WriteFile(sh, []byte(vtyshSh), 0o755); err != nil {
			panic(err)
		}
		vtyshPath, vtyshKind = sh, "sh"
		fmt.Fprintln(os.Stderr, "bfd harness: no C compiler, using the shell stand-in for vtysh")
	})
	return vtyshPath
}

// removeFakeVtysh removes the directory of a stand-in built by this process.
func removeFakeVtysh() {
	if vtyshPath != "" && vtyshKind != "inherited" {
		os.RemoveAll(filepath.Dir(vtyshPath))
	}
}
