//go:build verif

package bfd

import (
	"encoding/json"
	"fmt"
	"math/rand"
	"os"
	"os/exec"
	"path/filepath"
	"runtime"
	"strconv"
	"strings"
	"sync"
	"testing"

	"verifharness/core"
)

type replayCase struct {
	ID     string         `json:"id"`
	System string         `json:"system"`
	Events []core.Event   `json:"events"`
	Cfg    map[string]any `json:"cfg"`
}

type replayFile struct {
	Property string       `json:"property"`
	Cases    []replayCase `json:"cases"`
}

type runStats struct {
	Systems     int                `json:"systems"`
	Nodes       int                `json:"nodes"`
	Edges       int                `json:"edges"`
	Chains      int                `json:"chains"`
	ChainEvents int                `json:"chain_events"`
	Closed      int                `json:"closed_systems"`
	Panics      []core.PanicRecord `json:"panics"`
	PerSystem   map[string][3]int  `json:"per_system"`
	Vtysh       string             `json:"vtysh_standin"`
}

// --- alphabets -------------------------------------------------------------------------------

// every event of a BFD system carries the same fields (TLC reads records)
func bev(op string, kv ...any) core.Event {
	e := core.Event{"op": op, "p": 0, "s": "", "v": 0, "rx": 0, "tx": 0, "mult": 0, "q": 0, "which": "", "on": false}
	for i := 0; i+1 < len(kv); i += 2 {
		e[kv[i].(string)] = kv[i+1]
	}
	return e
}
func evFrr(p int, s string) core.Event { return bev("frr", "p", p, "s", s) }
func evAdd(p int) core.Event           { return bev("add", "p", p) }
func evAddOpt(p int) core.Event        { return bev("add", "p", p, "v", 1, "rx", 50, "tx", 70, "mult", 5) }
func evRemove(p int) core.Event        { return bev("remove", "p", p) }
func evAdv(q int) core.Event           { return bev("adv", "q", q) }
func evFail(which string, on bool) core.Event {
	return bev("fail", "which", which, "on", on)
}

var (
	evStart     = bev("start")
	evStop      = bev("stop")
	evPollBegin = bev("poll_begin")
	evPollEnd   = bev("poll_end")
)

// Catalogue: the configurations whose transition tables are extracted (every vtysh command is a
// real child process, so the alphabets are kept small and the aspects are spread over several tables).
func Catalogue(tier string) []core.System {
	hc2 := &HSystem{name: "hc2", NTargets: 2, Alphabet: []core.Event{
		{"op": "check", "t": 0, "r": "oo"}, {"op": "check", "t": 0, "r": "of"}, {"op": "check", "t": 0, "r": "fo"}, {"op": "check", "t": 0, "r": "ff"},
		{"op": "addt", "t": 1, "r": ""}, {"op": "rmt", "t": 1, "r": ""}, {"op": "addt", "t": 2, "r": ""}}}
	// configuration commands refused by FRR
	conf1 := &BSystem{name: "conf1", NPeers: 1, Prestarted: true, Alphabet: []core.Event{
		evAdd(1), evAddOpt(1), evRemove(1), evFail("fail_conf", true), evFail("fail_conf", false), evAdv(1)}}
	if tier != "thorough" {
		return []core.System{
			// mirroring + callbacks + configuration: one peer, FRR session states, (re-)add, remove
			&BSystem{name: "mirror1", NPeers: 1, Prestarted: true, Alphabet: []core.Event{
				evFrr(1, "absent"), evFrr(1, "down"), evFrr(1, "up"), evAdv(1), evAdd(1), evRemove(1)}},
			// life cycle and poll cadence: start / stop / failing status command / time
			&BSystem{name: "life1", NPeers: 1, Alphabet: []core.Event{
				evStart, evStop, evAdv(1), evFail("fail_show", true), evFail("fail_show", false), evFrr(1, "up")}},
			// the window between the status fetch and the critical section of refreshPeers
			&BSystem{name: "gated1", NPeers: 1, Prestarted: true, Alphabet: []core.Event{
				evAdd(1), evRemove(1), evFrr(1, "up"), evPollBegin, evPollEnd}},
			// every session state FRR can report, seen by consecutive polls (callbacks for each pair of states)
			&BSystem{name: "cb1", NPeers: 1, Prestarted: true, Alphabet: []core.Event{
				evFrr(1, "down"), evFrr(1, "init"), evFrr(1, "up"), evFrr(1, "admin down"), evAdv(1)}},
			conf1, hc2,
		}
	}
	return []core.System{
		&BSystem{name: "mirror1f", NPeers: 1, Prestarted: true, Alphabet: []core.Event{
			evFrr(1, "absent"), evFrr(1, "down"), evFrr(1, "init"), evFrr(1, "up"), evAdv(1), evAdd(1), evRemove(1)}},
		&BSystem{name: "life1f", NPeers: 1, Alphabet: []core.Event{
			evStart, evStop, evAdv(1), evAdv(2), evFail("fail_show", true), evFail("fail_show", false), evFrr(1, "up"), evFrr(1, "down")}},
		&BSystem{name: "gated1f", NPeers: 1, Prestarted: true, Alphabet: []core.Event{
			evAdd(1), evRemove(1), evFrr(1, "up"), evFrr(1, "down"), evPollBegin, evPollEnd}},
		conf1, hc2,
		&BSystem{name: "mirror2", NPeers: 2, Prestarted: true, Alphabet: []core.Event{
			evFrr(1, "down"), evFrr(1, "up"), evFrr(2, "absent"), evFrr(2, "up"), evAdv(1), evAdd(1), evRemove(1)}},
		&BSystem{name: "mirror1x", NPeers: 1, Prestarted: true, Alphabet: []core.Event{
			evFrr(1, "absent"), evFrr(1, "admin down"), evFrr(1, "up"), evFrr(1, "shutdown"), evAdv(1), evAddOpt(1), evRemove(1),
			evFail("garbage", true), evFail("garbage", false)}},
		&BSystem{name: "gated2", NPeers: 2, Prestarted: true, Alphabet: []core.Event{
			evAdd(1), evRemove(1), evFrr(1, "up"), evFrr(2, "up"), evPollBegin, evPollEnd, evStop}},
		&HSystem{name: "hc3", NTargets: 3, Alphabet: []core.Event{
			{"op": "check", "t": 0, "r": "ooo"}, {"op": "check", "t": 0, "r": "off"}, {"op": "check", "t": 0, "r": "fof"}, {"op": "check", "t": 0, "r": "ffo"},
			{"op": "check", "t": 0, "r": "fff"}, {"op": "addt", "t": 1, "r": ""}, {"op": "rmt", "t": 1, "r": ""}, {"op": "addt", "t": 2, "r": ""}, {"op": "addt", "t": 3, "r": ""}}},
	}
}

// ChainCatalogue: configurations driven by long seeded random sequences (entries repeated = weight).
func ChainCatalogue() []core.System {
	var rnd, rndg, rndgr []core.Event
	for p := 1; p <= 3; p++ {
		for _, s := range []string{"absent", "down", "down", "init", "up", "up", "up", "Up", "admin down", "shutdown"} {
			rnd = append(rnd, evFrr(p, s))
		}
		rnd = append(rnd, evAdd(p), evAdd(p), evAddOpt(p), evRemove(p), evRemove(p))
	}
	for i := 0; i < 10; i++ {
		rnd = append(rnd, evAdv(1))
	}
	rnd = append(rnd, evAdv(2), evAdv(2), evAdv(3), evStart, evStart,
		evFail("fail_show", true), evFail("fail_show", false), evFail("fail_show", false),
		evFail("garbage", true), evFail("garbage", false), evFail("garbage", false),
		evFail("fail_conf", true), evFail("fail_conf", false), evFail("fail_conf", false))
	for p := 1; p <= 2; p++ {
		for _, s := range []string{"down", "init", "up", "up", "absent"} {
			rndg = append(rndg, evFrr(p, s))
		}
		rndg = append(rndg, evAdd(p), evAddOpt(p))
	}
	for i := 0; i < 4; i++ {
		rndg = append(rndg, evPollBegin, evPollEnd, evAdv(1))
	}
	rndg = append(rndg, evFail("garbage", true), evFail("garbage", false), evFail("fail_show", true), evFail("fail_show", false))
	// the same with RemovePeer: a removal while a fetch is in flight runs into the known resurrection of the removed
	// peer, after which the monitor stops following the chain - hence a separate system
	rndgr = append(rndgr, rndg...)
	rndgr = append(rndgr, evRemove(1), evRemove(2), evRemove(1), evRemove(2))
	var hc []core.Event
	for _, r := range []string{"oooo", "ooof", "offo", "foof", "ffff", "ffoo", "fofo", "ofof", "ooff", "ffff", "oooo"} {
		hc = append(hc, core.Event{"op": "check", "t": 0, "r": r})
	}
	for t := 1; t <= 4; t++ {
		hc = append(hc, core.Event{"op": "addt", "t": t, "r": ""})
	}
	hc = append(hc, core.Event{"op": "rmt", "t": 2, "r": ""})
	return []core.System{
		&BSystem{name: "rnd3", NPeers: 3, Alphabet: rnd},
		&BSystem{name: "rndg2", NPeers: 2, Prestarted: true, Alphabet: rndg},
		&BSystem{name: "rndgr2", NPeers: 2, Prestarted: true, Alphabet: rndgr},
		&BSystem{name: "rndstop2", NPeers: 2, Alphabet: []core.Event{evStart, evStart, evStop, evAdv(1), evAdv(1), evAdv(2), evAdd(1), evRemove(1), evFrr(1, "up"), evFrr(1, "down"),
			evFrr(2, "up"), evFrr(2, "init"), evFail("fail_show", true), evFail("fail_show", false), evFail("fail_show", false)}},
		&HSystem{name: "rndhc4", NTargets: 4, Alphabet: hc},
	}
}

func find(name string) core.System {
	for _, s := range append(append(Catalogue("quick"), Catalogue("thorough")...), ChainCatalogue()...) {
		if s.Name() == name {
			return s
		}
	}
	return nil
}

// fromCfg builds a system from a replay case's cfg (design counterexamples carry their own constants).
func fromCfg(name string, cfg map[string]any) core.System {
	if cfg == nil {
		return nil
	}
	switch cfg["kind"] {
	case "bfd":
		pre, _ := cfg["prestarted"].(bool)
		return &BSystem{name: name, NPeers: toInt(cfg["npeers"]), Prestarted: pre}
	case "hc":
		return &HSystem{name: name, NTargets: toInt(cfg["ntargets"])}
	}
	return nil
}

// --- jobs --------------------------------------------------------------------------------------

type job struct {
	name   string
	table  core.System // table extraction
	chain  core.System // random chains c0..c1-1
	c0, c1 int
	extra  bool
}

func jobs(tier string) []job {
	var l []job
	for _, s := range Catalogue(tier) {
		l = append(l, job{name: "table-" + s.Name(), table: s})
	}
	nchains, per := 6, 2
	if tier == "thorough" {
		nchains, per = 40, 5
	}
	for _, s := range ChainCatalogue() {
		for c := 0; c < nchains; c += per {
			l = append(l, job{name: fmt.Sprintf("chain-%s-%d", s.Name(), c), chain: s, c0: c, c1: min(c+per, nchains)})
		}
	}
	if os.Getenv("VERIF_EXTRA_CASES") != "" {
		l = append(l, job{name: "extra", extra: true})
	}
	return l
}

func chainLen(tier string, sys core.System) int {
	n := 60
	if tier == "thorough" {
		n = 160
	}
	if _, ok := sys.(*HSystem); ok {
		n *= 5
	}
	return n
}

func addTable(bundle *core.Bundle, st *runStats, tab *core.Table) {
	bundle.Systems = append(bundle.Systems, tab)
	ne := 0
	for _, es := range tab.Edges {
		ne += len(es)
	}
	if strings.Contains(tab.Name, "#") {
		st.Chains++
		st.ChainEvents += len(tab.Nodes) - 1
		return
	}
	c := 0
	if tab.Closed {
		c = 1
		st.Closed++
	}
	st.PerSystem[tab.Name] = [3]int{len(tab.Nodes), ne, c}
	st.Systems++
	st.Nodes += len(tab.Nodes)
	st.Edges += ne
}

func runJob(t *testing.T, j job, tier string, seed int64, bundle *core.Bundle, st *runStats) {
	switch {
	case j.table != nil:
		maxNodes := 400
		if tier == "thorough" {
			maxNodes = 4000
		}
		if v := os.Getenv("VERIF_MAXNODES"); v != "" {
			fmt.Sscan(v, &maxNodes)
		}
		opt := core.ExploreOptions{MaxNodes: maxNodes, AdequacySample: 4, Seed: seed, Workers: 1}
		if _, ok := j.table.(*HSystem); ok {
			opt.Workers = 4
			opt.MaxNodes = 20000
			opt.AdequacySample = 25
		}
		tab, panics, err := core.Explore(j.table, opt)
		if err != nil {
			t.Fatalf("explore %s: %v", j.table.Name(), err)
		}
		st.Panics = append(st.Panics, panics...)
		addTable(bundle, st, tab)
	case j.chain != nil:
		evs := j.chain.Events()
		for c := j.c0; c < j.c1; c++ {
			rng := rand.New(rand.NewSource(seed*1000003 + int64(c)*7919 + int64(len(j.chain.Name()))))
			n := chainLen(tier, j.chain)
			var seqv []core.Event
			if bs, ok := j.chain.(*BSystem); ok && !bs.Prestarted {
				seqv = append(seqv, evStart)
			}
			for len(seqv) < n {
				seqv = append(seqv, evs[rng.Intn(len(evs))])
			}
			tab, pr := core.Chain(j.chain, fmt.Sprintf("%s#%d", j.chain.Name(), c), seqv, false)
			if pr != nil {
				st.Panics = append(st.Panics, *pr)
				continue
			}
			addTable(bundle, st, tab)
		}
	case j.extra:
		b, err := os.ReadFile(os.Getenv("VERIF_EXTRA_CASES"))
		if err != nil {
			t.Fatal(err)
		}
		var rf replayFile
		if err := json.Unmarshal(b, &rf); err != nil {
			t.Fatal(err)
		}
		for _, c := range rf.Cases {
			sys := fromCfg(c.System, c.Cfg)
			if sys == nil {
				t.Fatalf("extra case %s: no configuration", c.ID)
			}
			tab, pr := core.Chain(sys, c.System+"#"+c.ID, c.Events, false)
			if pr != nil {
				st.Panics = append(st.Panics, *pr)
				continue
			}
			addTable(bundle, st, tab)
		}
	}
}

func TestExplore(t *testing.T) {
	theT = t
	defer func() {
		harnessErrs.Lock()
		defer harnessErrs.Unlock()
		if len(harnessErrs.l) > 0 {
			t.Fatalf("harness cannot represent the observed behaviour (infrastructure failure, not a verdict):\n%s", strings.Join(harnessErrs.l, "\n"))
		}
	}()
	out := core.OutDir()
	defer removeFakeVtysh()
	if rf := os.Getenv("VERIF_REPLAY"); rf != "" {
		replay(t, rf, out)
		return
	}
	tier, seed := core.Tier(), core.Seed()
	bundle := &core.Bundle{}
	st := runStats{PerSystem: map[string][3]int{}}
	all := jobs(tier)
	if only := os.Getenv("VERIF_JOB"); only != "" { // child process: one job
		for _, j := range all {
			if j.name == only {
				runJob(t, j, tier, seed, bundle, &st)
			}
		}
		st.Vtysh = vtyshKind
		if err := core.WriteJSON(out, "bundle.json", bundle); err != nil {
			t.Fatal(err)
		}
		core.WriteJSON(out, "stats.json", st)
		return
	}
	// parent: every job in its own process (bubbles of one process run strictly one after the other:
	// go1.25.0's synctest is not safe with bubbles on several Ps), several processes at a time
	os.Setenv("VERIF_VTYSH", fakeVtysh())
	st.Vtysh = vtyshKind
	par := max(2, min(8, runtime.NumCPU()/2))
	if v, err := strconv.Atoi(os.Getenv("VERIF_PAR")); err == nil && v > 0 {
		par = v
	}
	type result struct {
		b   core.Bundle
		s   runStats
		err string
	}
	results := make([]result, len(all))
	sem := make(chan struct{}, par)
	var wg sync.WaitGroup
	for i, j := range all {
		wg.Add(1)
		go func() {
			defer wg.Done()
			sem <- struct{}{}
			defer func() { <-sem }()
			jd := filepath.Join(out, "jobs", j.name)
			os.MkdirAll(jd, 0o755)
			cmd := exec.Command(os.Args[0], "-test.run", "^TestExplore$", "-test.count=1", "-test.timeout", "3000s")
			cmd.Env = append(os.Environ(), "VERIF_JOB="+j.name, "VERIF_OUT="+jd)
			o, err := cmd.CombinedOutput()
			if err != nil {
				results[i].err = fmt.Sprintf("job %s: %v\n%s", j.name, err, tail(string(o), 4000))
				return
			}
			for f, v := range map[string]any{"bundle.json": &results[i].b, "stats.json": &results[i].s} {
				b, err := os.ReadFile(filepath.Join(jd, f))
				if err == nil {
					err = json.Unmarshal(b, v)
				}
				if err != nil {
					results[i].err = fmt.Sprintf("job %s: %s: %v", j.name, f, err)
					return
				}
			}
		}()
	}
	wg.Wait()
	for i := range all {
		r := results[i]
		if r.err != "" {
			t.Fatal(r.err)
		}
		bundle.Systems = append(bundle.Systems, r.b.Systems...)
		st.Systems += r.s.Systems
		st.Nodes += r.s.Nodes
		st.Edges += r.s.Edges
		st.Chains += r.s.Chains
		st.ChainEvents += r.s.ChainEvents
		st.Closed += r.s.Closed
		st.Panics = append(st.Panics, r.s.Panics...)
		for k, v := range r.s.PerSystem {
			st.PerSystem[k] = v
		}
	}
	os.RemoveAll(filepath.Join(out, "jobs"))
	if err := core.WriteJSON(out, "bundle.json", bundle); err != nil {
		t.Fatal(err)
	}
	if err := core.WriteJSON(out, "stats.json", st); err != nil {
		t.Fatal(err)
	}
}

func tail(s string, n int) string {
	if len(s) > n {
		return s[len(s)-n:]
	}
	return s
}

func replay(t *testing.T, file, out string) {
	b, err := os.ReadFile(file)
	if err != nil {
		t.Fatal(err)
	}
	var rf replayFile
	if err := json.Unmarshal(b, &rf); err != nil {
		t.Fatal(err)
	}
	st := runStats{PerSystem: map[string][3]int{}}
	bundle := &core.Bundle{}
	for _, c := range rf.Cases {
		name := c.System
		if i := strings.IndexByte(name, '#'); i >= 0 {
			name = name[:i]
		}
		sys := find(name)
		if sys == nil {
			sys = fromCfg(name, c.Cfg)
		}
		if sys == nil {
			t.Fatalf("unknown system %q", c.System)
		}
		tab, pr := core.Chain(sys, name+"#"+c.ID, c.Events, false)
		if pr != nil {
			st.Panics = append(st.Panics, *pr)
			continue
		}
		addTable(bundle, &st, tab)
	}
	if err := core.WriteJSON(out, "bundle.json", bundle); err != nil {
		t.Fatal(err)
	}
	core.WriteJSON(out, "stats.json", st)
}
