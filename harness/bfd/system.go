//go:build verif

// Package bfd binds the Bfd contract (specs/Bfd) to the real routing.BFDManager and
// routing.HealthChecker of /repo.
//
// routing.BFDManager does not implement the RFC 5880 automaton itself: the sessions run inside
// FRR's bfdd and the manager (a) configures peers through `vtysh -c`, (b) polls
// "show bfd peers json" every MonitorInterval from its monitor goroutine, mirrors the reported
// session states into its cache and (c) fires the OnPeerUp / OnPeerDown callbacks on the changes
// it sees. The harness therefore plays FRR: a per-instance directory holds FRR's peer table and
// the stand-in `vtysh` (fakefrr.go) answers from it. The manager runs inside a testing/synctest
// bubble; its ticker is driven by virtual time. While a stand-in process runs, bubble time stands
// still (a goroutine waiting for a child process is not durably blocked), so command latency is
// zero in virtual time and wall-clock speed never influences a result.
package bfd

import (
	"encoding/json"
	"fmt"
	"net"
	"os"
	"path/filepath"
	"sort"
	"strconv"
	"strings"
	"sync"
	"syscall"
	"testing"
	"testing/synctest"
	"time"
	"unsafe"

	"github.com/codelaboratoryltd/bng/pkg/routing"
	"go.uber.org/zap"

	"verifharness/core"
)

// Interval is the MonitorInterval of every manager under test; harness actions happen half an
// interval away from the ticks of the monitor loop (the `start` step lasts Interval/2), so a tick
// never coincides with a harness action.
const Interval = 5 * time.Second
const Unit = time.Millisecond

var theT *testing.T

var harnessErrs struct {
	sync.Mutex
	l []string
}

func harnessFail(msg string) {
	harnessErrs.Lock()
	if len(harnessErrs.l) < 20 {
		harnessErrs.l = append(harnessErrs.l, msg)
	}
	harnessErrs.Unlock()
}

// realNow is the wall clock (time.Now is virtual inside a bubble).
func realNow() time.Duration {
	var ts syscall.Timespec
	syscall.Syscall(syscall.SYS_CLOCK_GETTIME, 1 /* CLOCK_MONOTONIC */, uintptr(unsafe.Pointer(&ts)), 0)
	return time.Duration(ts.Nano())
}

func realSleep(d time.Duration) {
	ts := syscall.NsecToTimespec(int64(d))
	syscall.Nanosleep(&ts, nil)
}

// --- system ---------------------------------------------------------------------------

// BSystem is one configuration of BFDManager + scripted FRR.
type BSystem struct {
	name       string
	NPeers     int
	Prestarted bool         // New() performs Start() (the table then has no start event)
	Alphabet   []core.Event // the finite alphabet of the table / the pool random chains draw from
	MaxDepth   int
}

// defaults of the manager under test (deliberately rx != tx, and different from what FRR reports
// for peers configured out of band: 300/200/4)
const (
	defRx, defTx, defMult = 100, 150, 3
	oobRx, oobTx, oobMult = 300, 200, 4
)

func (s *BSystem) Name() string { return s.name }
func (s *BSystem) Config() map[string]any {
	return map[string]any{"impl": s.name, "kind": "bfd", "npeers": s.NPeers, "interval": int(Interval / Unit),
		"drx": defRx, "dtx": defTx, "dmult": defMult, "prestarted": s.Prestarted, "nsubs": 0}
}
func (s *BSystem) Events() []core.Event { return s.Alphabet }
func (s *BSystem) Wrap(f func()) {
	synctest.Test(theT, func(t *testing.T) { f() })
}

func peerIP(p int) net.IP { return net.IPv4(10, 0, 0, byte(p)) }

type frrPeer struct {
	Status       string
	Rx, Tx, Mult int
}

type cbRec struct {
	kind string
	addr string
}

type binst struct {
	s   *BSystem
	dir string
	m   *routing.BFDManager

	run       string // fresh | running | stopped
	frr       map[int]*frrPeer
	flags     map[string]bool
	held      bool
	heldSnp   []string
	heldTch   map[int]string // peers AddPeer/RemovePeer succeeded for since the held fetch began (last action)
	logPos    int64
	lastFetch time.Time // end of the last step in which a status fetch started

	mu  sync.Mutex
	cbs []cbRec
}

func (s *BSystem) New() core.Instance {
	dir, err := os.MkdirTemp("", "x03bfd")
	if err != nil {
		panic(err)
	}
	in := &binst{s: s, dir: dir, run: "fresh", frr: map[int]*frrPeer{}, flags: map[string]bool{}}
	if err := syscall.Mkfifo(filepath.Join(dir, "go"), 0o600); err != nil {
		panic(err)
	}
	in.writeFrr()
	cfg := routing.DefaultBFDConfig()
	cfg.VtyshPath = fakeVtysh()
	cfg.VtyshSocket = dir
	cfg.DefaultMinRxInterval, cfg.DefaultMinTxInterval, cfg.DefaultDetectMultiplier = defRx, defTx, defMult
	cfg.MonitorInterval = Interval
	cfg.CommandTimeout = time.Hour // virtual; a command never takes virtual time
	in.m = routing.NewBFDManager(cfg, zap.NewNop())
	in.m.OnPeerUp(func(a string) { in.mu.Lock(); in.cbs = append(in.cbs, cbRec{"up", a}); in.mu.Unlock() })
	in.m.OnPeerDown(func(a string) { in.mu.Lock(); in.cbs = append(in.cbs, cbRec{"down", a}); in.mu.Unlock() })
	if s.Prestarted {
		if err := in.m.Start(); err != nil {
			panic("prestart: " + err.Error())
		}
		in.run = "running"
		time.Sleep(Interval / 2)
		synctest.Wait()
		in.readLog() // discard
		in.cbs = nil
		in.lastFetch = time.Now()
	}
	return in
}

// writeFrr publishes FRR's peer table as the answer to "show bfd peers json".
func (in *binst) writeFrr() {
	type row struct {
		Peer   string `json:"peer"`
		Status string `json:"status"`
		Uptime int64  `json:"uptime"`
		Rx     int    `json:"receive-interval"`
		Tx     int    `json:"transmit-interval"`
		Mult   int    `json:"detect-multiplier"`
	}
	rows := []row{}
	for p := 1; p <= in.s.NPeers; p++ {
		if e, ok := in.frr[p]; ok {
			rows = append(rows, row{peerIP(p).String(), e.Status, 0, e.Rx, e.Tx, e.Mult})
		}
	}
	b, _ := json.Marshal(rows)
	tmp := filepath.Join(in.dir, "peers.json.tmp")
	if err := os.WriteFile(tmp, append(b, '\n'), 0o644); err != nil {
		panic(err)
	}
	os.Rename(tmp, filepath.Join(in.dir, "peers.json"))
}

func (in *binst) snap() []string {
	out := make([]string, in.s.NPeers)
	for p := 1; p <= in.s.NPeers; p++ {
		if e, ok := in.frr[p]; ok {
			out[p-1] = e.Status
		} else {
			out[p-1] = "absent"
		}
	}
	return out
}

func (in *binst) setFlag(name string, on bool) {
	p := filepath.Join(in.dir, name)
	if on {
		os.WriteFile(p, nil, 0o644)
	} else {
		os.Remove(p)
	}
	in.flags[name] = on
}

type logRec struct {
	start bool
	rc    int
	cmd   string
}

// readLog returns the records the stand-in wrote since the last call.
func (in *binst) readLog() []logRec {
	b, err := os.ReadFile(filepath.Join(in.dir, "log"))
	if err != nil {
		return nil
	}
	if int64(len(b)) < in.logPos {
		in.logPos = 0
	}
	txt := string(b[in.logPos:])
	// only complete lines
	if i := strings.LastIndexByte(txt, '\n'); i >= 0 {
		txt = txt[:i+1]
	} else {
		txt = ""
	}
	in.logPos += int64(len(txt))
	var out []logRec
	for _, l := range strings.Split(txt, "\n") {
		f := strings.SplitN(l, "\t", 3)
		switch {
		case len(f) == 2 && f[0] == "S":
			out = append(out, logRec{start: true, cmd: f[1]})
		case len(f) == 3 && f[0] == "E":
			rc, _ := strconv.Atoi(f[1])
			out = append(out, logRec{rc: rc, cmd: f[2]})
		}
	}
	return out
}

const cmdFetch = "show bfd peers json"

// told parses one finished configuration command into what FRR was asked to do.
func (in *binst) told(r logRec) (map[string]any, bool) {
	if !strings.HasPrefix(r.cmd, "configure terminal") {
		return nil, false
	}
	t := map[string]any{"kind": "other", "p": 0, "rx": 0, "tx": 0, "mult": 0, "acc": r.rc == 0, "multihop": false}
	num := func(s string) int { n, _ := strconv.Atoi(strings.TrimSpace(s)); return n }
	for _, l := range strings.Split(r.cmd, "|") {
		l = strings.TrimSpace(l)
		switch {
		case strings.HasPrefix(l, "no peer "):
			t["kind"] = "nopeer"
			t["p"] = in.peerIdx(strings.Fields(l)[2])
		case strings.HasPrefix(l, "peer "):
			f := strings.Fields(l)
			t["kind"] = "peer"
			t["p"] = in.peerIdx(f[1])
			t["multihop"] = len(f) > 2 && f[2] == "multihop"
		case strings.HasPrefix(l, "receive-interval "):
			t["rx"] = num(l[len("receive-interval "):])
		case strings.HasPrefix(l, "transmit-interval "):
			t["tx"] = num(l[len("transmit-interval "):])
		case strings.HasPrefix(l, "detect-multiplier "):
			t["mult"] = num(l[len("detect-multiplier "):])
		}
	}
	return t, true
}

func (in *binst) peerIdx(addr string) int {
	for p := 1; p <= in.s.NPeers; p++ {
		if peerIP(p).String() == addr {
			return p
		}
	}
	return 0
}

// applyTold is FRR executing an accepted configuration command.
func (in *binst) applyTold(t map[string]any) {
	if !t["acc"].(bool) {
		return
	}
	p := t["p"].(int)
	if p == 0 {
		return
	}
	switch t["kind"] {
	case "peer":
		e, ok := in.frr[p]
		if !ok {
			e = &frrPeer{Status: "down"}
			in.frr[p] = e
		}
		e.Rx, e.Tx, e.Mult = t["rx"].(int), t["tx"].(int), t["mult"].(int)
	case "nopeer":
		delete(in.frr, p)
	}
	in.writeFrr()
}

func (in *binst) cacheObs() []map[string]any {
	out := make([]map[string]any, in.s.NPeers)
	for p := 1; p <= in.s.NPeers; p++ {
		pe, ok := in.m.GetPeer(peerIP(p))
		if !ok || pe == nil {
			out[p-1] = map[string]any{"st": "none", "rx": 0, "tx": 0, "mult": 0, "det": 0}
			continue
		}
		out[p-1] = map[string]any{"st": pe.State.String(), "rx": pe.MinRxInterval, "tx": pe.MinTxInterval, "mult": pe.DetectMultiplier, "det": pe.DetectionTime()}
	}
	return out
}

func (in *binst) counters() (up, down int) {
	st := in.m.Stats()
	return int(st.TotalUpEvents), int(st.TotalDownEvents)
}

// waitAck waits (wall clock, bounded) until the stand-in reports that it holds its answer.
func (in *binst) waitAck() bool {
	ack := filepath.Join(in.dir, "ack")
	deadline := realNow() + 8*time.Second
	for {
		if _, err := os.Stat(ack); err == nil {
			os.Remove(ack)
			return true
		}
		if realNow() > deadline {
			return false
		}
		realSleep(300 * time.Microsecond)
	}
}

func (in *binst) release() {
	f, err := os.OpenFile(filepath.Join(in.dir, "go"), os.O_WRONLY, 0)
	if err != nil {
		panic(err)
	}
	f.WriteString("go\n")
	f.Close()
}

func (in *binst) answered() bool { return !in.flags["fail_show"] && !in.flags["garbage"] }

func (in *binst) Apply(ev core.Event) map[string]any {
	op := ev["op"].(string)
	p := toInt(ev["p"])
	start := time.Now()
	in.mu.Lock()
	in.cbs = nil
	in.mu.Unlock()
	up0, down0 := in.counters()
	acc, ok := true, true
	polls := []map[string]any{}
	// what a poll that fetches its status in this step is told (the table only changes between steps)
	freshSnap := in.snap()
	freshOK := in.answered()
	switch op {
	case "start":
		if in.run != "fresh" {
			acc = false
			break
		}
		err := in.m.Start()
		ok = err == nil
		if ok {
			in.run = "running"
		}
		time.Sleep(Interval / 2)
	case "stop":
		if in.run != "running" {
			acc = false
			break
		}
		wasHeld := in.held
		in.m.Stop() // cancels the context: a held stand-in process is killed, its poll fails
		in.run = "stopped"
		if wasHeld {
			in.held = false
			os.Remove(filepath.Join(in.dir, "hold"))
			polls = append(polls, map[string]any{"ok": false, "snap": in.heldSnp, "stale": true})
		}
	case "add":
		var err error
		if toInt(ev["v"]) == 0 {
			err = in.m.AddPeer(peerIP(p))
		} else {
			err = in.m.AddPeerWithOptions(peerIP(p), toInt(ev["rx"]), toInt(ev["tx"]), toInt(ev["mult"]), false)
		}
		ok = err == nil
		if ok && in.held {
			in.heldTch[p] = "a"
		}
	case "remove":
		ok = in.m.RemovePeer(peerIP(p)) == nil
		if ok && in.held {
			in.heldTch[p] = "r"
		}
	case "frr":
		// the environment: FRR's session with peer p changes state / the operator (un)configures p in FRR directly
		s := ev["s"].(string)
		if s == "absent" {
			delete(in.frr, p)
		} else if e, okp := in.frr[p]; okp {
			e.Status = s
		} else {
			in.frr[p] = &frrPeer{Status: s, Rx: oobRx, Tx: oobTx, Mult: oobMult}
		}
		in.writeFrr()
	case "fail":
		in.setFlag(ev["which"].(string), ev["on"].(bool))
	case "adv":
		if in.held {
			acc = false
			break
		}
		time.Sleep(time.Duration(toInt(ev["q"])) * Interval)
	case "poll_begin":
		if in.run != "running" || in.held {
			acc = false
			break
		}
		os.Remove(filepath.Join(in.dir, "ack"))
		os.WriteFile(filepath.Join(in.dir, "hold"), nil, 0o644)
		time.Sleep(Interval / 2) // the tick instant; the monitor goroutine wakes at this very instant
		if !in.flags["fail_show"] && in.waitAck() {
			in.held = true
			in.heldSnp = freshSnap
			in.heldTch = map[int]string{}
		} else {
			// FRR does not answer at all (flag raised) or no poll came: nothing is held
			synctest.Wait()
			os.Remove(filepath.Join(in.dir, "hold"))
		}
	case "poll_end":
		if !in.held {
			acc = false
			break
		}
		in.release()
		in.held = false
		synctest.Wait()
		// garbage is decided when the answer is written, fail_show when the command starts
		polls = append(polls, map[string]any{"ok": !in.flags["garbage"], "snap": in.heldSnp, "stale": true})
		time.Sleep(Interval / 2)
	default:
		panic("unknown op " + op)
	}
	if !in.held {
		synctest.Wait()
	}
	dt := time.Since(start)
	if dt%Unit != 0 {
		harnessFail(fmt.Sprintf("%s: step %s took %v of virtual time", in.s.name, op, dt))
	}
	// what the stand-in saw during the step
	fetches := 0
	told := []map[string]any{}
	for _, r := range in.readLog() {
		if r.start {
			if r.cmd == cmdFetch {
				fetches++
			}
			continue
		}
		if t, isCfg := in.told(r); isCfg {
			told = append(told, t)
			in.applyTold(t)
		}
	}
	if fetches > 0 {
		in.lastFetch = time.Now()
	}
	// every fetch of this step that is not the held one completed within the step with the fresh table
	nfresh := fetches
	if in.held && op == "poll_begin" {
		nfresh--
	}
	for i := 0; i < nfresh; i++ {
		polls = append(polls, map[string]any{"ok": freshOK, "snap": freshSnap, "stale": false})
	}
	in.mu.Lock()
	cbs := []map[string]any{}
	for _, c := range in.cbs {
		cbs = append(cbs, map[string]any{"kind": c.kind, "p": in.peerIdx(c.addr)})
	}
	in.mu.Unlock()
	sort.SliceStable(cbs, func(i, j int) bool { // goroutine order within a step carries no meaning
		if cbs[i]["p"].(int) != cbs[j]["p"].(int) {
			return cbs[i]["p"].(int) < cbs[j]["p"].(int)
		}
		return cbs[i]["kind"].(string) < cbs[j]["kind"].(string)
	})
	up1, down1 := in.counters()
	if op == "add" || op == "remove" { // the peer record (and its counters) is replaced / dropped: no meaningful delta
		up1, down1 = up0, down0
	}
	return map[string]any{"acc": acc, "ok": ok, "dt": int(dt / Unit), "fetches": fetches, "polls": polls, "cbs": cbs, "told": told,
		"dup": up1 - up0, "ddown": down1 - down0, "cache": in.cacheObs(), "held": in.held, "run": in.run}
}

func (in *binst) Observe() map[string]any {
	return map[string]any{"kind": "bfd", "run": in.run, "held": in.held, "cache": in.cacheObs(), "npeers": len(in.m.ListPeers()), "frr": in.snap()}
}

var bfdFP = &core.FPOptions{SkipFields: map[string]bool{
	"VtyshPath": true, "VtyshSocket": true, // per-instance directory of the scripted FRR
	"UpCount": true, "DownCount": true, // monotone statistics nothing reads back (reported as per-step deltas)
}}

func (in *binst) Fingerprint() string {
	fl := []string{}
	for k, v := range in.flags {
		if v {
			fl = append(fl, k)
		}
	}
	sort.Strings(fl)
	fr := []string{}
	for p := 1; p <= in.s.NPeers; p++ {
		if e, ok := in.frr[p]; ok {
			fr = append(fr, fmt.Sprintf("%d:%s/%d/%d/%d", p, e.Status, e.Rx, e.Tx, e.Mult))
		}
	}
	// a held refreshPeers goroutine may carry state no reflection walk can see (locals); whatever it is, it is a
	// function of what the fetch was told and of the configuration calls completed since
	hs := ""
	if in.held {
		hs = strings.Join(in.heldSnp, ",")
		for p := 1; p <= in.s.NPeers; p++ {
			if a, ok := in.heldTch[p]; ok {
				hs += fmt.Sprintf(";%s%d", a, p)
			}
		}
	}
	// the monitor loop's ticker cannot be inspected; what the harness can see of its phase is for how many whole
	// intervals no status fetch has started (always 0 for a loop that polls every MonitorInterval)
	age := 0
	if in.run == "running" {
		age = int(time.Since(in.lastFetch) / Interval)
		if age > 3 {
			age = 3
		}
	}
	return core.Fingerprint(in.m, bfdFP) + fmt.Sprintf("|run=%s|frr=%v|flags=%v|held=%t:%s|quiet=%d", in.run, fr, fl, in.held, hs, age)
}

func (in *binst) Probe() map[string]any { return nil }

func (in *binst) Close() {
	if in.held {
		in.release()
		in.held = false
	}
	synctest.Wait()
	if in.run == "running" {
		in.m.Stop()
	}
	synctest.Wait()
	os.RemoveAll(in.dir)
}

func toInt(v any) int {
	switch x := v.(type) {
	case int:
		return x
	case int64:
		return int(x)
	case float64:
		return int(x)
	}
	return 0
}
