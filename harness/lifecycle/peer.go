//go:build verif

package lifecycle

import (
	"encoding/hex"
	"fmt"
	"net"
	"strings"
	"sync"
	"sync/atomic"
	"time"

	"layeh.com/radius"
	"layeh.com/radius/rfc2865"
	"layeh.com/radius/rfc2866"
)

// The scripted RADIUS peer: one process-wide pair of UDP servers on loopback (authentication
// on port P, accounting on P+1, as radius.Client expects). It runs OUTSIDE every synctest
// bubble. Access-Requests are accepted iff the password is "good". Every distinct
// Accounting-Request is recorded under the NAS-Identifier of the sending client (one
// identifier per harness instance) before it is answered, so once the gateway's sending
// goroutines have finished (synctest.Wait) the record list is complete.

const secret = "verif-secret"

type acctRec struct {
	Typ string // "start" | "stop" | "other"
	SID string // Acct-Session-Id
	MAC string // Calling-Station-Id, lower case, ':' separated
}

type radiusPeer struct {
	port   int // authentication port; accounting = port+1
	mu     sync.Mutex
	recs   map[string][]acctRec       // NAS-Identifier -> records in arrival order
	seen   map[string]map[string]bool // per NAS retransmission filter: remote addr + identifier + authenticator
	stalls map[string]*stall          // per NAS: hold the answer to the next Accounting-Stop
}

// stall makes the peer slow for one Accounting-Stop: the request is recorded, hit is set, and the
// answer is written only once release is set. Atomics only (the peer runs outside the bubbles).
type stall struct {
	hit, release atomic.Bool
}

func (p *radiusPeer) armStall(nas string) *stall {
	st := &stall{}
	p.mu.Lock()
	if p.stalls == nil {
		p.stalls = map[string]*stall{}
	}
	p.stalls[nas] = st
	p.mu.Unlock()
	return st
}

func (p *radiusPeer) disarmStall(nas string) {
	p.mu.Lock()
	delete(p.stalls, nas)
	p.mu.Unlock()
}

var (
	peerOnce sync.Once
	peer     *radiusPeer
	nasCtr   int64
)

func newNASID() string { return fmt.Sprintf("lc-%d", atomic.AddInt64(&nasCtr, 1)) }

// startPeer must be called from outside any synctest bubble.
func startPeer() *radiusPeer {
	peerOnce.Do(func() {
		var authPC, acctPC net.PacketConn
		for try := 0; try < 200; try++ {
			a, err := net.ListenPacket("udp4", "127.0.0.1:0")
			if err != nil {
				panic(err)
			}
			p := a.LocalAddr().(*net.UDPAddr).Port
			b, err := net.ListenPacket("udp4", fmt.Sprintf("127.0.0.1:%d", p+1))
			if err != nil {
				a.Close()
				continue
			}
			authPC, acctPC = a, b
			break
		}
		if authPC == nil {
			panic("cannot bind two consecutive UDP ports for the RADIUS peer")
		}
		pr := &radiusPeer{port: authPC.LocalAddr().(*net.UDPAddr).Port, recs: map[string][]acctRec{}, seen: map[string]map[string]bool{}}
		auth := &radius.PacketServer{SecretSource: radius.StaticSecretSource([]byte(secret)), Handler: radius.HandlerFunc(func(w radius.ResponseWriter, r *radius.Request) {
			if rfc2865.UserPassword_GetString(r.Packet) == "good" {
				w.Write(r.Response(radius.CodeAccessAccept))
			} else {
				w.Write(r.Response(radius.CodeAccessReject))
			}
		})}
		acct := &radius.PacketServer{SecretSource: radius.StaticSecretSource([]byte(secret)), Handler: radius.HandlerFunc(pr.handleAcct)}
		go auth.Serve(authPC)
		go acct.Serve(acctPC)
		peer = pr
	})
	return peer
}

func (p *radiusPeer) handleAcct(w radius.ResponseWriter, r *radius.Request) {
	if r.Code != radius.CodeAccountingRequest {
		return
	}
	nas := rfc2865.NASIdentifier_GetString(r.Packet)
	typ := "other"
	switch rfc2866.AcctStatusType_Get(r.Packet) {
	case rfc2866.AcctStatusType_Value_Start:
		typ = "start"
	case rfc2866.AcctStatusType_Value_Stop:
		typ = "stop"
	}
	mac := strings.ToLower(strings.ReplaceAll(rfc2865.CallingStationID_GetString(r.Packet), "-", ":"))
	key := fmt.Sprintf("%s/%d/%s", r.RemoteAddr, r.Identifier, hex.EncodeToString(r.Authenticator[:]))
	p.mu.Lock()
	if p.seen[nas] == nil {
		p.seen[nas] = map[string]bool{}
	}
	if !p.seen[nas][key] { // a retransmission of the same datagram is the same request
		p.seen[nas][key] = true
		p.recs[nas] = append(p.recs[nas], acctRec{Typ: typ, SID: rfc2866.AcctSessionID_GetString(r.Packet), MAC: mac})
	}
	var st *stall
	if typ == "stop" {
		st = p.stalls[nas]
		delete(p.stalls, nas)
	}
	p.mu.Unlock()
	if st != nil {
		st.hit.Store(true)
		for i := 0; i < 200000 && !st.release.Load(); i++ { // at most ~20 s
			time.Sleep(100 * time.Microsecond)
		}
	}
	w.Write(r.Response(radius.CodeAccountingResponse))
}

// records returns a copy of the records received so far from NAS nas.
func (p *radiusPeer) records(nas string) []acctRec {
	p.mu.Lock()
	defer p.mu.Unlock()
	return append([]acctRec{}, p.recs[nas]...)
}

func (p *radiusPeer) forget(nas string) {
	p.mu.Lock()
	delete(p.recs, nas)
	delete(p.seen, nas)
	p.mu.Unlock()
}
