//go:build verif

package lifecycle

import (
	"context"
	"fmt"
	"net"
	"reflect"
	"runtime"
	"sort"
	"strings"
	"sync"
	"sync/atomic"
	"testing/synctest"
	"time"
	"unsafe"

	"github.com/codelaboratoryltd/bng/pkg/pppoe"
	bngradius "github.com/codelaboratoryltd/bng/pkg/radius"
	"go.uber.org/zap"

	"verifharness/core"
)

// System "teardown": pppoe.SessionTeardown (pkg/pppoe/teardown.go) with a real pppoe.IPPool,
// a real SessionManager, the real radius.Client talking to the scripted peer and a counting
// eBPF callback (a MAC-keyed set standing for the fast-path entry of the session).
// Establishment is done by the harness in the sub-steps a PPPoE session goes through:
//   CREATE   session created in the SessionManager (LCP phase)
//   AUTH     authenticated; Accounting-Start sent through the same RADIUS client
//   ADDR     address allocated from the pool, fast-path entry written, state Established
// End paths: client PADT, server-initiated termination with cause admin-reset / idle-timeout /
// NAS-request (RADIUS disconnect), TerminateByID, TerminateByMAC, TerminateAll (shutdown).
// A caller reaches the teardown with the *Session it looked up in the session table (as
// Server.handlePADT does); if the table has no such session the path does nothing.
// "Two paths at once": a second path that looked the session up before the first one finished
// - the client's PADT (or an administrative TerminateByID) arriving while TerminateSession
// is sending its own PADT (the sendPADT callback is the window, 1 s of retry delay in
// production). A second window, "X|Y": path Y starts, on its own goroutine, while path X waits
// for the RADIUS server's answer to its Accounting-Stop (the peer is slow for that one request);
// the answer is released once Y has finished or is waiting for a lock.

type TeardownSys struct {
	bubble
	N      int
	events []core.Event
}

func NewTeardownSys(n int) *TeardownSys {
	s := &TeardownSys{N: n}
	for m := 1; m <= n; m++ {
		s.events = append(s.events,
			ev("CREATE", m, "none", true, 1), ev("AUTH", m, "none", true, 1), ev("ADDR", m, "none", true, 1),
			ev("PADT", m, "padt", false, 1), ev("ADMIN", m, "admin", false, 1), ev("IDLETO", m, "idle", false, 1), ev("RDISC", m, "radiusdisc", false, 1),
			ev("BYID", m, "admin", false, 1), ev("BYMAC", m, "admin", false, 1),
			ev("ADMIN+PADT", m, "admin", false, 2), ev("IDLETO+BYID", m, "idle", false, 2),
			ev("ADMIN|PADT", m, "admin", false, 2), ev("IDLETO|PADT", m, "idle", false, 2))
	}
	s.events = append(s.events, ev("SHUTDOWN", 0, "shutdown", false, 1))
	return s
}

func (s *TeardownSys) Name() string { return fmt.Sprintf("teardown/m%d", s.N) }
func (s *TeardownSys) Config() map[string]any {
	return map[string]any{"impl": "pppoe.SessionTeardown", "nsess": s.N, "nunits": 16}
}
func (s *TeardownSys) Events() []core.Event { return s.events }

func tmac(m int) net.HardwareAddr { return net.HardwareAddr{0x02, 0, 0, 0, 0x20, byte(m)} }

type teardownInst struct {
	s      *TeardownSys
	td     *pppoe.SessionTeardown
	sm     *pppoe.SessionManager
	pool   *pppoe.IPPool
	rc     *bngradius.Client
	acct   *acctCounter
	mu     sync.Mutex
	fast   map[string]bool           // the counting eBPF callback's map: client MAC -> entry present
	inPADT func(sess *pppoe.Session) // what happens while TerminateSession sends its PADT
	padts  atomic.Int32              // PADTs sent since the current overlap began
	// harness memory: the session of each slot (id and pool key survive the session)
	sid map[int]uint16
	key map[int]string
}

func (s *TeardownSys) New() core.Instance {
	logger := zap.NewNop()
	pool, err := pppoe.NewIPPool("10.65.0.0/28", "10.65.0.1")
	if err != nil {
		panic(err)
	}
	nas := newNASID()
	rc, err := bngradius.NewClient(bngradius.ClientConfig{Servers: []bngradius.ServerConfig{{Host: "127.0.0.1", Port: peer.port, Secret: secret}}, NASID: nas, Timeout: 30 * time.Second}, logger)
	if err != nil {
		panic(err)
	}
	in := &teardownInst{s: s, sm: pppoe.NewSessionManager(), pool: pool, rc: rc, acct: &acctCounter{nas: nas}, fast: map[string]bool{}, sid: map[int]uint16{}, key: map[int]string{}}
	for m := 1; m <= s.N; m++ {
		in.acct.macs = append(in.acct.macs, tmac(m).String())
	}
	td := pppoe.NewSessionTeardown(pppoe.DefaultTeardownConfig(), logger)
	td.SetRADIUSClient(rc)
	td.SetIPPool(pool)
	td.SetSessionManager(in.sm)
	td.SetSendPADT(func(sess *pppoe.Session, tags []pppoe.Tag) {
		in.padts.Add(1)
		if f := in.inPADT; f != nil {
			in.inPADT = nil // once
			f(sess)
		}
	})
	td.SetSendLCPTermReq(func(sess *pppoe.Session, reason string) {})
	td.SetUpdateEBPFMaps(func(sess *pppoe.Session, remove bool) error {
		in.mu.Lock()
		defer in.mu.Unlock()
		if remove {
			delete(in.fast, sess.ClientMAC.String())
		} else {
			in.fast[sess.ClientMAC.String()] = true
		}
		return nil
	})
	in.td = td
	return in
}

// lookup is what a caller does before it reaches the teardown: find the session in the table.
func (in *teardownInst) lookup(m int) *pppoe.Session {
	sid, ok := in.sid[m]
	if !ok {
		return nil
	}
	ss := in.sm.GetSession(sid)
	if ss == nil || ss.ClientMAC.String() != tmac(m).String() {
		return nil
	}
	return ss
}

func (in *teardownInst) Apply(e core.Event) map[string]any {
	op := e["op"].(string)
	m := toInt(e["s"])
	n := in.s.N
	st0, sp0 := in.acct.counts()
	acked, skipped := false, false
	ss := in.lookup(m)
	switch op {
	case "CREATE":
		if ss != nil {
			skipped = true
			break
		}
		ns, err := in.sm.CreateSession(tmac(m), pppServerMAC)
		if err != nil {
			panic(err)
		}
		ns.SetState(pppoe.StateLCPNegotiation)
		in.sid[m], in.key[m] = ns.ID, ns.SessionID
		acked = true
	case "AUTH":
		if ss == nil || ss.Authenticated {
			skipped = true
			break
		}
		ss.Username, ss.Authenticated, ss.AuthMethod = fmt.Sprintf("user%d", m), true, "PAP"
		ss.SetState(pppoe.StateIPCPNegotiation)
		// the Accounting-Start of the session, through the client the teardown will use for the Stop
		if err := in.rc.SendAccounting(context.Background(), &bngradius.AcctRequest{SessionID: ss.SessionID, Username: ss.Username, MAC: ss.ClientMAC, StatusType: bngradius.AcctStatusStart}); err != nil {
			panic(fmt.Sprintf("INFRA: accounting start not delivered: %v", err))
		}
		acked = true
	case "ADDR":
		if ss == nil || !ss.Authenticated || ss.ClientIP != nil {
			skipped = true
			break
		}
		ss.ClientIP = in.pool.Allocate(ss.SessionID)
		in.mu.Lock()
		in.fast[ss.ClientMAC.String()] = true
		in.mu.Unlock()
		ss.SetState(pppoe.StateEstablished)
		acked = true
	case "PADT":
		if ss != nil {
			in.td.HandleClientPADT(ss, tmac(m), ss.ID)
		}
	case "ADMIN":
		if ss != nil {
			in.td.TerminateSession(ss, pppoe.TerminateCauseAdminReset, "administrative reset")
		}
	case "IDLETO":
		if ss != nil {
			in.td.TerminateSession(ss, pppoe.TerminateCauseIdleTimeout, "")
		}
	case "RDISC":
		if ss != nil {
			in.td.TerminateSession(ss, pppoe.TerminateCauseNASRequest, "disconnect request")
		}
	case "BYID":
		if sid, ok := in.sid[m]; ok {
			in.td.TerminateByID(sid, "admin")
		}
	case "BYMAC":
		in.td.TerminateByMAC(tmac(m), "admin")
	case "ADMIN+PADT": // the client's PADT is handled while the administrative termination is sending its PADT
		if ss != nil {
			in.inPADT = func(s2 *pppoe.Session) { in.td.HandleClientPADT(s2, s2.ClientMAC, s2.ID) }
			in.td.TerminateSession(ss, pppoe.TerminateCauseAdminReset, "administrative reset")
			in.inPADT = nil
		}
	case "IDLETO+BYID": // an administrative TerminateByID runs while the idle-timeout termination is sending its PADT
		if ss != nil {
			in.inPADT = func(s2 *pppoe.Session) { in.td.TerminateByID(s2.ID, "admin") }
			in.td.TerminateSession(ss, pppoe.TerminateCauseIdleTimeout, "")
			in.inPADT = nil
		}
	case "ADMIN|PADT":
		if ss != nil {
			in.overlap(func() { in.td.TerminateSession(ss, pppoe.TerminateCauseAdminReset, "administrative reset") },
				func() { in.td.HandleClientPADT(ss, ss.ClientMAC, ss.ID) })
		}
	case "IDLETO|PADT":
		if ss != nil {
			in.overlap(func() { in.td.TerminateSession(ss, pppoe.TerminateCauseIdleTimeout, "") },
				func() { in.td.HandleClientPADT(ss, ss.ClientMAC, ss.ID) })
		}
	case "SHUTDOWN":
		in.td.TerminateAll(pppoe.TerminateCauseNASReboot, "shutdown")
	default:
		panic("unknown op " + op)
	}
	synctest.Wait()
	st1, sp1 := in.acct.counts()
	return res(n, acked, skipped, diff(st1, st0), diff(sp1, sp0), nil)
}

// overlap runs first on its own goroutine; as soon as the peer holds the answer to first's
// Accounting-Stop, second is started on another goroutine; the answer is released when second has
// finished or waits for the teardown's mutex. If first sends no Stop, second simply runs after it.
// Virtual time advances only while this goroutine sleeps: it sleeps one PADT retry delay each
// time first has sent a PADT that is followed by such a delay, and never otherwise.
func (in *teardownInst) overlap(first, second func()) {
	st := peer.armStall(in.acct.nas)
	var doneA, doneB atomic.Bool
	cfg := pppoe.DefaultTeardownConfig()
	in.padts.Store(0)
	go func() { first(); doneA.Store(true) }()
	slept := int32(0)
	for !st.hit.Load() && !doneA.Load() {
		runtime.Gosched()
		if n := in.padts.Load(); n > slept && int(n) <= cfg.PADTRetries {
			slept = n
			time.Sleep(cfg.PADTRetryDelay)
		}
	}
	peer.disarmStall(in.acct.nas)
	go func() { second(); doneB.Store(true) }()
	for i := 0; i < 2000000 && !doneB.Load() && in.mutexWaiters() == 0; i++ {
		runtime.Gosched()
	}
	st.release.Store(true)
	for !doneA.Load() || !doneB.Load() {
		time.Sleep(time.Millisecond)
	}
}

// mutexWaiters: goroutines parked on the teardown's mutex (sync.Mutex state word, waiter count
// above the three flag bits).
func (in *teardownInst) mutexWaiters() int32 {
	f := reflect.ValueOf(in.td).Elem().FieldByName("mu")
	return atomic.LoadInt32((*int32)(unsafe.Pointer(f.UnsafeAddr()))) >> 3
}

func (in *teardownInst) Observe() map[string]any {
	n := in.s.N
	o := newObs(n)
	m2s := core.Field(in.sm, "macToSession")
	for m := 1; m <= n; m++ {
		i := m - 1
		in.mu.Lock()
		o.CMAC[i] = in.fast[tmac(m).String()]
		in.mu.Unlock()
		sid, has := in.sid[m]
		if !has {
			continue
		}
		if v := core.Field(in.pool, "allocated").MapIndex(reflectValue(in.key[m])); v.IsValid() {
			o.Pool[i] = unit28(net.IP(v.Bytes()))
		}
		closed := false
		if ss := in.sm.GetSession(sid); ss != nil && ss.ClientMAC.String() == tmac(m).String() {
			closed = ss.GetState() == pppoe.StateClosed
			if !closed && ss.ClientIP != nil {
				o.Tab[i] = unit28(ss.ClientIP)
			}
		}
		if v := m2s.MapIndex(reflectValue(tmac(m).String())); v.IsValid() && uint16(v.Uint()) == sid && !closed {
			o.Idx[i] = true
		}
	}
	return o.m()
}

func (in *teardownInst) Fingerprint() string {
	var parts []string
	byKey := map[string]uint16{}
	for _, ss := range in.sm.GetAllSessions() {
		parts = append(parts, fmt.Sprintf("%d:%s:%s:%v:%s", ss.ID, ss.ClientMAC, ss.GetState(), ss.Authenticated, ss.ClientIP))
		byKey[ss.SessionID] = ss.ID
	}
	sort.Strings(parts)
	var al []string
	it := core.Field(in.pool, "allocated").MapRange()
	for it.Next() {
		k := it.Key().String()
		name := "stale"
		if id, ok := byKey[k]; ok {
			name = fmt.Sprint(id)
		}
		for m, key := range in.key {
			if key == k {
				name += fmt.Sprintf("/c%d", m)
			}
		}
		al = append(al, fmt.Sprintf("%s=%x", name, it.Value().Bytes()))
	}
	sort.Strings(al)
	var cl []string
	for m := 1; m <= in.s.N; m++ {
		sid, has := in.sid[m]
		in.mu.Lock()
		cl = append(cl, fmt.Sprintf("%d:%v%d,%v", m, has, sid, in.fast[tmac(m).String()]))
		in.mu.Unlock()
	}
	return strings.Join(parts, ";") + "|" + core.Fingerprint(core.Field(in.sm, "nextID").Interface(), nil) + core.Fingerprint(core.Field(in.sm, "macToSession").Interface(), nil) +
		"|" + strings.Join(al, ",") + "/" + core.Fingerprint(core.Field(in.pool, "available").Interface(), nil) + "|" + strings.Join(cl, ";")
}

func (in *teardownInst) Probe() map[string]any { return nil }
func (in *teardownInst) Close()                { peer.forget(in.acct.nas) }
