//go:build verif

package lifecycle

import (
	"context"
	"encoding/binary"
	"encoding/json"
	"fmt"
	"net"
	"net/http"
	"net/http/httptest"
	"reflect"
	"sort"
	"strings"
	"sync"
	"sync/atomic"
	"testing/synctest"
	"time"

	cebpf "github.com/cilium/ebpf"
	"github.com/codelaboratoryltd/bng/pkg/dhcp"
	"github.com/codelaboratoryltd/bng/pkg/ebpf"
	"github.com/codelaboratoryltd/bng/pkg/nat"
	"github.com/codelaboratoryltd/bng/pkg/nexus"
	"github.com/codelaboratoryltd/bng/pkg/qos"
	bngradius "github.com/codelaboratoryltd/bng/pkg/radius"
	"github.com/insomniacslk/dhcp/dhcpv4"
	"go.uber.org/zap"

	"verifharness/bpfnative"
	"verifharness/core"
)

// System "dhcp": the real dhcp.Server wired as cmd/bng wires it - real nat.Manager and
// qos.Manager (+ radius.PolicyManager with the default policies), ebpf.Loader writing REAL
// kernel maps, real radius.Client talking to the scripted peer. Clients are direct or relayed
// (giaddr + option 82 circuit-id). Virtual time: pool lease time 1 h.
//
// Renewals: RENEW c is the bound client's REQUEST with ciaddr = the address it was last ACKed.
// A relayed client's renewal (RENEWRID) travels through a relay agent that inserts an option 82
// with only a remote-id (sub-option 2, no circuit-id) - the session's circuit-id keyed state must
// still be found and removed by whatever ends the session afterwards.
//
// Variant "nexus" (system name dhcp-nexus/...): the server is additionally configured with
// SetHTTPAllocator (walled-garden / Nexus mode, as cmd/bng does when --nexus-url is set: health
// check, pool info, SetHTTPAllocator) against the fake Nexus below (startFakeNexus), which knows the pool
// but has no allocation for anybody (404): every subscriber is "not activated" and is served
// from the local pool. Same alphabet, same observation.

const dhcpLease = time.Hour

type DHCPSys struct {
	bubble
	Kinds  []string // per client: "direct" | "relay"
	CIDR   string
	NUnits int
	Nexus  bool // walled-garden mode: SetHTTPAllocator against the fake Nexus (nobody activated)
	QosCap int  // > 0: QoS kernel maps behind the manager, the upload map holds only this many subscribers
	events []core.Event
}

func NewDHCPSys(kinds []string, cidr string, nunits int) *DHCPSys {
	s := &DHCPSys{Kinds: kinds, CIDR: cidr, NUnits: nunits}
	for c := 1; c <= len(kinds); c++ {
		renew := "RENEW"
		if kinds[c-1] == "relay" {
			renew = "RENEWRID"
		}
		s.events = append(s.events,
			ev("DISC", c, "none", true, 1), ev("REQSEL", c, "none", true, 1), ev(renew, c, "none", true, 1),
			ev("RELEASE", c, "release", false, 1), ev("DECLINE", c, "decline", false, 1), ev("EXPIRE", c, "expiry", false, 1))
	}
	s.events = append(s.events, ev("EXPIRE", 0, "expiry", false, 1))
	return s
}

// NewDHCPQosSys: the QoS manager writes into REAL kernel maps (as with a loaded BPF object) and the upload map has room for
// only `cap` subscribers, so the policy of a further client is applied only in part (download bucket written, upload refused;
// the server logs the error and the session goes on). Ending such a session must still remove what was written.
func NewDHCPQosSys(kinds []string, cidr string, nunits, cap int) *DHCPSys {
	s := NewDHCPSys(kinds, cidr, nunits)
	s.QosCap = cap
	return s
}

// NewDHCPNexusSys is the walled-garden variant of NewDHCPSys.
func NewDHCPNexusSys(kinds []string, cidr string, nunits int) *DHCPSys {
	s := NewDHCPSys(kinds, cidr, nunits)
	s.Nexus = true
	return s
}

func (s *DHCPSys) Name() string {
	if s.QosCap > 0 {
		return fmt.Sprintf("dhcp-qoscap%d/%s/%s", s.QosCap, strings.Join(s.Kinds, "+"), s.CIDR)
	}
	if s.Nexus {
		return fmt.Sprintf("dhcp-nexus/%s/%s", strings.Join(s.Kinds, "+"), s.CIDR)
	}
	return fmt.Sprintf("dhcp/%s/%s", strings.Join(s.Kinds, "+"), s.CIDR)
}
func (s *DHCPSys) Config() map[string]any {
	if s.Nexus { // own implementation name: own violation groups, own non-vacuity requirements
		return map[string]any{"impl": "dhcp.Server+nexus", "nsess": len(s.Kinds), "nunits": s.NUnits, "kinds": s.Kinds, "nexus": true}
	}
	return map[string]any{"impl": "dhcp.Server", "nsess": len(s.Kinds), "nunits": s.NUnits, "kinds": s.Kinds, "nexus": s.Nexus}
}
func (s *DHCPSys) Events() []core.Event { return s.events }

func (s *DHCPSys) base() uint32 {
	_, n, _ := net.ParseCIDR(s.CIDR)
	b := n.IP.To4()
	return uint32(b[0])<<24 | uint32(b[1])<<16 | uint32(b[2])<<8 | uint32(b[3])
}
func (s *DHCPSys) unitIP(u int) net.IP {
	v := s.base() + uint32(u)
	return net.IPv4(byte(v>>24), byte(v>>16), byte(v>>8), byte(v)).To4()
}
func (s *DHCPSys) unitOf(ip net.IP) int {
	ip = ip.To4()
	if ip == nil || ip.IsUnspecified() {
		return -1
	}
	v := int64(uint32(ip[0])<<24|uint32(ip[1])<<16|uint32(ip[2])<<8|uint32(ip[3])) - int64(s.base())
	if v < 0 || v >= int64(s.NUnits) {
		return -2
	}
	return int(v)
}

// The fake Nexus: one process-wide httptest server on loopback. Like the RADIUS peer it runs
// OUTSIDE every synctest bubble (started from the test entry); the server under test reaches
// it with the real nexus.HTTPAllocator over real TCP. It knows the pool and has no allocation
// for anybody. Every response closes its connection: a kept-alive connection would leave the
// transport's read loop (network I/O is not durably blocking) inside the bubble, and
// synctest.Wait() would never return.
const nexusPoolID = "subscribers"

var (
	nexusOnce sync.Once
	nexusSrv  *httptest.Server
	nexusHits atomic.Int64 // allocation lookups answered "no allocation" (evidence that the mode is exercised)
)

// startFakeNexus must be called from outside any synctest bubble.
func startFakeNexus() {
	nexusOnce.Do(func() {
		nexusSrv = httptest.NewServer(http.HandlerFunc(func(w http.ResponseWriter, r *http.Request) {
			w.Header().Set("Connection", "close")
			switch {
			case r.URL.Path == "/health":
				w.WriteHeader(http.StatusOK)
			case r.URL.Path == "/api/v1/pools/"+nexusPoolID:
				w.Header().Set("Content-Type", "application/json")
				json.NewEncoder(w).Encode(nexus.PoolResponse{ID: nexusPoolID, CIDR: "100.64.0.0/24", Prefix: 32})
			case r.Method == http.MethodGet && strings.HasPrefix(r.URL.Path, "/api/v1/allocations/"):
				nexusHits.Add(1)
				http.NotFound(w, r) // not activated
			default:
				http.NotFound(w, r)
			}
		}))
	})
}

func fakeNexusURL() string {
	if nexusSrv == nil {
		panic("INFRA: fake Nexus not started")
	}
	return nexusSrv.URL
}

func dmac(c int) net.HardwareAddr { return net.HardwareAddr{0x02, 0, 0, 0, 0, byte(c)} }
func dcid(c int) []byte           { return []byte(fmt.Sprintf("cid-%d", c)) }

type capConn struct{ out [][]byte }

func (c *capConn) ReadFrom(p []byte) (int, net.Addr, error) { return 0, nil, fmt.Errorf("closed") }
func (c *capConn) WriteTo(p []byte, a net.Addr) (int, error) {
	c.out = append(c.out, append([]byte{}, p...))
	return len(p), nil
}
func (c *capConn) Close() error                       { return nil }
func (c *capConn) LocalAddr() net.Addr                { return &net.UDPAddr{IP: net.IPv4zero, Port: 67} }
func (c *capConn) SetDeadline(t time.Time) error      { return nil }
func (c *capConn) SetReadDeadline(t time.Time) error  { return nil }
func (c *capConn) SetWriteDeadline(t time.Time) error { return nil }

// the fast-path cache maps of the loader: name, loader field, key size, value size
// (sizes = binary size of the Go key/value types the loader marshals)
var cacheMaps = []struct {
	name, field string
	k, v        int
}{
	{"subscriber_pools", "subscriberPools", 8, 25},
	{"vlan_subscriber_pools", "vlanSubscriberPools", 4, 25},
	{"circuit_id_map", "circuitIDMap", 8, 8},
	{"circuit_id_subscribers", "circuitIDSubscribers", 32, 25},
}

type dhcpInst struct {
	s      *DHCPSys
	srv    *dhcp.Server
	pool   *dhcp.Pool
	loader *ebpf.Loader
	natm   *nat.Manager
	qosm   *qos.Manager
	maps   map[string]*cebpf.Map
	conn   *capConn
	acct   *acctCounter
	xid    uint32
	// client-side protocol memory
	lastOffer map[int]int
	lastAddr  map[int]int  // the address last ACKed to the client (kept after the session ended, for the second end)
	bound     map[int]bool // the client believes it holds a lease: ACKed, and since then it neither released / declined nor let the lease run out
	ridOnly   bool         // build the next relayed message with an option 82 that has no circuit-id
}

func (s *DHCPSys) New() core.Instance {
	logger := zap.NewNop()
	loader, err := ebpf.NewLoader("lo", logger)
	if err != nil {
		panic(err)
	}
	in := &dhcpInst{s: s, loader: loader, maps: map[string]*cebpf.Map{}, conn: &capConn{}, lastOffer: map[int]int{}, lastAddr: map[int]int{}, bound: map[int]bool{}}
	for _, cm := range cacheMaps {
		km, err := bpfnative.NewKernelMap(bpfnative.MapInfo{Name: cm.name, Type: int(cebpf.Hash), KeySize: cm.k, ValueSize: cm.v, MaxEntries: 64})
		if err != nil {
			panic(fmt.Sprintf("INFRA: cannot create kernel map %s (needs CAP_BPF): %v", cm.name, err))
		}
		in.maps[cm.name] = km
		core.Field(loader, cm.field).Set(reflect.ValueOf(km))
	}
	pm := dhcp.NewPoolManager(loader, logger)
	p, err := dhcp.NewPool(dhcp.PoolConfig{ID: 1, Name: "p", Network: s.CIDR, Gateway: s.unitIP(1).String(), DNSServers: []string{"9.9.9.9"}, LeaseTime: dhcpLease})
	if err != nil {
		panic(err)
	}
	if err := pm.AddPool(p); err != nil {
		panic(err)
	}
	srv, err := dhcp.NewServer(dhcp.ServerConfig{Interface: "lo", ServerIP: net.IPv4(10, 255, 0, 1)}, loader, pm, logger)
	if err != nil {
		panic(err)
	}
	// as cmd/bng: RADIUS client, policy manager, QoS manager, NAT manager
	nas := newNASID()
	rc, err := bngradius.NewClient(bngradius.ClientConfig{Servers: []bngradius.ServerConfig{{Host: "127.0.0.1", Port: peer.port, Secret: secret}}, NASID: nas, Timeout: 30 * time.Second}, logger)
	if err != nil {
		panic(err)
	}
	srv.SetRADIUSClient(rc)
	pol := bngradius.NewPolicyManager()
	pol.LoadDefaultPolicies()
	srv.SetPolicyManager(pol)
	qm, err := qos.NewManager(qos.ManagerConfig{Interface: "lo"}, pol, logger)
	if err != nil {
		panic(err)
	}
	if s.QosCap > 0 {
		for _, qmap := range []struct {
			name, field string
			max         int
		}{{"qos_egress", "qosEgress", 64}, {"qos_ingress", "qosIngress", s.QosCap}} {
			km, err := bpfnative.NewKernelMap(bpfnative.MapInfo{Name: qmap.name, Type: int(cebpf.Hash), KeySize: 4, ValueSize: binary.Size(qos.TokenBucket{}), MaxEntries: qmap.max})
			if err != nil {
				panic(fmt.Sprintf("INFRA: cannot create kernel map %s (needs CAP_BPF): %v", qmap.name, err))
			}
			in.maps[qmap.name] = km
			core.Field(qm, qmap.field).Set(reflect.ValueOf(km))
		}
	}
	srv.SetQoSManager(qm)
	nm, err := nat.NewManager(nat.ManagerConfig{Interface: "lo", PortsPerSubscriber: 1024}, logger)
	if err != nil {
		panic(err)
	}
	if err := nm.AddPublicIP(net.IPv4(203, 0, 113, 1)); err != nil {
		panic(err)
	}
	srv.SetNATManager(nm)
	if s.Nexus { // as cmd/bng with --nexus-url: connectivity check, pool info, then SetHTTPAllocator
		ha := nexus.NewHTTPAllocator(fakeNexusURL())
		if err := ha.HealthCheck(context.Background()); err != nil {
			panic(fmt.Sprintf("INFRA: fake Nexus not reachable: %v", err))
		}
		if _, err := ha.GetPoolInfo(context.Background(), nexusPoolID); err != nil {
			panic(fmt.Sprintf("INFRA: fake Nexus pool: %v", err))
		}
		srv.SetHTTPAllocator(ha, nexusPoolID)
	}
	in.srv, in.pool, in.natm, in.qosm = srv, p, nm, qm
	in.acct = &acctCounter{nas: nas}
	for c := 1; c <= len(s.Kinds); c++ {
		in.acct.macs = append(in.acct.macs, dmac(c).String())
	}
	return in
}

func (in *dhcpInst) build(c int, mt dhcpv4.MessageType, reqIP, ciaddr net.IP) *dhcpv4.DHCPv4 {
	in.xid++
	mods := []dhcpv4.Modifier{
		dhcpv4.WithMessageType(mt),
		dhcpv4.WithHwAddr(dmac(c)),
		dhcpv4.WithTransactionID(dhcpv4.TransactionID{byte(in.xid >> 24), byte(in.xid >> 16), byte(in.xid >> 8), byte(in.xid)}),
	}
	if reqIP != nil {
		mods = append(mods, dhcpv4.WithOption(dhcpv4.OptRequestedIPAddress(reqIP)))
	}
	if ciaddr != nil {
		mods = append(mods, dhcpv4.WithClientIP(ciaddr))
	}
	if in.s.Kinds[c-1] == "relay" {
		mods = append(mods, dhcpv4.WithGatewayIP(net.IPv4(10, 9, 9, 1)))
		if in.ridOnly {
			mods = append(mods, dhcpv4.WithOption(dhcpv4.OptRelayAgentInfo(dhcpv4.OptGeneric(dhcpv4.GenericOptionCode(2), []byte("agent-7")))))
		} else {
			mods = append(mods, dhcpv4.WithOption(dhcpv4.OptRelayAgentInfo(dhcpv4.OptGeneric(dhcpv4.GenericOptionCode(1), dcid(c)))))
		}
	}
	m, err := dhcpv4.New(mods...)
	if err != nil {
		panic(err)
	}
	return m
}

// send hands one message to the server's packet handler and waits until every goroutine it
// spawned (accounting senders) has completed its exchange with the RADIUS peer.
func (in *dhcpInst) send(m *dhcpv4.DHCPv4) (string, int) {
	in.conn.out = nil
	in.srv.VerifHandle(in.conn, &net.UDPAddr{IP: net.IPv4(10, 0, 0, 200), Port: 68}, m)
	synctest.Wait()
	if len(in.conn.out) == 0 {
		return "none", -1
	}
	r, err := dhcpv4.FromBytes(in.conn.out[len(in.conn.out)-1])
	if err != nil {
		return "garbled", -1
	}
	return strings.ToUpper(r.MessageType().String()), in.s.unitOf(r.YourIPAddr)
}

func (in *dhcpInst) Apply(e core.Event) map[string]any {
	op := e["op"].(string)
	c := toInt(e["s"])
	s := in.s
	n := len(s.Kinds)
	st0, sp0 := in.acct.counts()
	acked, skipped := false, false
	switch op {
	case "DISC":
		rt, ru := in.send(in.build(c, dhcpv4.MessageTypeDiscover, nil, nil))
		if rt == "OFFER" {
			in.lastOffer[c] = ru
		}
	case "REQSEL":
		o, ok := in.lastOffer[c]
		if !ok || o < 0 {
			skipped = true
			break
		}
		rt, ru := in.send(in.build(c, dhcpv4.MessageTypeRequest, s.unitIP(o), nil))
		if rt == "ACK" {
			acked = true
			in.lastAddr[c] = ru
			in.bound[c] = true
		}
	case "RENEW", "RENEWRID": // a BOUND client renews: ciaddr = the address it holds
		a, ok := in.lastAddr[c]
		if !in.bound[c] || !ok || a < 0 {
			skipped = true
			break
		}
		in.ridOnly = op == "RENEWRID"
		rt, ru := in.send(in.build(c, dhcpv4.MessageTypeRequest, nil, s.unitIP(a)))
		in.ridOnly = false
		if rt == "ACK" {
			acked = true
			in.lastAddr[c] = ru
		} else {
			in.toInit(c) // NAK (or silence): back to INIT
		}
	case "RELEASE":
		var ci net.IP
		if a, ok := in.lastAddr[c]; ok && a >= 0 {
			ci = s.unitIP(a)
		}
		in.send(in.build(c, dhcpv4.MessageTypeRelease, nil, ci))
		in.toInit(c)
	case "DECLINE": // of the address the client was ACKed (or, before any ACK, offered)
		a, ok := in.lastAddr[c]
		if !ok {
			a, ok = in.lastOffer[c]
		}
		if !ok || a < 0 {
			skipped = true
			break
		}
		in.send(in.build(c, dhcpv4.MessageTypeDecline, s.unitIP(a), nil))
		in.toInit(c)
	case "EXPIRE":
		// c = 0: every lease runs out. c > 0: only client c lets its lease run out, every other
		// client that has a lease renews it half-way.
		if c == 0 {
			time.Sleep(dhcpLease + dhcpLease/5)
			for d := 1; d <= n; d++ {
				in.toInit(d)
			}
		} else {
			time.Sleep(dhcpLease * 3 / 5)
			byMAC, _ := in.srv.VerifLeases()
			for d := 1; d <= n; d++ {
				renewed := false
				for _, l := range byMAC {
					if d != c && l.MAC == dmac(d).String() { // a renewal only keeps an existing binding alive
						rt, _ := in.send(in.build(d, dhcpv4.MessageTypeRequest, nil, l.IP))
						renewed = rt == "ACK"
					}
				}
				if !renewed {
					in.toInit(d)
				}
			}
			time.Sleep(dhcpLease * 3 / 5)
		}
		in.srv.VerifCleanupExpired()
		synctest.Wait()
	default:
		panic("unknown op " + op)
	}
	st1, sp1 := in.acct.counts()
	return res(n, acked, skipped, diff(st1, st0), diff(sp1, sp0), nil)
}

// toInit: the client knows its lease is over (it released / declined it, or its lease time ran
// out unrenewed) and is back in INIT: it will not renew. It keeps the address it last held (a
// second RELEASE / DECLINE names it).
//
// Walled-garden variant only: it also forgets the offer it had selected, i.e. it follows the
// RFC 2131 client state machine and REQUESTs only an address the server offered it since it
// last was in INIT. In that mode handleRequest by design acknowledges ANY address a client
// without a lease asks for ("Accepting Nexus-allocated IP in REQUEST", no check against the
// pool or Nexus), so a REQUEST for a stale offer creates a session on an address the pool does
// not hold for it - a weakness of the mode itself (reported), not of a session-ending path.
// Without the HTTP allocator requestedIPBelongsToClient refuses such a REQUEST, and the stale
// offer stays in the alphabet.
func (in *dhcpInst) toInit(c int) {
	in.bound[c] = false
	if in.s.Nexus {
		delete(in.lastOffer, c)
	}
}

func (in *dhcpInst) observe() *obs {
	s := in.s
	n := len(s.Kinds)
	o := newObs(n)
	byMAC, byCid := in.srv.VerifLeases()
	ps := in.pool.VerifSnapshot()
	vl, err := bpfnative.Dump(in.maps["vlan_subscriber_pools"])
	if err != nil {
		panic(err)
	}
	for c := 1; c <= n; c++ {
		i := c - 1
		if ip, ok := ps.Allocated[dmac(c).String()]; ok {
			o.Pool[i] = s.unitOf(ip)
		}
		for _, l := range byMAC {
			if l.MAC == dmac(c).String() {
				o.Tab[i] = s.unitOf(l.IP)
			}
		}
		if _, ok := byCid[fmt.Sprintf("%x", dcid(c))]; ok {
			o.Idx[i] = true
		}
		if _, err := in.loader.GetSubscriber(ebpf.MACToUint64(dmac(c))); err == nil {
			o.CMAC[i] = true
		}
		if _, err := in.loader.GetCircuitIDSubscriber(dcid(c)); err == nil {
			o.CCID[i] = true
		}
		if _, err := in.loader.GetCircuitIDMapping(dcid(c)); err == nil {
			o.CCID[i] = true
		}
		if a, ok := in.lastAddr[c]; ok && a >= 0 {
			want := ebpf.IPToMapUint32(s.unitIP(a))
			for _, kv := range vl {
				if len(kv[1]) >= 8 && nativeU32(kv[1][4:8]) == want {
					o.CVLAN[i] = true
				}
			}
		}
	}
	for u := 0; u < s.NUnits; u++ {
		if in.natm.GetAllocation(s.unitIP(u)) != nil {
			o.NAT = append(o.NAT, u)
		}
	}
	it := core.Field(in.qosm, "subscribers").MapRange()
	for it.Next() {
		ip := core.FieldOf(it.Value(), "IP").Interface().(net.IP)
		o.QoS = append(o.QoS, s.unitOf(ip))
	}
	// ... and whatever the kernel maps hold (a bucket there shapes traffic whether or not the manager remembers it)
	for _, name := range []string{"qos_egress", "qos_ingress"} {
		km := in.maps[name]
		if km == nil {
			continue
		}
		d, err := bpfnative.Dump(km)
		if err != nil {
			panic(err)
		}
		for _, kv := range d {
			u := s.unitOf(net.IP(kv[0]))
			dup := false
			for _, x := range o.QoS {
				dup = dup || x == u
			}
			if !dup {
				o.QoS = append(o.QoS, u)
			}
		}
	}
	return o
}

func nativeU32(b []byte) uint32 { return binary.NativeEndian.Uint32(b) }

func (in *dhcpInst) Observe() map[string]any { return in.observe().m() }

func (in *dhcpInst) Fingerprint() string {
	byMAC, byCid := in.srv.VerifLeases()
	var parts []string
	for _, l := range byMAC {
		parts = append(parts, fmt.Sprintf("L:%s=%s/%x/%v", l.MAC, l.IP, l.CircuitID, l.SessionID != ""))
	}
	for k, l := range byCid {
		parts = append(parts, fmt.Sprintf("C:%s=%s/%s", k, l.MAC, l.IP))
	}
	sort.Strings(parts)
	ps := in.pool.VerifSnapshot()
	var al []string
	for k, v := range ps.Allocated {
		al = append(al, k+"="+v.String())
	}
	sort.Strings(al)
	sort.Strings(ps.Unavailable)
	var av []string
	for _, v := range ps.Available {
		av = append(av, v.String())
	}
	var mp []string
	for name, km := range in.maps {
		d, err := bpfnative.Dump(km)
		if err != nil {
			panic(err)
		}
		var es []string
		for _, kv := range d {
			v := kv[1]
			if len(v) == 25 { // pool_assignment: blank the absolute lease expiry (bytes 13..20)
				v = append(append([]byte{}, v[:13]...), v[21:]...)
			}
			es = append(es, fmt.Sprintf("%x=%x", kv[0], v))
		}
		sort.Strings(es)
		mp = append(mp, name+":"+strings.Join(es, ","))
	}
	sort.Strings(mp)
	var cl []string
	for c := 1; c <= len(in.s.Kinds); c++ {
		o, ok1 := in.lastOffer[c]
		a, ok2 := in.lastAddr[c]
		cl = append(cl, fmt.Sprintf("%d:%v%d,%v%d,%v", c, ok1, o, ok2, a, in.bound[c]))
	}
	return strings.Join(parts, ";") + "|A:" + strings.Join(al, ",") + "|V:" + strings.Join(av, ",") + "|U:" + strings.Join(ps.Unavailable, ",") +
		"|M:" + strings.Join(mp, ";") + "|H:" + strings.Join(cl, ";") +
		"|N:" + core.Fingerprint(in.natm, &core.FPOptions{SkipFields: map[string]bool{"AllocatedAt": true, "config": true}}) +
		"|Q:" + core.Fingerprint(core.Field(in.qosm, "subscribers").Interface(), nil)
}

func (in *dhcpInst) Probe() map[string]any { return nil }

func (in *dhcpInst) Close() {
	for _, km := range in.maps {
		km.Close()
	}
	peer.forget(in.acct.nas)
}
