//go:build verif

package lifecycle

import (
	"encoding/json"
	"fmt"
	"math/rand"
	"os"
	"strings"
	"testing"

	"verifharness/core"
)

type replayCase struct {
	ID     string         `json:"id"`
	System string         `json:"system"`
	Events []core.Event   `json:"events"`
	Cfg    map[string]any `json:"cfg"`
}
type replayFile struct {
	Cases []replayCase `json:"cases"`
}

type runStats struct {
	Systems     int                `json:"systems"`
	Nodes       int                `json:"nodes"`
	Edges       int                `json:"edges"`
	Chains      int                `json:"chains"`
	ChainEvents int                `json:"chain_events"`
	Closed      int                `json:"closed_systems"`
	Panics      []core.PanicRecord `json:"panics"`
	PerSystem   map[string][3]int  `json:"per_system"`
}

type plan struct {
	s               core.System
	depth, maxNodes int
}

func allSystems() []core.System {
	return []core.System{
		NewDHCPSys([]string{"direct", "relay"}, "10.0.0.0/29", 8),
		NewDHCPSys([]string{"relay", "relay"}, "10.0.0.0/29", 8),
		NewDHCPSys([]string{"direct", "relay", "direct"}, "10.3.0.16/28", 16),
		NewPPPoESys(2),
		NewPPPoESys(3),
		NewTeardownSys(2),
		NewTeardownSys(3),
		NewSubSys(2, "idle"),
		NewSubSys(2, "sessto"),
		NewSubSys(3, "idle"),
		NewDHCPNexusSys([]string{"direct", "relay"}, "10.0.0.0/29", 8),
		NewDHCPNexusSys([]string{"relay", "direct", "relay"}, "10.3.0.16/28", 16),
		NewDHCPQosSys([]string{"direct", "relay"}, "10.0.0.0/29", 8, 1),
		NewDHCPQosSys([]string{"relay", "direct", "direct"}, "10.3.0.16/28", 16, 1),
	}
}

func findSys(name string) core.System {
	for _, s := range allSystems() {
		if s.Name() == name {
			return s
		}
	}
	return nil
}

func TestExplore(t *testing.T) {
	T = t
	startPeer()
	startFakeNexus()
	out := core.OutDir()
	if rf := os.Getenv("VERIF_REPLAY"); rf != "" {
		replay(t, rf, out)
		return
	}
	tier, seed := core.Tier(), core.Seed()
	all := allSystems()
	only := os.Getenv("VERIF_ONLY") // debugging aid: restrict to systems whose name has this prefix
	plans := []plan{{all[0], 7, 1500}, {all[1], 6, 800}, {all[3], 7, 2000}, {all[5], 8, 1500}, {all[7], 8, 1500}, {all[8], 7, 800}, {all[10], 6, 800}, {all[12], 6, 600}}
	chainSys := []core.System{all[2], all[4], all[6], all[9], all[11], all[13]}
	nchains, chainLen := 12, 100
	if tier == "thorough" {
		plans = []plan{{all[0], 9, 12000}, {all[1], 8, 6000}, {all[3], 9, 15000}, {all[5], 10, 12000}, {all[7], 10, 12000}, {all[8], 9, 6000}, {all[10], 8, 6000}, {all[12], 8, 5000}}
		nchains, chainLen = 100, 200
	}
	bundle := &core.Bundle{}
	st := runStats{PerSystem: map[string][3]int{}}
	for _, p := range plans {
		if !strings.HasPrefix(p.s.Name(), only) {
			continue
		}
		tab, panics, err := core.Explore(p.s, core.ExploreOptions{MaxDepth: p.depth, MaxNodes: p.maxNodes, AdequacySample: 3, Seed: seed})
		if err != nil {
			t.Fatalf("explore %s: %v", p.s.Name(), err)
		}
		st.Panics = append(st.Panics, panics...)
		bundle.Systems = append(bundle.Systems, tab)
		ne := 0
		for _, es := range tab.Edges {
			ne += len(es)
		}
		c := 0
		if tab.Closed {
			c = 1
			st.Closed++
		}
		st.PerSystem[p.s.Name()] = [3]int{len(tab.Nodes), ne, c}
		st.Systems++
		st.Nodes += len(tab.Nodes)
		st.Edges += ne
	}
	rng := rand.New(rand.NewSource(seed))
	for _, s := range chainSys {
		if !strings.HasPrefix(s.Name(), only) {
			continue
		}
		evs := s.Events()
		for c := 0; c < nchains; c++ {
			var seqv []core.Event
			for i := 0; i < chainLen; i++ {
				seqv = append(seqv, evs[rng.Intn(len(evs))])
			}
			tab, pr := core.Chain(s, fmt.Sprintf("%s#%d", s.Name(), c), seqv, false)
			if pr != nil {
				st.Panics = append(st.Panics, *pr)
				continue
			}
			bundle.Systems = append(bundle.Systems, tab)
			st.Chains++
			st.ChainEvents += len(seqv)
		}
	}
	if _, ran := st.PerSystem[all[10].Name()]; ran && nexusHits.Load() == 0 {
		t.Fatalf("INFRA: the walled-garden systems never asked the fake Nexus for an allocation")
	}
	if err := core.WriteJSON(out, "bundle.json", bundle); err != nil {
		t.Fatal(err)
	}
	if err := core.WriteJSON(out, "stats.json", st); err != nil {
		t.Fatal(err)
	}
}

func replay(t *testing.T, file, out string) {
	b, err := os.ReadFile(file)
	if err != nil {
		t.Fatal(err)
	}
	var rf replayFile
	if err := json.Unmarshal(b, &rf); err != nil {
		t.Fatal(err)
	}
	st := runStats{PerSystem: map[string][3]int{}}
	bundle := &core.Bundle{}
	for _, c := range rf.Cases {
		name := c.System
		if i := strings.IndexByte(name, '#'); i >= 0 {
			name = name[:i]
		}
		s := findSys(name)
		if s == nil {
			t.Fatalf("unknown system %q", c.System)
		}
		tab, pr := core.Chain(s, name+"#"+c.ID, c.Events, false)
		if pr != nil {
			st.Panics = append(st.Panics, *pr)
			continue
		}
		bundle.Systems = append(bundle.Systems, tab)
		st.Chains++
	}
	if err := core.WriteJSON(out, "bundle.json", bundle); err != nil {
		t.Fatal(err)
	}
	core.WriteJSON(out, "stats.json", st)
}
