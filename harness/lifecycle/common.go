//go:build verif

// Package lifecycle binds the real session-ending code paths of the gateway (DHCP server,
// inline PPPoE server, PPPoE SessionTeardown, subscriber.Manager) to the SessionLifecycle
// contract (property C16). The harness only executes, observes and projects; every verdict
// is TLC's. All systems run inside testing/synctest bubbles: time is virtual, and
// synctest.Wait() returns only when every goroutine the gateway code spawned (accounting
// senders, LCP starters) has finished its real UDP exchange with the RADIUS peer outside the
// bubble or is durably blocked - so there is no polling and no timing heuristic.
package lifecycle

import (
	"encoding/json"
	"sort"
	"testing"
	"testing/synctest"

	"verifharness/core"
)

var T *testing.T // set by the test entry; synctest needs it

type bubble struct{}

func (bubble) Wrap(f func()) { synctest.Test(T, func(t *testing.T) { f() }) }

func toInt(v any) int {
	switch x := v.(type) {
	case int:
		return x
	case float64:
		return int(x)
	case int64:
		return int(x)
	case json.Number:
		i, _ := x.Int64()
		return int(i)
	}
	return 0
}

// ev builds one element of an alphabet. path = the property's name of the end path ("none"
// for events that do not end a session); est = the event is an establishment step.
func ev(op string, s int, path string, est bool, npaths int) core.Event {
	return core.Event{"op": op, "s": s, "path": path, "est": est, "npaths": npaths}
}

// obs is the uniform abstract observation of one system state (arrays indexed by session slot).
type obs struct {
	Pool  []int  // unit the address pool / allocator holds for the session (-1 none)
	Tab   []int  // unit the lease / session table binds to the session while it is listed as active (-1 none)
	Idx   []bool // a secondary index of that table (by MAC, IP, circuit-id) still resolves to the session
	CMAC  []bool // fast-path cache entry keyed by the session's MAC
	CVLAN []bool // fast-path cache entry keyed by the session's VLAN pair
	CCID  []bool // fast-path cache entry keyed by the session's circuit-id
	NAT   []int  // units that have a NAT block (sorted)
	QoS   []int  // units that have a QoS policy (sorted)
}

func newObs(n int) *obs {
	o := &obs{Pool: make([]int, n), Tab: make([]int, n), Idx: make([]bool, n), CMAC: make([]bool, n), CVLAN: make([]bool, n), CCID: make([]bool, n), NAT: []int{}, QoS: []int{}}
	for i := 0; i < n; i++ {
		o.Pool[i], o.Tab[i] = -1, -1
	}
	return o
}

func (o *obs) m() map[string]any {
	sort.Ints(o.NAT)
	sort.Ints(o.QoS)
	return map[string]any{"pool": o.Pool, "tab": o.Tab, "idx": o.Idx, "cmac": o.CMAC, "cvlan": o.CVLAN, "ccid": o.CCID, "nat": o.NAT, "qos": o.QoS}
}

// res builds the result part of an edge. dstart/dstop/drel: per slot, how many Accounting-Start /
// Accounting-Stop records were issued and how many times the slot's address was released to the
// allocator DURING this event.
func res(n int, acked, skipped bool, dstart, dstop, drel []int) map[string]any {
	z := func(a []int) []int {
		if a == nil {
			return make([]int, n)
		}
		return a
	}
	return map[string]any{"acked": acked, "skipped": skipped, "dstart": z(dstart), "dstop": z(dstop), "drel": z(drel)}
}

// acctCounter turns the peer's record list of one instance into per-slot Start/Stop counts.
// A record belongs to slot s if its Calling-Station-Id is the slot's MAC; a Stop counts for
// the slot only if its Acct-Session-Id is that of the slot's latest Start (a Stop naming
// another id does not stop this session) - or if the slot never had a Start.
type acctCounter struct {
	nas  string
	macs []string // slot -> MAC string (lower case)
}

func (a *acctCounter) counts() (starts, stops []int) {
	n := len(a.macs)
	starts, stops = make([]int, n), make([]int, n)
	lastStart := make([]string, n)
	for _, r := range peer.records(a.nas) {
		for i, m := range a.macs {
			if r.MAC != m {
				continue
			}
			switch r.Typ {
			case "start":
				starts[i]++
				lastStart[i] = r.SID
			case "stop":
				if lastStart[i] == "" || lastStart[i] == r.SID {
					stops[i]++
				}
			}
		}
	}
	return
}

func diff(after, before []int) []int {
	d := make([]int, len(after))
	for i := range after {
		d[i] = after[i] - before[i]
	}
	return d
}
