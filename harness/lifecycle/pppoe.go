//go:build verif

package lifecycle

import (
	"encoding/binary"
	"fmt"
	"net"
	"reflect"
	"sort"
	"strings"
	"testing/synctest"
	"time"

	"github.com/codelaboratoryltd/bng/pkg/pppoe"
	bngradius "github.com/codelaboratoryltd/bng/pkg/radius"
	"go.uber.org/zap"

	"verifharness/core"
)

// System "pppoe": the inline PPPoE access concentrator (pkg/pppoe/server.go) on an in-memory
// socket, PAP authenticated by the scripted RADIUS peer. Establishment = PADR, LCP
// Configure-Ack, PAP (good password), IPCP Configure-Ack; end paths = PADT, LCP
// Terminate-Request, PAP with a bad password (authentication failure), idle cleanup.
// One slot per client MAC; a client has at most one session at a time.

const pppIdle = 10 * time.Minute

type PPPoESys struct {
	bubble
	N      int
	events []core.Event
}

func NewPPPoESys(n int) *PPPoESys {
	s := &PPPoESys{N: n}
	for m := 1; m <= n; m++ {
		s.events = append(s.events,
			ev("PADR", m, "none", true, 1), ev("LCPACK", m, "none", true, 1), ev("PAPGOOD", m, "none", true, 1), ev("IPCPACK", m, "none", true, 1),
			ev("PADT", m, "padt", false, 1), ev("LCPTERM", m, "lcpterm", false, 1), ev("PAPBAD", m, "authfail", false, 1), ev("IDLE", m, "idle", false, 1))
	}
	s.events = append(s.events, ev("IDLE", 0, "idle", false, 1))
	return s
}

func (s *PPPoESys) Name() string { return fmt.Sprintf("pppoe/m%d", s.N) }
func (s *PPPoESys) Config() map[string]any {
	return map[string]any{"impl": "pppoe.Server", "nsess": s.N, "nunits": 16}
}
func (s *PPPoESys) Events() []core.Event { return s.events }

func pmac(m int) net.HardwareAddr { return net.HardwareAddr{0x02, 0, 0, 0, 0x10, byte(m)} }

var pppServerMAC = net.HardwareAddr{0x02, 0xaa, 0, 0, 0, 1}

type pppoeInst struct {
	s    *PPPoESys
	srv  *pppoe.Server
	sock *pppoe.VerifSocket
	acct *acctCounter
	// client-side protocol memory
	sid       map[int]uint16 // session id of the client's latest PADS
	key       map[int]string // the server's pool key (Session.SessionID) of that session
	inSession map[int]bool   // the client believes the session is up
}

func (s *PPPoESys) New() core.Instance {
	cfg := pppoe.ServerConfig{Interface: "verif0", ACName: "AC", ServiceName: "internet", ServerIP: "10.64.0.1", ClientPool: "10.64.0.0/28", PoolGateway: "10.64.0.1",
		PrimaryDNS: "9.9.9.9", AuthType: "pap", SessionTimeout: pppIdle}
	srv, sock, err := pppoe.NewVerifServer(cfg, zap.NewNop(), &net.Interface{Name: "verif0", HardwareAddr: pppServerMAC})
	if err != nil {
		panic(err)
	}
	nas := newNASID()
	rc, err := bngradius.NewClient(bngradius.ClientConfig{Servers: []bngradius.ServerConfig{{Host: "127.0.0.1", Port: peer.port, Secret: secret}}, NASID: nas, Timeout: 30 * time.Second}, zap.NewNop())
	if err != nil {
		panic(err)
	}
	srv.SetRADIUSClient(rc)
	in := &pppoeInst{s: s, srv: srv, sock: sock, acct: &acctCounter{nas: nas}, sid: map[int]uint16{}, key: map[int]string{}, inSession: map[int]bool{}}
	for m := 1; m <= s.N; m++ {
		in.acct.macs = append(in.acct.macs, pmac(m).String())
	}
	return in
}

func discFrame(code uint8, sid uint16, tags []pppoe.Tag) []byte {
	td := pppoe.SerializeTags(tags)
	h := &pppoe.PPPoEHeader{VerType: 0x11, Code: code, SessionID: sid, Length: uint16(len(td))}
	return append(h.Serialize(), td...)
}

func sessFrame(sid uint16, proto uint16, payload []byte) []byte {
	p := make([]byte, 2+len(payload))
	binary.BigEndian.PutUint16(p, proto)
	copy(p[2:], payload)
	h := &pppoe.PPPoEHeader{VerType: 0x11, Code: pppoe.CodeSession, SessionID: sid, Length: uint16(len(p))}
	return append(h.Serialize(), p...)
}

func lcpPkt(code, id uint8, data []byte) []byte {
	return (&pppoe.LCPPacket{Code: code, Identifier: id, Data: data}).Serialize()
}

func papPkt(id uint8, user, pw string) []byte {
	b := []byte{pppoe.PAPCodeAuthRequest, id, 0, 0, byte(len(user))}
	b = append(b, user...)
	b = append(b, byte(len(pw)))
	b = append(b, pw...)
	binary.BigEndian.PutUint16(b[2:4], uint16(len(b)))
	return b
}

// sawPADS returns the session id of a PADS among the emitted frames; sawPAPAck whether a PAP
// Authenticate-Ack was emitted.
func scanFrames(frames [][]byte) (pads uint16, papAck bool) {
	for _, f := range frames {
		if len(f) < 20 {
			continue
		}
		et := binary.BigEndian.Uint16(f[12:14])
		h, err := pppoe.ParsePPPoEHeader(f[14:])
		if err != nil {
			continue
		}
		if et == pppoe.EtherTypePPPoEDiscovery && h.Code == pppoe.CodePADS {
			pads = h.SessionID
		}
		if et == pppoe.EtherTypePPPoESession && len(f) >= 23 && binary.BigEndian.Uint16(f[20:22]) == pppoe.ProtocolPAP && f[22] == pppoe.PAPCodeAuthAck {
			papAck = true
		}
	}
	return
}

func (in *pppoeInst) cleanupIdle() {
	in.srv.VerifCleanupIdle() // what Server.cleanupLoop does on a tick
}

func (in *pppoeInst) Apply(e core.Event) map[string]any {
	op := e["op"].(string)
	m := toInt(e["s"])
	n := in.s.N
	st0, sp0 := in.acct.counts()
	acked, skipped := false, false
	in.sock.Take()
	src := pmac(m)
	sid, has := in.sid[m]
	needSid := op != "PADR" && op != "IDLE"
	switch {
	case needSid && !has:
		skipped = true
	case op == "PADR":
		if in.inSession[m] {
			skipped = true
			break
		}
		in.srv.VerifHandleDiscovery(src, discFrame(pppoe.CodePADR, 0, []pppoe.Tag{{Type: pppoe.TagServiceName, Value: []byte("internet")}, {Type: pppoe.TagACCookie, Value: []byte("0123456789abcdef")}}))
		synctest.Wait() // the LCP Configure-Request is sent from a goroutine
		if id, _ := scanFrames(in.sock.Take()); id != 0 {
			acked = true
			in.sid[m], in.inSession[m] = id, true
			for _, ss := range in.srv.VerifSessions() {
				if ss.ID == id {
					in.key[m] = ss.SessionID
				}
			}
		}
	case op == "LCPACK":
		in.srv.VerifHandleSession(src, sessFrame(sid, pppoe.ProtocolLCP, lcpPkt(pppoe.LCPCodeConfigAck, 1, nil)))
	case op == "PAPGOOD":
		in.srv.VerifHandleSession(src, sessFrame(sid, pppoe.ProtocolPAP, papPkt(1, "user", "good")))
		synctest.Wait()
		_, acked = scanFrames(in.sock.Take())
		if acked {
			in.inSession[m] = true
		}
	case op == "IPCPACK":
		in.srv.VerifHandleSession(src, sessFrame(sid, pppoe.ProtocolIPCP, lcpPkt(pppoe.LCPCodeConfigAck, 1, nil)))
	case op == "PADT":
		in.srv.VerifHandleDiscovery(src, discFrame(pppoe.CodePADT, sid, nil))
		in.inSession[m] = false
	case op == "LCPTERM":
		in.srv.VerifHandleSession(src, sessFrame(sid, pppoe.ProtocolLCP, lcpPkt(pppoe.LCPCodeTermRequest, 9, nil)))
		in.inSession[m] = false
	case op == "PAPBAD":
		in.srv.VerifHandleSession(src, sessFrame(sid, pppoe.ProtocolPAP, papPkt(2, "user", "bad")))
		in.inSession[m] = false
	case op == "IDLE":
		// m = 0: every session is idle for longer than the timeout. m > 0: only client m is
		// silent, the other clients that believe they are in a session send an LCP Echo half-way.
		if m == 0 {
			time.Sleep(pppIdle + pppIdle/5)
		} else {
			time.Sleep(pppIdle * 3 / 5)
			for d := 1; d <= n; d++ {
				if d != m && in.inSession[d] {
					in.srv.VerifHandleSession(pmac(d), sessFrame(in.sid[d], pppoe.ProtocolLCP, lcpPkt(pppoe.LCPCodeEchoRequest, 3, []byte{1, 2, 3, byte(d)})))
				}
			}
			time.Sleep(pppIdle * 3 / 5)
		}
		in.cleanupIdle()
	default:
		panic("unknown op " + op)
	}
	synctest.Wait()
	st1, sp1 := in.acct.counts()
	return res(n, acked, skipped, diff(st1, st0), diff(sp1, sp0), nil)
}

func reflectValue(x any) reflect.Value { return reflect.ValueOf(x) }

func unit28(ip net.IP) int {
	if v4 := ip.To4(); v4 != nil {
		return int(v4[3]) & 15
	}
	return -2
}

func (in *pppoeInst) Observe() map[string]any {
	n := in.s.N
	o := newObs(n)
	sess := in.srv.VerifSessions()
	p := in.srv.VerifPool()
	m2s := core.Field(in.srv.VerifSessionManager(), "macToSession")
	for m := 1; m <= n; m++ {
		sid, has := in.sid[m]
		if !has {
			continue
		}
		i := m - 1
		if v := core.Field(p, "allocated").MapIndex(reflectValue(in.key[m])); v.IsValid() {
			o.Pool[i] = unit28(net.IP(v.Bytes()))
		}
		for _, ss := range sess {
			if ss.ID == sid && ss.ClientMAC == pmac(m).String() && ss.State != "Closed" && ss.ClientIP != nil {
				o.Tab[i] = unit28(ss.ClientIP)
			}
		}
		// the MAC index resolves to the session (unless the table lists it as closed)
		if v := m2s.MapIndex(reflectValue(pmac(m).String())); v.IsValid() && uint16(v.Uint()) == sid {
			o.Idx[i] = true
			for _, ss := range sess {
				if ss.ID == sid && ss.State == "Closed" {
					o.Idx[i] = false
				}
			}
		}
	}
	return o.m()
}

func (in *pppoeInst) Fingerprint() string {
	var parts []string
	byKey := map[string]uint16{}
	for _, ss := range in.srv.VerifSessions() {
		parts = append(parts, fmt.Sprintf("%d:%s:%s:%v:%s", ss.ID, ss.ClientMAC, ss.State, ss.Authenticated, ss.ClientIP))
		byKey[ss.SessionID] = ss.ID
	}
	sort.Strings(parts)
	sm := in.srv.VerifSessionManager()
	for _, ss := range sm.GetAllSessions() {
		parts = append(parts, fmt.Sprintf("id%d=%d", ss.ID, ss.LCPIdentifier))
	}
	sort.Strings(parts)
	var al []string
	p := in.srv.VerifPool()
	it := core.Field(p, "allocated").MapRange()
	for it.Next() {
		k := it.Key().String()
		name := "stale"
		if id, ok := byKey[k]; ok {
			name = fmt.Sprint(id)
		}
		for m, key := range in.key {
			if key == k {
				name += fmt.Sprintf("/c%d", m)
			}
		}
		al = append(al, fmt.Sprintf("%s=%x", name, it.Value().Bytes()))
	}
	sort.Strings(al)
	var cl []string
	for m := 1; m <= in.s.N; m++ {
		sid, has := in.sid[m]
		cl = append(cl, fmt.Sprintf("%d:%v%d,%v", m, has, sid, in.inSession[m]))
	}
	return strings.Join(parts, ";") + "|" + core.Fingerprint(core.Field(sm, "nextID").Interface(), nil) + core.Fingerprint(core.Field(sm, "macToSession").Interface(), nil) +
		"|" + strings.Join(al, ",") + "/" + core.Fingerprint(core.Field(p, "available").Interface(), nil) + "|" + strings.Join(cl, ";")
}

func (in *pppoeInst) Probe() map[string]any { return nil }
func (in *pppoeInst) Close()                { peer.forget(in.acct.nas) }
