//go:build verif

package lifecycle

import (
	"context"
	"fmt"
	"net"
	"sort"
	"strings"
	"sync"
	"testing/synctest"
	"time"

	"github.com/codelaboratoryltd/bng/pkg/subscriber"
	"go.uber.org/zap"

	"verifharness/core"
)

// System "subscriber": subscriber.Manager (pkg/subscriber/manager.go) with a counting
// AddressAllocator (a small real pool: lowest free unit, release by address, every release
// call counted). Establishment = CreateSession, Authenticate, AssignAddress, ActivateSession;
// end paths = TerminateSession (admin reset, user request), the cleanup tick
// (idle timeout in mode "idle", session timeout in mode "sessto"), and two TerminateSession
// calls at once, made deterministic with the verif gate between the two critical sections of
// TerminateSession (both orders of passing the gate).

const subIdle = 10 * time.Minute
const subSessTO = time.Hour

type SubSys struct {
	bubble
	N      int
	Mode   string // "idle" | "sessto"
	events []core.Event
}

func NewSubSys(n int, mode string) *SubSys {
	s := &SubSys{N: n, Mode: mode}
	for k := 1; k <= n; k++ {
		s.events = append(s.events,
			ev("CREATE", k, "none", true, 1), ev("AUTHN", k, "none", true, 1), ev("ASSIGN", k, "none", true, 1), ev("ACTIVATE", k, "none", true, 1),
			ev("TERMADMIN", k, "admin", false, 1), ev("TERMUSER", k, "release", false, 1),
			ev("TERM2/12", k, "admin", false, 2), ev("TERM2/21", k, "admin", false, 2))
		if mode == "idle" {
			s.events = append(s.events, ev("IDLE", k, "idle", false, 1))
		}
	}
	if mode == "idle" {
		s.events = append(s.events, ev("IDLE", 0, "idle", false, 1))
	} else {
		s.events = append(s.events, ev("SESSTO", 0, "expiry", false, 1))
	}
	return s
}

func (s *SubSys) Name() string { return fmt.Sprintf("subscriber/%s/n%d", s.Mode, s.N) }
func (s *SubSys) Config() map[string]any {
	return map[string]any{"impl": "subscriber.Manager", "nsess": s.N, "nunits": 8, "mode": s.Mode}
}
func (s *SubSys) Events() []core.Event { return s.events }

func smac(k int) net.HardwareAddr { return net.HardwareAddr{0x02, 0, 0, 0, 0x30, byte(k)} }

// countAlloc is the counting allocator: units 2..6 of 10.66.0.0/29.
type countAlloc struct {
	mu       sync.Mutex
	owner    map[int]string // unit -> session id holding it
	lastSlot map[int]int    // unit -> slot it was last handed to
	slotOf   func(sessionID string) int
	releases []int // per slot: ReleaseIPv4 calls for a unit last handed to that slot
}

func caIP(u int) net.IP { return net.IPv4(10, 66, 0, byte(u)).To4() }
func caUnit(ip net.IP) int {
	if v4 := ip.To4(); v4 != nil && v4[0] == 10 && v4[1] == 66 && v4[2] == 0 {
		return int(v4[3])
	}
	return -2
}

func (a *countAlloc) AllocateIPv4(ctx context.Context, session *subscriber.Session, poolID string) (net.IP, net.IPMask, net.IP, error) {
	a.mu.Lock()
	defer a.mu.Unlock()
	for u, id := range a.owner {
		if id == session.ID {
			return caIP(u), net.CIDRMask(29, 32), caIP(1), nil
		}
	}
	for u := 2; u <= 6; u++ {
		if _, used := a.owner[u]; !used {
			a.owner[u] = session.ID
			a.lastSlot[u] = a.slotOf(session.ID)
			return caIP(u), net.CIDRMask(29, 32), caIP(1), nil
		}
	}
	return nil, nil, nil, fmt.Errorf("pool exhausted")
}
func (a *countAlloc) AllocateIPv6(ctx context.Context, session *subscriber.Session, poolID string) (net.IP, *net.IPNet, error) {
	return nil, nil, fmt.Errorf("no IPv6 pool")
}
func (a *countAlloc) ReleaseIPv4(ctx context.Context, ip net.IP) error {
	a.mu.Lock()
	defer a.mu.Unlock()
	u := caUnit(ip)
	if k := a.lastSlot[u]; k >= 1 && k <= len(a.releases) {
		a.releases[k-1]++
	}
	delete(a.owner, u)
	return nil
}
func (a *countAlloc) ReleaseIPv6(ctx context.Context, ip net.IP) error { return nil }

type okAuth struct{}

func (okAuth) Authenticate(ctx context.Context, req *subscriber.SessionRequest) (*subscriber.AuthResult, error) {
	return &subscriber.AuthResult{Success: true, SubscriberID: "sub-" + req.MAC.String(), ISPID: "isp"}, nil
}

type subInst struct {
	s     *SubSys
	mgr   *subscriber.Manager
	alloc *countAlloc
	id    map[int]string // slot -> id of its latest session
	// gate bookkeeping for the concurrent terminations
	gmu      sync.Mutex
	gateOn   bool
	arrivals []chan struct{}
}

func (s *SubSys) New() core.Instance {
	cfg := subscriber.ManagerConfig{CleanupInterval: time.Hour, AuthTimeout: time.Minute, MaxSessions: 100}
	if s.Mode == "idle" {
		cfg.DefaultIdleTimeout = subIdle
	} else {
		cfg.DefaultSessionTimeout = subSessTO
	}
	in := &subInst{s: s, id: map[int]string{}}
	in.alloc = &countAlloc{owner: map[int]string{}, lastSlot: map[int]int{}, releases: make([]int, s.N), slotOf: func(sid string) int {
		for k, id := range in.id {
			if id == sid {
				return k
			}
		}
		return 0
	}}
	in.mgr = subscriber.NewManager(cfg, okAuth{}, in.alloc, zap.NewNop())
	subscriber.VerifSetGate(in.mgr, func(point string) {
		in.gmu.Lock()
		if !in.gateOn || point != "terminate.afterMark" {
			in.gmu.Unlock()
			return
		}
		ch := make(chan struct{})
		in.arrivals = append(in.arrivals, ch)
		in.gmu.Unlock()
		<-ch
	})
	return in
}

// term2 runs two TerminateSession calls for one session at once. Call 1 is started first and
// runs until it passes its first critical section (mark) and parks at the gate, then call 2 is
// started and runs as far as it gets; then the parked calls are let through in the given order.
func (in *subInst) term2(id string, firstThrough int) {
	in.gmu.Lock()
	in.gateOn, in.arrivals = true, nil
	in.gmu.Unlock()
	var wg sync.WaitGroup
	for i := 0; i < 2; i++ {
		wg.Add(1)
		go func() {
			defer wg.Done()
			in.mgr.TerminateSession(context.Background(), id, subscriber.TerminateAdminReset)
		}()
		synctest.Wait()
	}
	in.gmu.Lock()
	parked := append([]chan struct{}{}, in.arrivals...)
	in.gateOn = false
	in.gmu.Unlock()
	if len(parked) == 2 && firstThrough == 2 {
		parked[0], parked[1] = parked[1], parked[0]
	}
	for _, ch := range parked {
		close(ch)
		synctest.Wait()
	}
	wg.Wait()
}

func (in *subInst) Apply(e core.Event) map[string]any {
	op := e["op"].(string)
	k := toInt(e["s"])
	n := in.s.N
	ctx := context.Background()
	in.alloc.mu.Lock()
	rel0 := append([]int{}, in.alloc.releases...)
	in.alloc.mu.Unlock()
	acked, skipped := false, false
	id, has := in.id[k]
	switch op {
	case "CREATE":
		ss, err := in.mgr.CreateSession(ctx, &subscriber.SessionRequest{MAC: smac(k), Type: subscriber.SessionTypeIPoE, STag: 100, CTag: uint16(k)})
		if err == nil {
			in.id[k] = ss.ID
			acked = true
		}
	case "AUTHN":
		if !has {
			skipped = true
			break
		}
		r, err := in.mgr.Authenticate(ctx, id)
		acked = err == nil && r != nil && r.Success
	case "ASSIGN":
		if !has {
			skipped = true
			break
		}
		acked = in.mgr.AssignAddress(ctx, id, "pool4", "") == nil
	case "ACTIVATE":
		if !has {
			skipped = true
			break
		}
		acked = in.mgr.ActivateSession(id) == nil
	case "TERMADMIN", "TERMUSER":
		if !has {
			skipped = true
			break
		}
		reason := subscriber.TerminateAdminReset
		if op == "TERMUSER" {
			reason = subscriber.TerminateUserRequest
		}
		in.mgr.TerminateSession(ctx, id, reason)
	case "TERM2/12", "TERM2/21":
		if !has {
			skipped = true
			break
		}
		first := 1
		if op == "TERM2/21" {
			first = 2
		}
		in.term2(id, first)
	case "IDLE":
		// k = 0: every session is idle beyond the timeout. k > 0: the other sessions show activity half-way.
		if k == 0 {
			time.Sleep(subIdle + subIdle/5)
		} else {
			time.Sleep(subIdle * 3 / 5)
			for d := 1; d <= n; d++ {
				if d != k {
					if did, ok := in.id[d]; ok {
						in.mgr.UpdateActivity(did, 1, 1, 1, 1)
					}
				}
			}
			time.Sleep(subIdle * 3 / 5)
		}
		in.mgr.VerifCleanupExpired()
	case "SESSTO":
		time.Sleep(subSessTO + subSessTO/5)
		in.mgr.VerifCleanupExpired()
	default:
		panic("unknown op " + op)
	}
	synctest.Wait()
	in.alloc.mu.Lock()
	rel1 := append([]int{}, in.alloc.releases...)
	in.alloc.mu.Unlock()
	return res(n, acked, skipped, nil, nil, diff(rel1, rel0))
}

func (in *subInst) Observe() map[string]any {
	n := in.s.N
	o := newObs(n)
	byMAC := core.Field(in.mgr, "byMAC")
	byIP := core.Field(in.mgr, "byIP")
	in.alloc.mu.Lock()
	defer in.alloc.mu.Unlock()
	for k := 1; k <= n; k++ {
		id, has := in.id[k]
		if !has {
			continue
		}
		i := k - 1
		for u, owner := range in.alloc.owner {
			if owner == id {
				o.Pool[i] = u
			}
		}
		if ss, ok := in.mgr.GetSession(id); ok && ss != nil && ss.IPv4 != nil && ss.State != subscriber.StateTerminated {
			o.Tab[i] = caUnit(ss.IPv4)
		}
		if v := byMAC.MapIndex(reflectValue(smac(k).String())); v.IsValid() && v.String() == id {
			o.Idx[i] = true
		}
		it := byIP.MapRange()
		for it.Next() {
			if it.Value().String() == id {
				o.Idx[i] = true
			}
		}
	}
	return o.m()
}

func (in *subInst) Fingerprint() string {
	name := func(id string) string {
		for k, v := range in.id {
			if v == id {
				return fmt.Sprintf("c%d", k)
			}
		}
		return "old"
	}
	var parts []string
	for _, ss := range in.mgr.ListSessions() {
		parts = append(parts, fmt.Sprintf("S:%s:%s:%v:%s", name(ss.ID), ss.State, ss.Authenticated, ss.IPv4))
	}
	for _, f := range []string{"byMAC", "byIP"} {
		it := core.Field(in.mgr, f).MapRange()
		for it.Next() {
			parts = append(parts, fmt.Sprintf("%s:%s=%s", f, it.Key().String(), name(it.Value().String())))
		}
	}
	in.alloc.mu.Lock()
	for u, id := range in.alloc.owner {
		parts = append(parts, fmt.Sprintf("A:%d=%s", u, name(id)))
	}
	for u, k := range in.alloc.lastSlot {
		parts = append(parts, fmt.Sprintf("LS:%d=%d", u, k))
	}
	in.alloc.mu.Unlock()
	for k := 1; k <= in.s.N; k++ {
		_, has := in.id[k]
		parts = append(parts, fmt.Sprintf("H:%d=%v", k, has))
	}
	sort.Strings(parts)
	return strings.Join(parts, ";")
}

func (in *subInst) Probe() map[string]any { return nil }
func (in *subInst) Close() {
	subscriber.VerifSetGate(in.mgr, nil)
	in.mgr.Stop()
}
