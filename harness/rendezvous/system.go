package rendezvous

import (
	"fmt"
	"math/rand"
	"sort"
	"time"

	"github.com/codelaboratoryltd/bng/pkg/pool"
	"go.uber.org/zap"

	"verifharness/core"
)

const implName = "pool.PeerPool"

// SetsSystem: one universe of node ids x one block of subscriber ids. Its events are
// observations of real PeerPool instances: "cfg" builds a fresh node with a peer list,
// "add"/"remove"/"health" act on that live node; every event is followed by asking the
// node for owner / is-local / ranked list / effective owner of every subscriber.
type SetsSystem struct {
	name    string
	U       Universe
	SubSeed int64
	Sub0    int
	NSubs   int
	subs    []string
}

func NewSetsSystem(name string, u Universe, subSeed int64, sub0, nsubs int) *SetsSystem {
	return &SetsSystem{name: name, U: u, SubSeed: subSeed, Sub0: sub0, NSubs: nsubs, subs: SubIDs(subSeed, sub0, nsubs)}
}

func (s *SetsSystem) Name() string { return s.name }
func (s *SetsSystem) Config() map[string]any {
	return map[string]any{"impl": implName, "kind": "sets", "n": s.U.K(), "nsubs": s.NSubs, "names_hex": s.U.Hex(),
		"names": s.U.Printable(), "subseed": s.SubSeed, "sub0": s.Sub0}
}
func (s *SetsSystem) Events() []core.Event { return nil }
func (s *SetsSystem) New() core.Instance {
	return &setsInst{s: s, peers: map[int]bool{}, unhealthy: map[int]bool{}}
}

type setsInst struct {
	s         *SetsSystem
	p         *pool.PeerPool
	view      int
	peers     map[int]bool // the peer set the operator configured: cfg list + self, + added, - removed
	unhealthy map[int]bool // what the operator / health loop told this node
}

func toInt(v any) int {
	switch x := v.(type) {
	case int:
		return x
	case float64:
		return int(x)
	case int64:
		return int(x)
	}
	return 0
}

func toInts(v any) []int {
	switch x := v.(type) {
	case []int:
		return x
	case []any:
		out := make([]int, len(x))
		for i, e := range x {
			out[i] = toInt(e)
		}
		return out
	}
	return nil
}

func sortedKeys(m map[int]bool) []int {
	out := make([]int, 0, len(m))
	for k, v := range m {
		if v {
			out = append(out, k)
		}
	}
	sort.Ints(out)
	return out
}

func newPool(nodeID string, peers []string, network, gw string) *pool.PeerPool {
	p, err := pool.NewPeerPool(pool.PeerPoolConfig{NodeID: nodeID, Peers: peers, Network: network, Gateway: gw,
		LeaseTime: time.Hour, Logger: zap.NewNop()})
	if err != nil {
		panic(err)
	}
	return p
}

func (in *setsInst) Apply(ev core.Event) map[string]any {
	u := in.s.U
	op := ev["op"].(string)
	x := toInt(ev["x"])
	switch op {
	case "cfg":
		in.view = toInt(ev["view"])
		order := toInts(ev["order"])
		list := make([]string, len(order)) // a private slice: NewPeerPool keeps and sorts what it is given
		in.peers = map[int]bool{in.view: true}
		for i, o := range order {
			list[i] = u.Names[o-1]
			in.peers[o] = true
		}
		in.unhealthy = map[int]bool{}
		in.p = newPool(u.Names[in.view-1], list, "10.0.0.0/24", "10.0.0.1")
	case "add":
		in.p.AddPeer(u.Names[x-1])
		in.peers[x] = true
	case "remove":
		in.p.RemovePeer(u.Names[x-1])
		delete(in.peers, x)
	case "health":
		h := ev["healthy"].(bool)
		in.p.VerifSetPeerHealth(u.Names[x-1], h)
		if h {
			delete(in.unhealthy, x)
		} else {
			in.unhealthy[x] = true
		}
	default:
		panic("unknown op " + op)
	}
	// answers, packed per subscriber (see Rendezvous.tla "Answer encoding"):
	//   obs = owner + 9*effective owner + 81*isLocal + 162*len(ranked);  rk = sum ranked[i]*9^(i-1)
	n := len(in.s.subs)
	obs := make([]int, n)
	rk := []int{}
	wantRanked := op != "health"
	if wantRanked {
		rk = make([]int, n)
	}
	for i, sub := range in.s.subs {
		c := u.Index(in.p.GetOwner(sub)) + 9*u.Index(in.p.VerifHealthyOwner(sub))
		if in.p.IsLocalOwner(sub) {
			c += 81
		}
		if wantRanked {
			r := in.p.VerifRanked(sub)
			c += 162 * len(r)
			code, pw := 0, 1
			for j, nm := range r {
				if j >= 9 {
					break // longer than any universe: the length alone already fails the contract
				}
				code += u.Index(nm) * pw
				pw *= 9
			}
			rk[i] = code
		}
		obs[i] = c
	}
	res := map[string]any{"view": in.view, "peers": sortedKeys(in.peers), "unhealthy": sortedKeys(in.unhealthy),
		"obs": obs, "rk": rk}
	if _, ok := ev["x"]; !ok {
		res["x"] = 0
	}
	if _, ok := ev["healthy"]; !ok {
		res["healthy"] = true
	}
	return res
}

func (in *setsInst) Observe() map[string]any {
	return map[string]any{"npeers": len(sortedKeys(in.peers)), "nunhealthy": len(sortedKeys(in.unhealthy))}
}
func (in *setsInst) Fingerprint() string   { return "" }
func (in *setsInst) Probe() map[string]any { return nil }
func (in *setsInst) Close()                {}

// ---------------------------------------------------------------------------------------
// event generation

func cfgEv(view int, order []int) core.Event {
	return core.Event{"op": "cfg", "view": view, "order": append([]int{}, order...)}
}

func mapPerm(base []int, perm []int) []int {
	out := make([]int, len(perm))
	for i, p := range perm {
		out[i] = base[p]
	}
	return out
}

func without(xs []int, d int) []int {
	var out []int
	for _, x := range xs {
		if x != d {
			out = append(out, x)
		}
	}
	return out
}

// GenEvents builds the observation chain of one universe.
//   - every node configured with every order of the full set (sampled beyond maxPermK), with
//     itself present and absent, and with duplicated entries;
//   - every non-empty subset configured on each of its members (binds every peer set, so the
//     minimal-disruption law is judged for every pair P, P+{x});
//   - add / remove walks on live nodes (build up from a single node, tear down, random walk,
//     removal of a duplicated entry, removal of the node itself);
//   - health: for universes of <= healthK nodes every marking step H -> H+{x} of the subset
//     lattice on every viewing node, otherwise a random walk.
func GenEvents(k int, rng *rand.Rand, maxPermK, permSample, healthK, walkLen int) []core.Event {
	var evs []core.Event
	all := make([]int, k)
	for i := range all {
		all[i] = i + 1
	}
	for view := 1; view <= k; view++ {
		perms := permutations(k)
		if k > maxPermK {
			rng.Shuffle(len(perms), func(i, j int) { perms[i], perms[j] = perms[j], perms[i] })
			perms = append([][]int{permutations(k)[0], permutations(k)[len(perms)-1]}, perms[:permSample]...)
		}
		for _, p := range perms {
			evs = append(evs, cfgEv(view, mapPerm(all, p)))
		}
		rest := without(all, view)
		if k > 1 {
			perms = permutations(k - 1)
			if k > maxPermK {
				rng.Shuffle(len(perms), func(i, j int) { perms[i], perms[j] = perms[j], perms[i] })
				perms = perms[:permSample/2+1]
			}
			for _, p := range perms {
				evs = append(evs, cfgEv(view, mapPerm(rest, p)))
			}
		}
		evs = append(evs, cfgEv(view, nil)) // no peers configured at all: a single-node set
		// duplicated entries
		for d := 0; d < 3; d++ {
			o := mapPerm(all, rng.Perm(k))
			dup := o[rng.Intn(len(o))]
			at := rng.Intn(len(o) + 1)
			o = append(o[:at], append([]int{dup}, o[at:]...)...)
			evs = append(evs, cfgEv(view, o))
			// ... then remove the duplicated peer from the live node, and add it back
			if d == 0 {
				evs = append(evs, core.Event{"op": "remove", "x": dup}, core.Event{"op": "add", "x": dup})
			}
		}
	}
	for _, s := range subsetsOf(k) {
		for _, view := range s {
			evs = append(evs, cfgEv(view, mapPerm(s, rng.Perm(len(s)))))
		}
	}
	// add / remove walks
	for view := 1; view <= k; view++ {
		evs = append(evs, cfgEv(view, []int{view}))
		for _, i := range rng.Perm(k) {
			evs = append(evs, core.Event{"op": "add", "x": all[i]})
		}
		for _, i := range rng.Perm(k) {
			evs = append(evs, core.Event{"op": "remove", "x": all[i]})
		}
		for _, i := range rng.Perm(k) {
			evs = append(evs, core.Event{"op": "add", "x": all[i]})
		}
		for i := 0; i < walkLen; i++ {
			x := all[rng.Intn(k)]
			switch rng.Intn(5) {
			case 0, 1:
				evs = append(evs, core.Event{"op": "add", "x": x})
			case 2, 3:
				evs = append(evs, core.Event{"op": "remove", "x": x})
			default:
				evs = append(evs, core.Event{"op": "health", "x": x, "healthy": rng.Intn(3) == 0})
			}
		}
	}
	// health
	for view := 1; view <= k; view++ {
		evs = append(evs, cfgEv(view, mapPerm(all, rng.Perm(k))))
		if k <= healthK {
			// depth-first over the subset lattice: every edge H -> H+{x} is taken as a marking step
			var rec func(h map[int]bool)
			rec = func(h map[int]bool) {
				for x := 1; x <= k; x++ {
					if h[x] {
						continue
					}
					// only extend in increasing order AND in every order: take every x not in h
					evs = append(evs, core.Event{"op": "health", "x": x, "healthy": false})
					h[x] = true
					if isCanonicalPath(h, x) {
						rec(h)
					}
					delete(h, x)
					evs = append(evs, core.Event{"op": "health", "x": x, "healthy": true})
				}
			}
			rec(map[int]bool{})
		} else {
			for i := 0; i < 4*k; i++ {
				evs = append(evs, core.Event{"op": "health", "x": all[rng.Intn(k)], "healthy": rng.Intn(3) == 0})
			}
		}
	}
	return evs
}

// isCanonicalPath: the recursion below state h continues only when x is the largest element
// of h, so every subset is expanded exactly once while every edge into it is still taken.
func isCanonicalPath(h map[int]bool, x int) bool {
	for y := range h {
		if y > x {
			return false
		}
	}
	return true
}

func sysName(kind string, k, idx, block int) string {
	return fmt.Sprintf("%s/k%d/u%03d#b%d", kind, k, idx, block)
}
