package rendezvous

import "testing"

// the generated subscriber ids of one stream are pairwise distinct (the end-to-end failure
// scenario relies on the second half of a block being ids never requested before)
func TestSubIDsDistinct(t *testing.T) {
	for seed := int64(1); seed <= 25; seed++ {
		seen := map[string]int{}
		for i := 0; i < 6000; i++ {
			id := SubID(seed, i)
			if j, dup := seen[id]; dup {
				t.Fatalf("seed %d: ids %d and %d are both %q", seed, j, i, id)
			}
			seen[id] = i
		}
	}
}
