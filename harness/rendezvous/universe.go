// Package rendezvous binds pool.PeerPool (subscriber ownership by rendezvous hashing,
// health-aware fallback, request forwarding over HTTP) to the Rendezvous specification
// (property C17). The harness only configures real PeerPool instances, asks them, and
// projects node-id strings to node numbers; every judgement is made by TLC.
package rendezvous

import (
	"encoding/hex"
	"fmt"
	"math/rand"
	"sort"
	"strings"
)

// NamePool is the pool of "arbitrary strings" node ids are drawn from.
var NamePool = []string{
	"",                       // empty id
	"a",                      //
	"a ",                     // trailing blank
	"A",                      // case
	"node-1",                 //
	"node-10",                // common prefix
	"node-2",                 //
	"node-1:8081",            // id + the port suffix getPeerAddr knows about
	"node-1\n",               // control character
	"bng-\u00e9",             // precomposed e-acute
	"bng-e\u0301",            // decomposed e-acute
	"10.0.0.1",               //
	"10.0.0.1:8081",          //
	"节点-1",                   // CJK
	"\x00",                   // NUL
	"\xff\xfe",               // invalid UTF-8
	strings.Repeat("x", 300), // long
	"8yn0iYCKYHlIj4-BwPqk",   // these two have the same 64-bit FNV-1a hash
	"GReLUrM4wMqfg9yzV3KQ",   //
	"bng-0.bng.demo.svc.cluster.local:8081",
	"bng-1.bng.demo.svc.cluster.local:8081",
	"bng-2.bng.demo.svc.cluster.local:8081",
}

// mustPairs are peer pairs that are always explored (quick tier samples the rest).
var mustPairs = [][2]string{
	{"8yn0iYCKYHlIj4-BwPqk", "GReLUrM4wMqfg9yzV3KQ"},
	{"", "\x00"}, {"a", "a "}, {"a", "A"}, {"node-1", "node-10"}, {"node-1", "node-1:8081"},
	{"bng-\u00e9", "bng-e\u0301"}, {"node-1", "node-1\n"}, {"", "\xff\xfe"},
}

// Universe is one set of distinct node ids; node number i (1-based) is Names[i-1].
type Universe struct {
	Names []string
}

func (u Universe) K() int { return len(u.Names) }

func (u Universe) Hex() []string {
	out := make([]string, len(u.Names))
	for i, n := range u.Names {
		out[i] = hex.EncodeToString([]byte(n))
	}
	return out
}

func (u Universe) Printable() []string {
	out := make([]string, len(u.Names))
	for i, n := range u.Names {
		s := fmt.Sprintf("%q", n)
		if len(s) > 40 {
			s = s[:37] + "...\""
		}
		out[i] = s
	}
	return out
}

// Index maps a node-id string to its number; 0 = not a node of this universe.
func (u Universe) Index(name string) int {
	for i, n := range u.Names {
		if n == name {
			return i + 1
		}
	}
	return 0
}

func UniverseFromHex(hx []string) (Universe, error) {
	u := Universe{}
	for _, h := range hx {
		b, err := hex.DecodeString(h)
		if err != nil {
			return u, err
		}
		u.Names = append(u.Names, string(b))
	}
	return u, nil
}

// SubID is the deterministic subscriber-id generator: id number i of stream `seed`.
func SubID(seed int64, i int) string {
	r := rand.New(rand.NewSource(seed*1000003 + int64(i)*7919 + 17))
	switch i % 16 {
	case 0:
		return fmt.Sprintf("sub-%d", i)
	case 1:
		return fmt.Sprintf("02:00:%02x:%02x:%02x:%02x", r.Intn(256), r.Intn(256), i/256%256, i%256)
	case 2:
		return fmt.Sprintf("%d", i)
	case 3:
		return strings.Repeat(" ", i%7+1) + fmt.Sprint(i)
	case 4:
		if n := i / 16; n >= len(NamePool) {
			return fmt.Sprintf("%s/%d", NamePool[n%len(NamePool)], i) // ids are pairwise distinct
		}
		return NamePool[i/16] // a subscriber id that equals a node id
	case 5:
		return fmt.Sprintf("用户-%d-é", i)
	case 6:
		return fmt.Sprintf("circuit/%d/%d:%d", r.Intn(4), r.Intn(48), i)
	case 7:
		return strings.Repeat("s", 200+i%50) + fmt.Sprint(i)
	case 8:
		return fmt.Sprintf("sub-%d\x00", i)
	case 9:
		return fmt.Sprintf("SUB-%d", i-9)
	case 10:
		return fmt.Sprintf("sub-%d ", i-10)
	case 11:
		b := make([]byte, 1+r.Intn(12))
		for j := range b {
			b[j] = byte('!' + r.Intn(94))
		}
		return string(b) + fmt.Sprint(i)
	case 12:
		return fmt.Sprintf("user%d@example.net", i)
	case 13:
		return fmt.Sprintf("%016x", r.Uint64())
	case 14:
		return fmt.Sprintf("ab%d", i)
	default:
		return fmt.Sprintf("nte-%04d|%d|%d", i, 100+r.Intn(4), r.Intn(4000))
	}
}

func SubIDs(seed int64, from, n int) []string {
	out := make([]string, n)
	for i := 0; i < n; i++ {
		out[i] = SubID(seed, from+i)
	}
	return out
}

// permutations of 0..n-1 in lexicographic order
func permutations(n int) [][]int {
	var out [][]int
	p := make([]int, n)
	for i := range p {
		p[i] = i
	}
	var rec func(k int)
	rec = func(k int) {
		if k == n {
			out = append(out, append([]int{}, p...))
			return
		}
		for i := k; i < n; i++ {
			p[k], p[i] = p[i], p[k]
			rec(k + 1)
			p[k], p[i] = p[i], p[k]
		}
	}
	rec(0)
	sort.Slice(out, func(a, b int) bool {
		for i := range out[a] {
			if out[a][i] != out[b][i] {
				return out[a][i] < out[b][i]
			}
		}
		return false
	})
	return out
}

// subsetsOf returns all non-empty subsets of {1..k} as sorted slices.
func subsetsOf(k int) [][]int {
	var out [][]int
	for m := 1; m < 1<<k; m++ {
		var s []int
		for i := 0; i < k; i++ {
			if m&(1<<i) != 0 {
				s = append(s, i+1)
			}
		}
		out = append(out, s)
	}
	return out
}

// chooseUniverses selects the peer sets explored in this run.
func chooseUniverses(rng *rand.Rand, thorough bool) []Universe {
	var out []Universe
	seen := map[string]bool{}
	add := func(names []string) {
		s := append([]string{}, names...)
		sort.Strings(s)
		key := strings.Join(s, "\x01\x02")
		if seen[key] {
			return
		}
		seen[key] = true
		// the universe's numbering is itself shuffled: node numbers carry no meaning
		sh := append([]string{}, names...)
		rng.Shuffle(len(sh), func(i, j int) { sh[i], sh[j] = sh[j], sh[i] })
		out = append(out, Universe{Names: sh})
	}
	for _, n := range NamePool {
		add([]string{n})
	}
	for _, p := range mustPairs {
		add([]string{p[0], p[1]})
	}
	pick := func(k int) []string {
		idx := rng.Perm(len(NamePool))[:k]
		s := make([]string, k)
		for i, j := range idx {
			s[i] = NamePool[j]
		}
		return s
	}
	counts := map[int]int{2: 18, 3: 15, 4: 6, 5: 2}
	if thorough {
		counts = map[int]int{2: 110, 3: 40, 4: 12, 5: 4, 6: 1, 7: 1, 8: 1}
	}
	// sets that always contain the colliding pair, so ties in the score are ranked
	col := mustPairs[0]
	for _, k := range []int{3, 4, 5} {
		s := []string{col[0], col[1]}
		for len(s) < k {
			c := NamePool[rng.Intn(len(NamePool))]
			dup := false
			for _, x := range s {
				dup = dup || x == c
			}
			if !dup {
				s = append(s, c)
			}
		}
		add(s)
	}
	for _, k := range []int{2, 3, 4, 5, 6, 7, 8} {
		want := counts[k]
		for tries := 0; want > 0 && tries < 100000; tries++ {
			before := len(out)
			add(pick(k))
			if len(out) > before {
				want--
			}
		}
	}
	return out
}
