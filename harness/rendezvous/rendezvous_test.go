package rendezvous

import (
	"encoding/json"
	"math/rand"
	"os"
	"sync"
	"testing"

	"verifharness/core"
)

type replayCase struct {
	ID     string         `json:"id"`
	System string         `json:"system"`
	NSubs  int            `json:"nsubs"`
	Events []core.Event   `json:"events"`
	Cfg    map[string]any `json:"cfg"`
}

type replayFile struct {
	Property string       `json:"property"`
	Cases    []replayCase `json:"cases"`
}

type runStats struct {
	Systems      int                `json:"systems"`
	Chains       int                `json:"chains"`
	ChainEvents  int                `json:"chain_events"`
	Universes    map[string]int     `json:"universes_by_size"`
	SubsPerBlock int                `json:"subs_per_block"`
	OwnerAnswers int                `json:"owner_answers"`
	E2ERequests  int                `json:"e2e_requests"`
	Panics       []core.PanicRecord `json:"panics"`
}

type job struct {
	sys  core.System
	name string
	evs  []core.Event
}

func runJobs(jobs []job, st *runStats) []*core.Table {
	tabs := make([]*core.Table, len(jobs))
	prs := make([]*core.PanicRecord, len(jobs))
	var wg sync.WaitGroup
	sem := make(chan struct{}, 8)
	for i := range jobs {
		wg.Add(1)
		sem <- struct{}{}
		go func(i int) {
			defer wg.Done()
			defer func() { <-sem }()
			tabs[i], prs[i] = core.Chain(jobs[i].sys, jobs[i].name, jobs[i].evs, false)
		}(i)
	}
	wg.Wait()
	var out []*core.Table
	for i, t := range tabs {
		if prs[i] != nil {
			st.Panics = append(st.Panics, *prs[i])
			continue
		}
		out = append(out, t)
		st.Chains++
		st.ChainEvents += len(jobs[i].evs)
	}
	return out
}

// TestExplore records the observation chains of every selected universe and writes the bundle
// TLC judges against Rendezvous.tla.
func TestExplore(t *testing.T) {
	out := core.OutDir()
	if rf := os.Getenv("VERIF_REPLAY"); rf != "" {
		replay(t, rf, out)
		return
	}
	thorough := core.Tier() == "thorough"
	seed := core.Seed()
	rng := rand.New(rand.NewSource(seed))
	st := runStats{Universes: map[string]int{}}
	block, idsSmall := 200, 200
	maxPermK, permSample, healthK, walkLen := 4, 22, 4, 10
	if thorough {
		block, idsSmall = 250, 5000
		maxPermK, permSample, healthK, walkLen = 5, 40, 4, 30
	}
	st.SubsPerBlock = block
	var jobs []job
	nth := map[int]int{} // how many universes of each size so far
	for ui, u := range chooseUniverses(rng, thorough) {
		k := u.K()
		st.Universes[string(rune('0'+k))]++
		nth[k]++
		ids := idsSmall
		if thorough {
			// one block of ids everywhere; the full 5000-id sweep on the first two triples, 1250 ids on the first quad
			ids = block
			if k == 3 && nth[k] <= 2 {
				ids = idsSmall
			}
			if k == 4 && nth[k] <= 1 {
				ids = idsSmall / 4
			}
		}
		evs := GenEvents(k, rand.New(rand.NewSource(seed*131+int64(ui))), maxPermK, permSample, healthK, walkLen)
		for b := 0; b*block < ids; b++ {
			name := sysName("sets", k, ui, b)
			sys := NewSetsSystem(name, u, seed, b*block, block)
			jobs = append(jobs, job{sys, name, evs})
			st.OwnerAnswers += len(evs) * block
		}
	}
	// end-to-end: three nodes over loopback HTTP
	e2eSets := [][]string{
		{"bng-0.bng.demo.svc.cluster.local:8081", "bng-1.bng.demo.svc.cluster.local:8081", "bng-2.bng.demo.svc.cluster.local:8081"},
		{"10.0.0.1:8081", "node-1:8081", "node-10"},
		{"a", "A", "node-2"},
		{"node-1", "node-10", "node-2"}, // one name is a prefix of another, and some node lists the longer one first
	}
	orderSets := [][][]int{
		{{1, 2, 3}, {3, 2, 1}, {2, 3, 1}}, // every node lists all three, each in another order
		{{2, 3}, {3, 1}, {1, 2}},          // nobody lists itself
		{{3, 3, 2, 1}, {1, 3}, {2, 1, 3}}, // duplicates, mixed
	}
	ne2e := 200
	if thorough {
		ne2e = 600
	}
	idx := 0
	for si, names := range e2eSets {
		for oi, orders := range orderSets {
			for _, down := range []int{0, 1 + (si+oi)%3} {
				name := sysName("e2e", 3, idx, down)
				idx++
				u := Universe{Names: names}
				sys := NewE2ESystem(name, u, orders, seed+int64(idx), 0, ne2e)
				evs := GenE2EEvents(3, ne2e, down)
				jobs = append(jobs, job{sys, name, evs})
				for _, e := range evs {
					if e["op"] == "serve" {
						st.E2ERequests += len(e["subs"].([]int))
					}
				}
			}
		}
	}
	bundle := &core.Bundle{Systems: runJobs(jobs, &st)}
	st.Systems = len(bundle.Systems)
	if err := core.WriteJSON(out, "bundle.json", bundle); err != nil {
		t.Fatal(err)
	}
	if err := core.WriteJSON(out, "stats.json", st); err != nil {
		t.Fatal(err)
	}
}

func systemFromCfg(name string, cfg map[string]any) (core.System, error) {
	var hx []string
	for _, h := range cfg["names_hex"].([]any) {
		hx = append(hx, h.(string))
	}
	u, err := UniverseFromHex(hx)
	if err != nil {
		return nil, err
	}
	seed := int64(toInt(cfg["subseed"]))
	sub0, nsubs := toInt(cfg["sub0"]), toInt(cfg["nsubs"])
	if cfg["kind"] == "e2e" {
		var orders [][]int
		for _, o := range cfg["orders"].([]any) {
			orders = append(orders, toInts(o))
		}
		return NewE2ESystem(name, u, orders, seed, sub0, nsubs), nil
	}
	return NewSetsSystem(name, u, seed, sub0, nsubs), nil
}

func replay(t *testing.T, file, out string) {
	b, err := os.ReadFile(file)
	if err != nil {
		t.Fatal(err)
	}
	var rf replayFile
	if err := json.Unmarshal(b, &rf); err != nil {
		t.Fatal(err)
	}
	st := runStats{Universes: map[string]int{}}
	var jobs []job
	for _, c := range rf.Cases {
		name := c.System + "#" + c.ID
		sys, err := systemFromCfg(name, c.Cfg)
		if err != nil {
			t.Fatalf("case %s: %v", c.ID, err)
		}
		// only the inputs of the recorded events are replayed; answers are observed afresh
		var evs []core.Event
		for _, e := range c.Events {
			in := core.Event{}
			for _, k := range []string{"op", "view", "order", "x", "healthy", "entry", "subs"} {
				if v, ok := e[k]; ok {
					in[k] = v
				}
			}
			if in["op"] != "cfg" {
				delete(in, "view")
			}
			evs = append(evs, in)
		}
		jobs = append(jobs, job{sys, name, evs})
	}
	bundle := &core.Bundle{Systems: runJobs(jobs, &st)}
	st.Systems = len(bundle.Systems)
	if err := core.WriteJSON(out, "bundle.json", bundle); err != nil {
		t.Fatal(err)
	}
	core.WriteJSON(out, "stats.json", st)
}
