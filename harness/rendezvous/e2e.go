package rendezvous

import (
	"context"
	"fmt"
	"io"
	"net"
	"net/http"
	"net/http/httptest"
	"strings"
	"sync/atomic"
	"time"
	"unicode/utf8"

	"github.com/codelaboratoryltd/bng/pkg/pool"

	"verifharness/core"
)

// E2ESystem: three real PeerPool nodes, each behind its own loopback HTTP server with the
// handlers RegisterHandlers installs. Node ids are the peer addresses (getPeerAddr: node id
// == address); the nodes' HTTP clients dial the logical address through a dialer that maps
// it to the httptest listener, so node ids are stable across runs while every forwarded
// request still crosses a real TCP connection. Every node has its own, disjoint pool
// network, so the address in an answer identifies the pool it came from.
type E2ESystem struct {
	name    string
	U       Universe
	Orders  [][]int // Peers list given to node i (node numbers; may omit i)
	SubSeed int64
	Sub0    int
	NSubs   int
	subs    []string
}

func NewE2ESystem(name string, u Universe, orders [][]int, subSeed int64, sub0, nsubs int) *E2ESystem {
	subs := SubIDs(subSeed, sub0, nsubs)
	for i, id := range subs {
		// forwarded requests carry the id in a JSON body, which cannot transport invalid UTF-8 unchanged
		// (the owner would book the subscriber under another id than the one asked for; the harness looks
		// the subscriber up by id): end-to-end ids are valid UTF-8
		if !utf8.ValidString(id) {
			subs[i] = fmt.Sprintf("%x", id)
		}
	}
	return &E2ESystem{name: name, U: u, Orders: orders, SubSeed: subSeed, Sub0: sub0, NSubs: nsubs, subs: subs}
}

func (s *E2ESystem) Name() string { return s.name }
func (s *E2ESystem) Config() map[string]any {
	return map[string]any{"impl": implName, "kind": "e2e", "n": s.U.K(), "nsubs": s.NSubs, "names_hex": s.U.Hex(),
		"names": s.U.Printable(), "subseed": s.SubSeed, "sub0": s.Sub0, "orders": s.Orders}
}
func (s *E2ESystem) Events() []core.Event { return nil }

// cutRT delivers a request and then, when armed, reports the connection as cut instead of handing the answer
// back: the peer has executed the request, the caller learns nothing.
type cutRT struct {
	base  http.RoundTripper
	armed atomic.Int32
	cuts  atomic.Int32
}

func (c *cutRT) RoundTrip(req *http.Request) (*http.Response, error) {
	resp, err := c.base.RoundTrip(req)
	if c.armed.Load() > 0 && err == nil {
		c.armed.Add(-1)
		c.cuts.Add(1)
		io.Copy(io.Discard, resp.Body)
		resp.Body.Close()
		return nil, fmt.Errorf("verif: connection reset by peer (cut after the request was delivered)")
	}
	return resp, err
}

type e2eInst struct {
	cut     []*cutRT
	s       *E2ESystem
	pools   []*pool.PeerPool
	servers []*httptest.Server
	nets    []*net.IPNet
}

func (s *E2ESystem) New() core.Instance {
	in := &e2eInst{s: s}
	k := s.U.K()
	addr := map[string]string{} // logical node address -> real listener address
	muxes := make([]*http.ServeMux, k)
	for i := 0; i < k; i++ {
		muxes[i] = http.NewServeMux()
		srv := httptest.NewServer(muxes[i])
		in.servers = append(in.servers, srv)
		addr[s.U.Names[i]] = srv.Listener.Addr().String()
	}
	dial := func(ctx context.Context, network, a string) (net.Conn, error) {
		real, ok := addr[a]
		if !ok && strings.HasSuffix(a, ":80") {
			real, ok = addr[strings.TrimSuffix(a, ":80")] // net/http appends the default port to a bare host
		}
		if !ok {
			return nil, fmt.Errorf("verif: no such peer address %q", a)
		}
		var d net.Dialer
		return d.DialContext(ctx, network, real)
	}
	for i := 0; i < k; i++ {
		list := make([]string, len(s.Orders[i]))
		for j, o := range s.Orders[i] {
			list[j] = s.U.Names[o-1]
		}
		cidr := fmt.Sprintf("10.%d.0.0/20", 10+i)
		p := newPool(s.U.Names[i], list, cidr, fmt.Sprintf("10.%d.0.1", 10+i))
		_, n, _ := net.ParseCIDR(cidr)
		in.nets = append(in.nets, n)
		// test plumbing: the node's own forwarding client keeps its settings, only the dialer is replaced
		hc := core.Field(p, "httpClient").Interface().(*http.Client)
		crt := &cutRT{base: &http.Transport{DialContext: dial, DisableKeepAlives: false, MaxIdleConnsPerHost: 4, IdleConnTimeout: 2 * time.Second}}
		hc.Transport = crt
		in.cut = append(in.cut, crt)
		p.RegisterHandlers(muxes[i])
		in.pools = append(in.pools, p)
	}
	return in
}

func (in *e2eInst) holders(sub string) []int {
	out := []int{}
	for i, p := range in.pools {
		lp := core.Field(p, "localPool")
		al := core.FieldOf(lp, "allocations")
		it := al.MapRange()
		for it.Next() {
			if it.Key().String() == sub {
				out = append(out, i+1)
				break
			}
		}
	}
	return out
}

func (in *e2eInst) Apply(ev core.Event) map[string]any {
	op := ev["op"].(string)
	switch op {
	case "serve", "servecut":
		entry := toInt(ev["entry"])
		subs := toInts(ev["subs"])
		n := len(subs)
		ok := make([]bool, n)
		node := make([]int, n)
		ippool := make([]int, n)
		holders := make([][]int, n)
		for i, si := range subs {
			sub := in.s.subs[si-1]
			ctx, cancel := context.WithTimeout(context.Background(), 10*time.Second)
			if op == "servecut" {
				in.cut[entry-1].armed.Store(1)
			}
			resp, err := in.pools[entry-1].Allocate(ctx, sub, nil)
			in.cut[entry-1].armed.Store(0)
			cancel()
			if err == nil && resp != nil {
				ok[i] = true
				node[i] = in.s.U.Index(resp.NodeID)
				ip := net.ParseIP(resp.IP)
				for j, nw := range in.nets {
					if ip != nil && nw.Contains(ip) {
						ippool[i] = j + 1
					}
				}
			}
			holders[i] = in.holders(sub)
		}
		return map[string]any{"ok": ok, "node": node, "ippool": ippool, "holders": holders}
	case "release":
		// the subscribers give their addresses back through entry node `entry`
		entry := toInt(ev["entry"])
		subs := toInts(ev["subs"])
		holders := make([][]int, len(subs))
		for i, si := range subs {
			sub := in.s.subs[si-1]
			ctx, cancel := context.WithTimeout(context.Background(), 10*time.Second)
			in.pools[entry-1].Release(ctx, sub)
			cancel()
			holders[i] = in.holders(sub)
		}
		return map[string]any{"holders": holders}
	case "down":
		// node x stops answering and every other node's health loop has marked it unhealthy
		x := toInt(ev["x"])
		in.servers[x-1].Close()
		for i, p := range in.pools {
			if i != x-1 {
				p.VerifSetPeerHealth(in.s.U.Names[x-1], false)
			}
		}
		return map[string]any{}
	}
	panic("unknown op " + op)
}

func (in *e2eInst) Observe() map[string]any {
	tot := 0
	for _, p := range in.pools {
		tot += p.Stats().Allocated
	}
	return map[string]any{"allocated": tot}
}
func (in *e2eInst) Fingerprint() string   { return "" }
func (in *e2eInst) Probe() map[string]any { return nil }
func (in *e2eInst) Close() {
	for _, p := range in.pools {
		if hc, ok := core.Field(p, "httpClient").Interface().(*http.Client); ok {
			hc.CloseIdleConnections()
		}
	}
	for _, s := range in.servers {
		s.Close()
	}
}

// GenE2EEvents: the first half of the subscriber block is requested at every entry node (in
// rotating order, so each node is the first to be asked for a third of them); then, if
// `down` > 0, that node fails and the second half is requested at the two surviving nodes.
func GenE2EEvents(k, nsubs, down int) []core.Event {
	var evs []core.Event
	half := nsubs / 2
	if down == 0 {
		half = nsubs
	}
	batch := func(from, to int, entries []int) {
		const bs = 25
		for b := from; b <= to; b += bs {
			var subs []int
			for s := b; s < b+bs && s <= to; s++ {
				subs = append(subs, s)
			}
			rot := (b / bs) % len(entries)
			for j := range entries {
				evs = append(evs, core.Event{"op": "serve", "entry": entries[(j+rot)%len(entries)], "subs": subs})
			}
		}
	}
	var all []int
	for i := 1; i <= k; i++ {
		all = append(all, i)
	}
	// the first subscribers of the block are first asked for through a connection that is cut once the request
	// has been delivered (one cut is below every health threshold: all nodes stay healthy in every view)
	ncut := 12
	if ncut > half {
		ncut = half
	}
	var cutSubs []int
	for s := 1; s <= ncut; s++ {
		cutSubs = append(cutSubs, s)
	}
	for _, e := range all {
		evs = append(evs, core.Event{"op": "servecut", "entry": e, "subs": cutSubs[(e-1)*len(cutSubs)/len(all) : e*len(cutSubs)/len(all)]})
	}
	batch(1, half, all)
	if down > 0 {
		evs = append(evs, core.Event{"op": "down", "x": down})
		batch(half+1, nsubs, without(all, down))
		// the second half (served while the node was down, partly by fail-over) is released through the
		// surviving nodes and requested again
		alive := without(all, down)
		for b := half + 1; b <= nsubs; b += 25 {
			var subs []int
			for s := b; s < b+25 && s <= nsubs; s++ {
				subs = append(subs, s)
			}
			evs = append(evs, core.Event{"op": "release", "entry": alive[(b/25)%len(alive)], "subs": subs})
		}
		batch(half+1, nsubs, alive)
	}
	return evs
}
