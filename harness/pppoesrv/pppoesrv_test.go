//go:build verif

package pppoesrv

import (
	"encoding/json"
	"fmt"
	"math/rand"
	"os"
	"testing"

	"verifharness/core"
)

type replayCase struct {
	ID     string         `json:"id"`
	System string         `json:"system"`
	Events []core.Event   `json:"events"`
	Cfg    map[string]any `json:"cfg"`
}
type replayFile struct {
	Cases []replayCase `json:"cases"`
}

type runStats struct {
	Systems     int                `json:"systems"`
	Nodes       int                `json:"nodes"`
	Edges       int                `json:"edges"`
	Chains      int                `json:"chains"`
	ChainEvents int                `json:"chain_events"`
	Closed      int                `json:"closed_systems"`
	Panics      []core.PanicRecord `json:"panics"`
	PerSystem   map[string][3]int  `json:"per_system"`
}

func systems() []*Sys {
	return []*Sys{
		NewSys(false, 2, 2),
		NewSys(true, 2, 2),
		NewSys(true, 3, 3),
	}
}

func findSys(name string) *Sys {
	for _, s := range systems() {
		if s.Name() == name {
			return s
		}
	}
	return nil
}

func TestExplore(t *testing.T) {
	out := core.OutDir()
	if rf := os.Getenv("VERIF_REPLAY"); rf != "" {
		replay(t, rf, out)
		return
	}
	tier, seed := core.Tier(), core.Seed()
	bundle := &core.Bundle{}
	st := runStats{PerSystem: map[string][3]int{}}
	type plan struct {
		s               *Sys
		depth, maxNodes int
	}
	all := systems()
	plans := []plan{{all[0], 4, 1200}, {all[1], 4, 1200}}
	nchains, chainLen := 12, 120
	if tier == "thorough" {
		plans = []plan{{all[0], 6, 15000}, {all[1], 6, 15000}}
		nchains, chainLen = 200, 200
	}
	for _, p := range plans {
		tab, panics, err := core.Explore(p.s, core.ExploreOptions{MaxDepth: p.depth, MaxNodes: p.maxNodes, AdequacySample: 4, Seed: seed})
		if err != nil {
			t.Fatalf("explore %s: %v", p.s.Name(), err)
		}
		st.Panics = append(st.Panics, panics...)
		bundle.Systems = append(bundle.Systems, tab)
		ne := 0
		for _, es := range tab.Edges {
			ne += len(es)
		}
		c := 0
		if tab.Closed {
			c = 1
			st.Closed++
		}
		st.PerSystem[p.s.Name()] = [3]int{len(tab.Nodes), ne, c}
		st.Systems++
		st.Nodes += len(tab.Nodes)
		st.Edges += ne
	}
	rng := rand.New(rand.NewSource(seed))
	for _, s := range []*Sys{all[2], all[0]} {
		evs := s.Events()
		for c := 0; c < nchains; c++ {
			var seqv []core.Event
			for i := 0; i < chainLen; i++ {
				seqv = append(seqv, evs[rng.Intn(len(evs))])
			}
			tab, pr := core.Chain(s, fmt.Sprintf("%s#%d", s.Name(), c), seqv, false)
			if pr != nil {
				st.Panics = append(st.Panics, *pr)
				continue
			}
			bundle.Systems = append(bundle.Systems, tab)
			st.Chains++
			st.ChainEvents += len(seqv)
		}
	}
	// directed: MAC 1 brings a session up step by step; before and after every step the twin MAC (3) and the
	// neighbouring MAC (2) send the same kinds of frame into that session
	{
		ts := all[2]
		ev := func(op string, m, sid int) core.Event { return core.Event{"op": op, "m": m, "sid": sid} }
		var seqv []core.Event
		foreign := func() {
			for _, m := range []int{3, 2} {
				for _, op := range []string{"LCPACK", "PAPGOOD", "IPCPCR", "IPCPACK", "IP", "LCPECHO"} {
					seqv = append(seqv, ev(op, m, 1))
				}
			}
		}
		for _, own := range []core.Event{ev("PADI", 1, 0), ev("PADR", 1, 0), ev("LCPCR", 1, 1), ev("LCPACK", 1, 1), ev("PAPGOOD", 1, 1), ev("IPCPCR", 1, 1), ev("IPCPACK", 1, 1), ev("IP", 1, 1)} {
			seqv = append(seqv, own)
			foreign()
		}
		seqv = append(seqv, ev("LCPTERM", 3, 1), ev("IP", 1, 1), ev("PADT", 3, 1), ev("IP", 1, 1), ev("LCPTERM", 2, 1), ev("PADT", 2, 1), ev("IP", 1, 1))
		tab, pr := core.Chain(ts, ts.Name()+"#twin", seqv, false)
		if pr != nil {
			st.Panics = append(st.Panics, *pr)
		} else {
			bundle.Systems = append(bundle.Systems, tab)
			st.Chains++
			st.ChainEvents += len(seqv)
		}
	}
	// directed: malformed Authenticate-Requests from the owner at every stage of the session's life; nothing
	// that follows them may look like service (no verdict was ever given)
	for _, ts := range all[:2] {
		ev := func(op string, m, sid int) core.Event { return core.Event{"op": op, "m": m, "sid": sid} }
		var seqv []core.Event
		for _, own := range []core.Event{ev("PADI", 1, 0), ev("PADR", 1, 0), ev("LCPCR", 1, 1), ev("LCPACK", 1, 1)} {
			seqv = append(seqv, own, ev("PAPMAL", 1, 1), ev("PAPCUT", 1, 1), ev("IPCPCR", 1, 1), ev("IPCPACK", 1, 1), ev("IP", 1, 1))
		}
		seqv = append(seqv, ev("PADI", 2, 0), ev("PADR", 2, 0), ev("PAPCUT", 2, 2), ev("PAPGOOD", 1, 1), ev("IPCPCR", 2, 2), ev("PAPMAL", 1, 1), ev("IPCPCR", 1, 1), ev("IP", 2, 2))
		tab, pr := core.Chain(ts, ts.Name()+"#malformed-pap", seqv, false)
		if pr != nil {
			st.Panics = append(st.Panics, *pr)
		} else {
			bundle.Systems = append(bundle.Systems, tab)
			st.Chains++
			st.ChainEvents += len(seqv)
		}
	}
	if err := core.WriteJSON(out, "bundle.json", bundle); err != nil {
		t.Fatal(err)
	}
	if err := core.WriteJSON(out, "stats.json", st); err != nil {
		t.Fatal(err)
	}
}

func replay(t *testing.T, file, out string) {
	b, err := os.ReadFile(file)
	if err != nil {
		t.Fatal(err)
	}
	var rf replayFile
	if err := json.Unmarshal(b, &rf); err != nil {
		t.Fatal(err)
	}
	st := runStats{PerSystem: map[string][3]int{}}
	bundle := &core.Bundle{}
	for _, c := range rf.Cases {
		name := c.System
		for i := 0; i < len(name); i++ {
			if name[i] == '#' {
				name = name[:i]
				break
			}
		}
		s := findSys(name)
		if s == nil {
			t.Fatalf("unknown system %q", c.System)
		}
		tab, pr := core.Chain(s, name+"#"+c.ID, c.Events, false)
		if pr != nil {
			st.Panics = append(st.Panics, *pr)
			continue
		}
		bundle.Systems = append(bundle.Systems, tab)
		st.Chains++
	}
	if err := core.WriteJSON(out, "bundle.json", bundle); err != nil {
		t.Fatal(err)
	}
	core.WriteJSON(out, "stats.json", st)
}
