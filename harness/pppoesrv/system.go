//go:build verif

// Package pppoesrv binds the real PPPoE access-concentrator server (pkg/pppoe/server.go) to the
// PppoeSession contract (property C04): frames are injected at the discovery / session
// entry points from an owner or a foreign MAC, RADIUS is a real UDP server scripted per password.
package pppoesrv

import (
	"context"
	"encoding/binary"
	"fmt"
	"net"
	"sort"
	"strings"
	"sync"
	"sync/atomic"
	"time"

	"github.com/codelaboratoryltd/bng/pkg/pppoe"
	bngradius "github.com/codelaboratoryltd/bng/pkg/radius"
	"go.uber.org/zap"
	"layeh.com/radius"
	"layeh.com/radius/rfc2865"

	"verifharness/core"
)

const secret = "verif-secret"

// one scripted RADIUS server for the whole process (password decides the outcome)
var (
	radOnce sync.Once
	radAddr *net.UDPAddr
)

func radiusServer() *net.UDPAddr {
	radOnce.Do(func() {
		pc, err := net.ListenPacket("udp", "127.0.0.1:0")
		if err != nil {
			panic(err)
		}
		radAddr = pc.LocalAddr().(*net.UDPAddr)
		srv := radius.PacketServer{
			SecretSource: radius.StaticSecretSource([]byte(secret)),
			Handler: radius.HandlerFunc(func(w radius.ResponseWriter, r *radius.Request) {
				pw := rfc2865.UserPassword_GetString(r.Packet)
				switch pw {
				case "good":
					w.Write(r.Response(radius.CodeAccessAccept))
				case "chal":
					// a second factor is asked for: neither accepted nor rejected
					w.Write(r.Response(radius.CodeAccessChallenge))
				case "slow":
					// never answers: the client times out
				default:
					w.Write(r.Response(radius.CodeAccessReject))
				}
			}),
		}
		go srv.Serve(pc)
	})
	return radAddr
}

type Sys struct {
	Radius bool // RADIUS configured (else the server accepts every PAP request)
	NMacs  int
	NSids  int
	events []core.Event
}

func NewSys(withRadius bool, nmacs, nsids int) *Sys {
	s := &Sys{Radius: withRadius, NMacs: nmacs, NSids: nsids}
	for m := 1; m <= nmacs; m++ {
		s.events = append(s.events, core.Event{"op": "PADI", "m": m, "sid": 0}, core.Event{"op": "PADR", "m": m, "sid": 0})
		for sid := 1; sid <= nsids; sid++ {
			// PAPMAL: an Authenticate-Request whose peer-id length octet runs past the end of the packet (no verdict can follow)
			ops := []string{"PADT", "LCPCR", "LCPACK", "LCPNAK", "LCPTERM", "LCPECHO", "PAPGOOD", "PAPBAD", "PAPMAL", "IPCPCR", "IPCPACK", "IP"}
			if withRadius {
				ops = append(ops, "PAPSLOW", "PAPCHAL")
			}
			for _, op := range ops {
				s.events = append(s.events, core.Event{"op": op, "m": m, "sid": sid})
			}
		}
	}
	return s
}

func (s *Sys) Name() string {
	return fmt.Sprintf("pppoe.Server/radius=%v/m%d/s%d", s.Radius, s.NMacs, s.NSids)
}
func (s *Sys) Config() map[string]any {
	return map[string]any{"impl": "pppoe.Server", "radius": s.Radius, "nmacs": s.NMacs, "nsids": s.NSids}
}
func (s *Sys) Events() []core.Event { return s.events }

// MACs 1 and 2 differ in the last octet only; MAC 3 is a "twin" of MAC 1 that differs from it in the first two
// octets only (another vendor prefix, same NIC part), so an ownership test that looks at part of the address
// confuses it with one of the others whichever part that is.
func mac(m int) net.HardwareAddr {
	if m == 3 {
		return net.HardwareAddr{0xa6, 0x5e, 0, 0, 0x10, 1}
	}
	return net.HardwareAddr{0x02, 0, 0, 0, 0x10, byte(m)}
}

// macIndex is the inverse of mac.
func macIndex(hw net.HardwareAddr) int {
	if len(hw) == 6 && hw[0] == 0xa6 {
		return 3
	}
	return int(hw[5])
}

var serverMAC = net.HardwareAddr{0x02, 0xaa, 0, 0, 0, 1}

type inst struct {
	s    *Sys
	srv  *pppoe.Server
	sock *pppoe.VerifSocket
	// one receive buffer reused for every frame, exactly like Server.receiveLoop: the source MAC and
	// the payload handed to the handlers are slices of it
	rx [1522]byte
}

// deliver copies the frame into the shared receive buffer and calls the handler with slices of it.
func (in *inst) deliver(src net.HardwareAddr, discovery bool, payload []byte) {
	for i := range in.rx {
		in.rx[i] = 0
	}
	copy(in.rx[0:6], serverMAC)
	copy(in.rx[6:12], src)
	n := 14 + copy(in.rx[14:], payload)
	srcMAC := net.HardwareAddr(in.rx[6:12])
	if discovery {
		in.srv.VerifHandleDiscovery(srcMAC, in.rx[14:n])
	} else {
		in.srv.VerifHandleSession(srcMAC, in.rx[14:n])
	}
}

func (s *Sys) New() core.Instance {
	cfg := pppoe.ServerConfig{Interface: "verif0", ACName: "AC", ServiceName: "internet", ServerIP: "10.64.0.1", ClientPool: "10.64.0.0/28", PoolGateway: "10.64.0.1",
		PrimaryDNS: "9.9.9.9", AuthType: "pap"}
	srv, sock, err := pppoe.NewVerifServer(cfg, zap.NewNop(), &net.Interface{Name: "verif0", HardwareAddr: serverMAC})
	if err != nil {
		panic(err)
	}
	if s.Radius {
		a := radiusServer()
		rc, err := bngradius.NewClient(bngradius.ClientConfig{Servers: []bngradius.ServerConfig{{Host: "127.0.0.1", Port: a.Port, Secret: secret}}, NASID: "verif",
			Timeout: 250 * time.Millisecond, Retries: 1}, zap.NewNop())
		if err != nil {
			panic(err)
		}
		srv.SetRADIUSClient(rc)
	}
	return &inst{s: s, srv: srv, sock: sock}
}

func discovery(code uint8, sid uint16, tags []pppoe.Tag) []byte {
	td := pppoe.SerializeTags(tags)
	h := &pppoe.PPPoEHeader{VerType: 0x11, Code: code, SessionID: sid, Length: uint16(len(td))}
	return append(h.Serialize(), td...)
}

func session(sid uint16, proto uint16, payload []byte) []byte {
	p := make([]byte, 2+len(payload))
	binary.BigEndian.PutUint16(p, proto)
	copy(p[2:], payload)
	h := &pppoe.PPPoEHeader{VerType: 0x11, Code: pppoe.CodeSession, SessionID: sid, Length: uint16(len(p))}
	return append(h.Serialize(), p...)
}

func lcp(code, id uint8, data []byte) []byte {
	return (&pppoe.LCPPacket{Code: code, Identifier: id, Data: data}).Serialize()
}

func pap(id uint8, user, pw string) []byte {
	b := []byte{pppoe.PAPCodeAuthRequest, id, 0, 0, byte(len(user))}
	b = append(b, user...)
	b = append(b, byte(len(pw)))
	b = append(b, pw...)
	binary.BigEndian.PutUint16(b[2:4], uint16(len(b)))
	return b
}

// decode renders the frames the server emitted as short tokens.
func decode(frames [][]byte) []string {
	out := []string{}
	for _, f := range frames {
		if len(f) < 20 {
			out = append(out, "short")
			continue
		}
		dst := net.HardwareAddr(f[0:6])
		et := binary.BigEndian.Uint16(f[12:14])
		h, err := pppoe.ParsePPPoEHeader(f[14:])
		if err != nil {
			out = append(out, "badhdr")
			continue
		}
		to := macIndex(dst)
		if et == pppoe.EtherTypePPPoEDiscovery {
			name := map[uint8]string{pppoe.CodePADO: "PADO", pppoe.CodePADS: "PADS", pppoe.CodePADT: "PADT"}[h.Code]
			out = append(out, fmt.Sprintf("%s/%d/to%d", name, h.SessionID, to))
			continue
		}
		body := f[20:]
		if len(body) < 2 {
			out = append(out, "shortppp")
			continue
		}
		proto := binary.BigEndian.Uint16(body[0:2])
		pl := body[2:]
		code := -1
		if len(pl) > 0 {
			code = int(pl[0])
		}
		pn := map[uint16]string{pppoe.ProtocolLCP: "LCP", pppoe.ProtocolPAP: "PAP", pppoe.ProtocolIPCP: "IPCP", pppoe.ProtocolIP: "IP"}[proto]
		tok := fmt.Sprintf("%s/%d/c%d/to%d", pn, h.SessionID, code, to)
		if proto == pppoe.ProtocolIPCP && (code == pppoe.LCPCodeConfigNak || code == pppoe.LCPCodeConfigAck) {
			if p, err := pppoe.ParseLCPPacket(pl); err == nil {
				if opts, err := pppoe.ParseLCPOptions(p.Data); err == nil {
					for _, o := range opts {
						if o.Type == pppoe.IPCPOptIPAddress && len(o.Data) == 4 && !net.IP(o.Data).Equal(net.IPv4zero) {
							tok += "/ip"
						}
					}
				}
			}
		}
		out = append(out, tok)
	}
	return out
}

func (in *inst) Apply(ev core.Event) map[string]any {
	op := ev["op"].(string)
	m := toInt(ev["m"])
	sid := uint16(toInt(ev["sid"]))
	src := mac(m)
	in.sock.Take()
	before := len(in.srv.VerifSessions())
	// traffic counters of the sessions the sender does not own (not part of the state fingerprint: they grow with
	// every frame of the owner; only whether a FOREIGN frame moves them is reported)
	type ctr struct{ b, p uint64 }
	foreign := map[*pppoe.Session]ctr{}
	for _, ss := range in.srv.VerifSessionManager().GetAllSessions() {
		if ss.ClientMAC.String() != src.String() {
			foreign[ss] = ctr{atomic.LoadUint64(&ss.BytesIn), atomic.LoadUint64(&ss.PacketsIn)}
		}
	}
	switch op {
	case "PADI":
		in.deliver(src, true, discovery(pppoe.CodePADI, 0, []pppoe.Tag{{Type: pppoe.TagServiceName, Value: []byte("internet")}, {Type: pppoe.TagHostUniq, Value: []byte{byte(m)}}}))
	case "PADR":
		in.deliver(src, true, discovery(pppoe.CodePADR, 0, []pppoe.Tag{{Type: pppoe.TagServiceName, Value: []byte("internet")}, {Type: pppoe.TagACCookie, Value: []byte("0123456789abcdef")}}))
		// PADR spawns the LCP Configure-Request in a goroutine: wait for it (PADS + LCP frame)
		if len(in.srv.VerifSessions()) > before {
			deadline := time.Now().Add(2 * time.Second)
			for in.sock.Len() < 2 && time.Now().Before(deadline) {
				time.Sleep(200 * time.Microsecond)
			}
		}
	case "PADT":
		in.deliver(src, true, discovery(pppoe.CodePADT, sid, nil))
	case "LCPCR":
		in.deliver(src, false, session(sid, pppoe.ProtocolLCP, lcp(pppoe.LCPCodeConfigRequest, 7, pppoe.SerializeLCPOptions([]pppoe.LCPOption{{Type: pppoe.LCPOptMRU, Data: []byte{5, 0xd4}}, {Type: pppoe.LCPOptMagicNumber, Data: []byte{1, 2, 3, byte(m)}}}))))
	case "LCPACK":
		in.deliver(src, false, session(sid, pppoe.ProtocolLCP, lcp(pppoe.LCPCodeConfigAck, 1, nil)))
	case "LCPNAK":
		in.deliver(src, false, session(sid, pppoe.ProtocolLCP, lcp(pppoe.LCPCodeConfigNak, 1, pppoe.SerializeLCPOptions([]pppoe.LCPOption{{Type: pppoe.LCPOptMRU, Data: []byte{5, 0xd4}}}))))
	case "LCPTERM":
		in.deliver(src, false, session(sid, pppoe.ProtocolLCP, lcp(pppoe.LCPCodeTermRequest, 9, nil)))
	case "LCPECHO":
		in.deliver(src, false, session(sid, pppoe.ProtocolLCP, lcp(pppoe.LCPCodeEchoRequest, 3, []byte{1, 2, 3, byte(m)})))
	case "PAPGOOD":
		in.deliver(src, false, session(sid, pppoe.ProtocolPAP, pap(1, "user", "good")))
	case "PAPBAD":
		in.deliver(src, false, session(sid, pppoe.ProtocolPAP, pap(2, "user", "bad")))
	case "PAPMAL":
		in.deliver(src, false, session(sid, pppoe.ProtocolPAP, []byte{pppoe.PAPCodeAuthRequest, 6, 0, 8, 200, 'u', 's', 'e'}))
	case "PAPCUT": // only the first five bytes of a good request (chains)
		in.deliver(src, false, session(sid, pppoe.ProtocolPAP, []byte{pppoe.PAPCodeAuthRequest, 7, 0, 5, 4}))
	case "PAPSLOW":
		in.deliver(src, false, session(sid, pppoe.ProtocolPAP, pap(3, "user", "slow")))
	case "PAPCHAL":
		in.deliver(src, false, session(sid, pppoe.ProtocolPAP, pap(4, "user", "chal")))
	case "IPCPCR":
		in.deliver(src, false, session(sid, pppoe.ProtocolIPCP, lcp(pppoe.LCPCodeConfigRequest, 4, pppoe.SerializeLCPOptions([]pppoe.LCPOption{{Type: pppoe.IPCPOptIPAddress, Data: []byte{0, 0, 0, 0}}}))))
	case "IPCPACK":
		in.deliver(src, false, session(sid, pppoe.ProtocolIPCP, lcp(pppoe.LCPCodeConfigAck, 1, nil)))
	case "IP":
		in.deliver(src, false, session(sid, pppoe.ProtocolIP, []byte{0x45, 0, 0, 20, 0, 0, 0, 0, 64, 17, 0, 0, 10, 64, 0, 2, 8, 8, 8, 8}))
	default:
		panic("unknown op " + op)
	}
	toks := decode(in.sock.Take())
	sort.Strings(toks)
	// does the event authenticate by the rules of the property? (RADIUS outcome is the script)
	accept := op == "PAPGOOD" || (!in.s.Radius && (op == "PAPBAD"))
	touched := []int{}
	for ss, c := range foreign {
		if atomic.LoadUint64(&ss.BytesIn) != c.b || atomic.LoadUint64(&ss.PacketsIn) != c.p {
			touched = append(touched, int(ss.ID))
		}
	}
	sort.Ints(touched)
	return map[string]any{"out": toks, "accept": accept, "touched": touched}
}

func toInt(v any) int {
	switch x := v.(type) {
	case int:
		return x
	case float64:
		return int(x)
	}
	return 0
}

// Observe: the session table, per session id 1..NSids+2 (ids are handed out sequentially).
func (in *inst) Observe() map[string]any {
	n := in.s.NSids + 2
	present, owner, state, authed, ip := make([]bool, n), make([]int, n), make([]string, n), make([]bool, n), make([]int, n)
	for i := range owner {
		state[i], ip[i] = "", -1
	}
	for _, ss := range in.srv.VerifSessions() {
		if int(ss.ID) < 1 || int(ss.ID) > n {
			continue
		}
		i := int(ss.ID) - 1
		present[i] = true
		hw, _ := net.ParseMAC(ss.ClientMAC)
		if len(hw) == 6 {
			owner[i] = macIndex(hw)
		}
		state[i] = ss.State
		authed[i] = ss.Authenticated
		if ss.ClientIP != nil {
			if v4 := ss.ClientIP.To4(); v4 != nil {
				ip[i] = int(v4[3])
			}
		}
	}
	return map[string]any{"present": present, "owner": owner, "state": state, "authed": authed, "ip": ip}
}

func (in *inst) Fingerprint() string {
	var parts []string
	for _, ss := range in.srv.VerifSessions() {
		parts = append(parts, fmt.Sprintf("%d:%s:%s:%v:%s", ss.ID, ss.ClientMAC, ss.State, ss.Authenticated, ss.ClientIP))
	}
	sort.Strings(parts)
	sm := in.srv.VerifSessionManager()
	return strings.Join(parts, ";") + "|" + core.Fingerprint(core.Field(sm, "nextID").Interface(), nil) + core.Fingerprint(core.Field(sm, "macToSession").Interface(), nil) +
		"|" + poolFP(in) + "|" + lcpIDs(in)
}

// poolFP renders the address pool with the random per-session keys replaced by session ids.
func poolFP(in *inst) string {
	p := in.srv.VerifPool()
	if p == nil {
		return "nopool"
	}
	byKey := map[string]uint16{}
	for _, ss := range in.srv.VerifSessions() {
		byKey[ss.SessionID] = ss.ID
	}
	var al []string
	it := core.Field(p, "allocated").MapRange()
	for it.Next() {
		k := it.Key().String()
		id, ok := byKey[k]
		name := "stale"
		if ok {
			name = fmt.Sprint(id)
		}
		al = append(al, fmt.Sprintf("%s=%x", name, it.Value().Bytes()))
	}
	sort.Strings(al)
	return strings.Join(al, ",") + "/" + core.Fingerprint(core.Field(p, "available").Interface(), nil)
}

func lcpIDs(in *inst) string {
	var ids []string
	for _, ss := range in.srv.VerifSessionManager().GetAllSessions() {
		ids = append(ids, fmt.Sprintf("%d=%d", ss.ID, ss.LCPIdentifier))
	}
	sort.Strings(ids)
	return strings.Join(ids, ",")
}

func (in *inst) Probe() map[string]any { return nil }
func (in *inst) Close()                {}

var _ = context.Background
