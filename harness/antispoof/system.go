//go:build verif

// Package antispoof binds the Go anti-spoofing control plane (pkg/antispoof) and the TC program
// bpf/antispoof.c (compiled natively) to the AntiSpoof decision contract (property C18): the
// manager writes through cilium/ebpf into real kernel maps, the maps are mirrored into the
// native program, and a fixed battery of frames is judged in every reachable control-plane state.
package antispoof

import (
	"encoding/binary"
	"fmt"
	"net"
	"reflect"
	"sort"
	"strings"
	"sync"

	"github.com/cilium/ebpf"
	as "github.com/codelaboratoryltd/bng/pkg/antispoof"
	"go.uber.org/zap"

	"verifharness/bpfnative"
	"verifharness/core"
)

var (
	DriverPath string
	poolMu     sync.Mutex
	pool       []*bpfnative.Driver
	mapInfos   []bpfnative.MapInfo
)

func getDriver() *bpfnative.Driver {
	poolMu.Lock()
	if n := len(pool); n > 0 {
		d := pool[n-1]
		pool = pool[:n-1]
		poolMu.Unlock()
		if err := d.Reset(); err != nil {
			panic(err)
		}
		return d
	}
	poolMu.Unlock()
	d, err := bpfnative.Start(DriverPath)
	if err != nil {
		panic(err)
	}
	return d
}
func putDriver(d *bpfnative.Driver) { poolMu.Lock(); pool = append(pool, d); poolMu.Unlock() }

// addresses used by events and probes
var (
	v4     = []net.IP{nil, net.IPv4(10, 1, 0, 2).To4(), net.IPv4(10, 1, 0, 3).To4()}
	v6     = []net.IP{nil, net.ParseIP("2001:db8:1::2"), net.ParseIP("2001:db8:1::3")}
	ranges = []string{"", "10.1.0.0/24", "10.2.0.0/16"}
)

// Probe is one frame of the battery.
type Probe struct {
	Mac   int    `json:"mac"`
	Fam   string `json:"fam"`   // "4" | "6" | "arp"
	Src   string `json:"src"`   // "a1" | "a2" | "near" | "rev" | "in2" | "out" | "zero"
	Trunc bool   `json:"trunc"` // IP header cut short
	Bare  bool   `json:"bare"`  // the frame ends with the IP header (no payload at all): a complete header, judged like any other frame
	// abstract facts about the source address (the trusted, byte-level part of the harness)
	Addr  int   `json:"addr"`  // index of the bound-address constant it equals (0 = none)
	InRng []int `json:"inrng"` // indices of the configured-range constants containing it
}

func srcV4(kind string) net.IP {
	switch kind {
	case "a1":
		return v4[1]
	case "a2":
		return v4[2]
	case "near": // one bit away from a1
		return net.IPv4(10, 1, 1, 2).To4()
	case "rev": // a1 byte-reversed
		return net.IPv4(2, 0, 1, 10).To4()
	case "in2":
		return net.IPv4(10, 2, 5, 5).To4()
	case "zero": // the value an address field has when nothing was ever bound
		return net.IPv4(0, 0, 0, 0).To4()
	}
	return net.IPv4(172, 16, 0, 9).To4()
}
func srcV6(kind string) net.IP {
	switch kind {
	case "a1":
		return v6[1]
	case "a2":
		return v6[2]
	case "near":
		return net.ParseIP("2001:db8:1::12")
	case "rev":
		ip := make(net.IP, 16)
		for i := range ip {
			ip[i] = v6[1][15-i]
		}
		return ip
	case "zero":
		return net.ParseIP("::")
	}
	return net.ParseIP("2001:db8:ffff::9")
}

func probes(nmacs int) []Probe {
	var out []Probe
	for m := 1; m <= nmacs+1; m++ { // one MAC beyond the managed ones: never has a binding
		for _, s := range []string{"a1", "a2", "near", "rev", "in2", "out", "zero"} {
			p := Probe{Mac: m, Fam: "4", Src: s, InRng: []int{}}
			ip := srcV4(s)
			for i := 1; i < len(v4); i++ {
				if ip.Equal(v4[i]) {
					p.Addr = i
				}
			}
			for i := 1; i < len(ranges); i++ {
				_, n, _ := net.ParseCIDR(ranges[i])
				if n.Contains(ip) {
					p.InRng = append(p.InRng, i)
				}
			}
			out = append(out, p)
		}
		for _, s := range []string{"a1", "a2", "near", "rev", "out", "zero"} {
			p := Probe{Mac: m, Fam: "6", Src: s, InRng: []int{}}
			ip := srcV6(s)
			for i := 1; i < len(v6); i++ {
				if ip.Equal(v6[i]) {
					p.Addr = i
				}
			}
			out = append(out, p)
		}
		// header-only frames (IPv4 total length 20, IPv6 payload length 0 / no next header): source known and foreign
		for _, b := range out[len(out)-13:] {
			if b.Src == "a1" || b.Src == "near" || b.Src == "out" {
				b.Bare = true
				out = append(out, b)
			}
		}
		out = append(out, Probe{Mac: m, Fam: "arp", Src: "a1", InRng: []int{}}, Probe{Mac: m, Fam: "4", Src: "a1", Trunc: true, Addr: 1, InRng: []int{1}},
			Probe{Mac: m, Fam: "6", Src: "a1", Trunc: true, Addr: 1, InRng: []int{}})
	}
	return out
}

func macOf(m int) net.HardwareAddr { return net.HardwareAddr{0x02, 0x11, 0x22, 0x33, 0x44, byte(m)} }

func frame(p Probe) []byte {
	eth := make([]byte, 14)
	copy(eth[0:6], []byte{0x02, 0xff, 0, 0, 0, 1})
	copy(eth[6:12], macOf(p.Mac))
	switch p.Fam {
	case "4":
		binary.BigEndian.PutUint16(eth[12:], 0x0800)
		ip := make([]byte, 28)
		ip[0], ip[8], ip[9] = 0x45, 64, 17
		binary.BigEndian.PutUint16(ip[2:], 28)
		copy(ip[12:16], srcV4(p.Src))
		copy(ip[16:20], net.IPv4(8, 8, 8, 8).To4())
		if p.Trunc {
			ip = ip[:10]
		} else if p.Bare {
			ip = ip[:20]
			binary.BigEndian.PutUint16(ip[2:], 20)
		}
		return append(eth, ip...)
	case "6":
		binary.BigEndian.PutUint16(eth[12:], 0x86dd)
		ip := make([]byte, 48)
		ip[0], ip[6], ip[7] = 0x60, 17, 64
		binary.BigEndian.PutUint16(ip[4:], 8)
		copy(ip[8:24], srcV6(p.Src))
		copy(ip[24:40], net.ParseIP("2001:4860:4860::8888"))
		if p.Trunc {
			ip = ip[:20]
		} else if p.Bare {
			ip = ip[:40]
			ip[6] = 59
			binary.BigEndian.PutUint16(ip[4:], 0)
		}
		return append(eth, ip...)
	}
	binary.BigEndian.PutUint16(eth[12:], 0x0806)
	return append(eth, make([]byte, 28)...)
}

type Sys struct {
	NoConfig bool // the loaded BPF object lacks the optional antispoof_config map
	NMacs    int
	probes   []Probe
	events   []core.Event
}

func NewSys(nmacs int) *Sys {
	s := &Sys{NMacs: nmacs, probes: probes(nmacs)}
	for m := 0; m <= 3; m++ {
		s.events = append(s.events, core.Event{"op": "SETMODE", "mac": 0, "a": m})
	}
	for mc := 1; mc <= nmacs; mc++ {
		for a := 1; a <= 2; a++ {
			s.events = append(s.events, core.Event{"op": "ADD4", "mac": mc, "a": a}, core.Event{"op": "ADD6", "mac": mc, "a": a})
		}
		s.events = append(s.events, core.Event{"op": "DEL", "mac": mc, "a": 0})
	}
	for r := 1; r < len(ranges); r++ {
		s.events = append(s.events, core.Event{"op": "RANGE", "mac": 0, "a": r})
	}
	return s
}
func (s *Sys) Name() string {
	if s.NoConfig {
		return fmt.Sprintf("antispoof-noconfig/m%d", s.NMacs)
	}
	return fmt.Sprintf("antispoof/m%d", s.NMacs)
}
func (s *Sys) Config() map[string]any {
	return map[string]any{"impl": "antispoof.Manager+antispoof.c", "nmacs": s.NMacs, "probes": s.probes, "initmode": 1, "noconfig": s.NoConfig}
}
func (s *Sys) Events() []core.Event { return s.events }

type inst struct {
	s    *Sys
	mgr  *as.Manager
	drv  *bpfnative.Driver
	maps map[string]*ebpf.Map
	last map[string][][2][]byte
}

func (s *Sys) New() core.Instance {
	mgr, err := as.NewManager(as.ManagerConfig{Interface: "verif0", DefaultMode: as.ModeStrict, LogEnabled: true}, zap.NewNop())
	if err != nil {
		panic(err)
	}
	in := &inst{s: s, mgr: mgr, drv: getDriver(), maps: map[string]*ebpf.Map{}, last: map[string][][2][]byte{}}
	// real kernel maps with the sizes the C program declares, handed to the manager
	fields := map[string]string{"subscriber_bindings": "bindings", "antispoof_config": "config", "allowed_ranges_v4": "ranges"}
	for _, mi := range mapInfos {
		f, ok := fields[mi.Name]
		if !ok || (s.NoConfig && f == "config") {
			continue
		}
		km, err := bpfnative.NewKernelMap(mi)
		if err != nil {
			panic(fmt.Sprintf("cannot create kernel map %s: %v", mi.Name, err))
		}
		in.maps[mi.Name] = km
		core.Field(mgr, f).Set(reflect.ValueOf(km))
	}
	// Manager.Start writes the default configuration exactly like SetMode(mode) does
	if err := mgr.SetMode(as.ModeStrict); err != nil {
		panic(err)
	}
	return in
}

func (in *inst) Apply(ev core.Event) map[string]any {
	op := ev["op"].(string)
	mc := toInt(ev["mac"])
	a := toInt(ev["a"])
	var err error
	switch op {
	case "SETMODE":
		err = in.mgr.SetMode(as.Mode(a))
	case "ADD4":
		err = in.mgr.AddBinding(macOf(mc), v4[a])
	case "ADD6":
		err = in.mgr.AddBindingV6(macOf(mc), v6[a])
	case "DEL":
		err = in.mgr.RemoveBinding(macOf(mc))
	case "RANGE":
		_, n, _ := net.ParseCIDR(ranges[a])
		if a == 2 {
			// the same network as a pool configured by address and prefix length yields it: the address in its 16-byte form
			ones, _ := n.Mask.Size()
			n = &net.IPNet{IP: net.ParseIP(n.IP.String()), Mask: net.CIDRMask(ones, 32)}
		}
		err = in.mgr.AddAllowedRange(n)
	default:
		panic("unknown op " + op)
	}
	es := ""
	if err != nil {
		es = err.Error()
	}
	return map[string]any{"ok": err == nil, "err": es}
}

func toInt(v any) int {
	switch x := v.(type) {
	case int:
		return x
	case float64:
		return int(x)
	}
	return 0
}

func (in *inst) mirror() {
	for name, km := range in.maps {
		cur, err := in.drv.Mirror(name, km, in.last[name])
		if err != nil {
			panic(err)
		}
		in.last[name] = cur
	}
}

// Observe runs the whole frame battery through the native TC program on the mirrored maps.
func (in *inst) Observe() map[string]any {
	in.mirror()
	verdict := make([]int, len(in.s.probes))
	unmod := make([]bool, len(in.s.probes))
	for i, p := range in.s.probes {
		f := frame(p)
		v, after, _, err := in.drv.Run("ingress", f, 0)
		if err != nil {
			panic(err)
		}
		verdict[i] = v
		unmod[i] = string(after) == string(f)
	}
	return map[string]any{"verdict": verdict, "unmod": unmod}
}

func (in *inst) Fingerprint() string {
	var parts []string
	for name, km := range in.maps {
		d, err := bpfnative.Dump(km)
		if err != nil {
			panic(err)
		}
		var es []string
		for _, kv := range d {
			es = append(es, fmt.Sprintf("%x=%x", kv[0], kv[1]))
		}
		sort.Strings(es)
		parts = append(parts, name+":"+strings.Join(es, ","))
	}
	sort.Strings(parts)
	return strings.Join(parts, "|") + "|mode=" + fmt.Sprint(core.Field(in.mgr, "mode").Uint())
}

func (in *inst) Probe() map[string]any { return nil }
func (in *inst) Close() {
	for _, km := range in.maps {
		km.Close()
	}
	putDriver(in.drv)
}
