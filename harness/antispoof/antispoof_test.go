//go:build verif

package antispoof

import (
	"encoding/json"
	"fmt"
	"math/rand"
	"os"
	"strings"
	"testing"

	"verifharness/bpfnative"
	"verifharness/core"
)

type replayCase struct {
	ID     string       `json:"id"`
	System string       `json:"system"`
	Events []core.Event `json:"events"`
}
type replayFile struct {
	Cases []replayCase `json:"cases"`
}
type runStats struct {
	Systems     int                `json:"systems"`
	Nodes       int                `json:"nodes"`
	Edges       int                `json:"edges"`
	Chains      int                `json:"chains"`
	ChainEvents int                `json:"chain_events"`
	Closed      int                `json:"closed_systems"`
	Probes      int                `json:"probe_evaluations"`
	Panics      []core.PanicRecord `json:"panics"`
}

func setup(t *testing.T, out string) {
	p, err := bpfnative.Build("antispoof", out)
	if err != nil {
		t.Fatal(err)
	}
	DriverPath = p
	d, err := bpfnative.Start(p)
	if err != nil {
		t.Fatal(err)
	}
	mapInfos, err = d.Maps()
	if err != nil {
		t.Fatal(err)
	}
	putDriver(d)
}

func TestExplore(t *testing.T) {
	out := core.OutDir()
	setup(t, out)
	tier, seed := core.Tier(), core.Seed()
	bundle := &core.Bundle{}
	st := runStats{}
	if rf := os.Getenv("VERIF_REPLAY"); rf != "" {
		b, err := os.ReadFile(rf)
		if err != nil {
			t.Fatal(err)
		}
		var f replayFile
		if err := json.Unmarshal(b, &f); err != nil {
			t.Fatal(err)
		}
		for _, c := range f.Cases {
			s := NewSys(2)
			s.NoConfig = strings.HasPrefix(c.System, "antispoof-noconfig")
			tab, pr := core.Chain(s, s.Name()+"#"+c.ID, c.Events, false)
			if pr != nil {
				st.Panics = append(st.Panics, *pr)
				continue
			}
			bundle.Systems = append(bundle.Systems, tab)
			st.Chains++
		}
	} else {
		depth, maxNodes, nchains, chainLen := 3, 1500, 10, 60
		if tier == "thorough" {
			depth, maxNodes, nchains, chainLen = 5, 30000, 100, 150
		}
		s := NewSys(2)
		tab, panics, err := core.Explore(s, core.ExploreOptions{MaxDepth: depth, MaxNodes: maxNodes, AdequacySample: 3, Seed: seed, Workers: 8})
		if err != nil {
			t.Fatalf("explore: %v", err)
		}
		st.Panics = append(st.Panics, panics...)
		bundle.Systems = append(bundle.Systems, tab)
		st.Systems, st.Nodes = 1, len(tab.Nodes)
		for _, es := range tab.Edges {
			st.Edges += len(es)
		}
		if tab.Closed {
			st.Closed = 1
		}
		st.Probes = len(tab.Nodes) * len(s.probes)
		rng := rand.New(rand.NewSource(seed))
		evs := s.Events()
		// the object without the optional config map: mode changes reach the data plane only through bindings
		nc := NewSys(2)
		nc.NoConfig = true
		for c := 0; c < nchains; c++ {
			var seqv []core.Event
			for i := 0; i < chainLen; i++ {
				seqv = append(seqv, evs[rng.Intn(len(evs))])
			}
			tab, pr := core.Chain(nc, fmt.Sprintf("%s#%d", nc.Name(), c), seqv, false)
			if pr != nil {
				st.Panics = append(st.Panics, *pr)
				continue
			}
			bundle.Systems = append(bundle.Systems, tab)
			st.Chains++
			st.ChainEvents += len(seqv)
			st.Probes += len(seqv) * len(nc.probes)
		}
		for c := 0; c < nchains; c++ {
			var seqv []core.Event
			for i := 0; i < chainLen; i++ {
				seqv = append(seqv, evs[rng.Intn(len(evs))])
			}
			tab, pr := core.Chain(s, fmt.Sprintf("%s#%d", s.Name(), c), seqv, false)
			if pr != nil {
				st.Panics = append(st.Panics, *pr)
				continue
			}
			bundle.Systems = append(bundle.Systems, tab)
			st.Chains++
			st.ChainEvents += len(seqv)
			st.Probes += len(seqv) * len(s.probes)
		}
	}
	if err := core.WriteJSON(out, "bundle.json", bundle); err != nil {
		t.Fatal(err)
	}
	if err := core.WriteJSON(out, "stats.json", st); err != nil {
		t.Fatal(err)
	}
}
