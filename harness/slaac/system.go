//go:build verif

// Package slaac binds the real router-advertisement daemon of /repo (pkg/slaac/radvd.go) to the Slaac contract (extra
// family X15). The test binary re-executes itself in a private network namespace holding one veth pair: the daemon
// runs on x15a with the socket its own Start creates (raw ICMPv6), and the harness reads what arrives on x15b from a
// raw socket with IPV6_RECVHOPLIMIT - so what is judged is the datagram as the kernel put it on the link (bytes, hop
// limit, destination), not the buffer buildRA returned. Systems of kind "hook" live in a testing/synctest bubble
// (periodic sender on the virtual clock; started with VerifStart = Start without the receive loop, solicitations
// delivered with VerifRS); the send instants are the virtual-clock time stamps of the daemon's own log entries.
// Systems of kind "wire" use the real Start / receiveLoop / Stop in real time and real Router Solicitations.
package slaac

import (
	"context"
	"encoding/binary"
	"fmt"
	"math/rand"
	"net"
	"os"
	"os/exec"
	"reflect"
	"runtime"
	"sort"
	"strings"
	"sync"
	"sync/atomic"
	"syscall"
	"testing"
	"testing/synctest"
	"time"
	"unsafe"

	sl "github.com/codelaboratoryltd/bng/pkg/slaac"
	"go.uber.org/zap"
	"go.uber.org/zap/zapcore"

	"verifharness/core"
)

var theT *testing.T
var infraErr atomic.Value // string: an infrastructure problem seen inside a replay (reported by TestExplore, never a verdict)

const (
	ifA = "x15a" // the daemon's interface
	ifB = "x15b" // the harness listens here
)

// ---------------------------------------------------------------------------------------------------------------
// private network namespace

func sysctl(path, v string) { os.WriteFile("/proc/sys/net/ipv6/conf/"+path, []byte(v), 0o644) }

// SetupNetns builds the veth pair inside the (already private) namespace.
func SetupNetns() error {
	run := func(a ...string) error {
		out, err := exec.Command("ip", a...).CombinedOutput()
		if err != nil {
			return fmt.Errorf("ip %s: %v: %s", strings.Join(a, " "), err, out)
		}
		return nil
	}
	sysctl("default/accept_dad", "0")
	sysctl("default/dad_transmits", "0")
	sysctl("default/accept_ra", "0")
	sysctl("all/accept_ra", "0")
	if err := run("link", "set", "lo", "up"); err != nil {
		return err
	}
	if err := run("link", "add", ifA, "type", "veth", "peer", "name", ifB); err != nil {
		return err
	}
	for _, i := range []string{ifA, ifB} {
		sysctl(i+"/accept_dad", "0")
		sysctl(i+"/dad_transmits", "0")
		sysctl(i+"/accept_ra", "0")
		sysctl(i+"/router_solicitations", "0")
		if err := run("link", "set", i, "up"); err != nil {
			return err
		}
	}
	// wait for usable link-local addresses on both ends
	for n := 0; n < 300; n++ {
		b, _ := os.ReadFile("/proc/net/if_inet6")
		ok := 0
		for _, l := range strings.Split(string(b), "\n") {
			f := strings.Fields(l)
			if len(f) == 6 && strings.HasPrefix(f[0], "fe80") && (f[5] == ifA || f[5] == ifB) {
				var fl int
				fmt.Sscanf(f[4], "%x", &fl)
				if fl&0x40 == 0 { // not tentative
					ok++
				}
			}
		}
		if ok >= 2 {
			return nil
		}
		syscall.Nanosleep(&syscall.Timespec{Nsec: 10e6}, nil)
	}
	return fmt.Errorf("no link-local addresses on %s/%s", ifA, ifB)
}

// ---------------------------------------------------------------------------------------------------------------
// the sink: a raw ICMPv6 socket bound to x15b

type sink struct {
	fd  int
	idx int
}

type pkt struct {
	b   []byte
	hop int
	dst net.IP
}

func newSink() (*sink, error) {
	fd, err := syscall.Socket(syscall.AF_INET6, syscall.SOCK_RAW|syscall.SOCK_NONBLOCK|syscall.SOCK_CLOEXEC, syscall.IPPROTO_ICMPV6)
	if err != nil {
		return nil, err
	}
	ifi, err := net.InterfaceByName(ifB)
	if err != nil {
		return nil, err
	}
	for _, o := range [][3]int{{syscall.IPPROTO_IPV6, syscall.IPV6_RECVHOPLIMIT, 1}, {syscall.IPPROTO_IPV6, syscall.IPV6_RECVPKTINFO, 1},
		{syscall.IPPROTO_IPV6, syscall.IPV6_MULTICAST_HOPS, 255}, {syscall.IPPROTO_IPV6, syscall.IPV6_MULTICAST_IF, ifi.Index},
		{syscall.IPPROTO_IPV6, syscall.IPV6_MULTICAST_LOOP, 0}, {syscall.SOL_SOCKET, syscall.SO_RCVBUF, 4 << 20}} {
		if err := syscall.SetsockoptInt(fd, o[0], o[1], o[2]); err != nil {
			return nil, fmt.Errorf("setsockopt %v: %v", o, err)
		}
	}
	if err := syscall.SetsockoptString(fd, syscall.SOL_SOCKET, syscall.SO_BINDTODEVICE, ifB); err != nil {
		return nil, err
	}
	return &sink{fd: fd, idx: ifi.Index}, nil
}

func (s *sink) close() { syscall.Close(s.fd) }

// drain returns the ICMPv6 datagrams queued on x15b that are not the kernel's own (MLD, neighbour discovery).
func (s *sink) drain() []pkt {
	var out []pkt
	buf := make([]byte, 4096)
	oob := make([]byte, 512)
	for {
		n, oobn, _, _, err := syscall.Recvmsg(s.fd, buf, oob, 0)
		if err != nil {
			if os.Getenv("X15_DEBUG") != "" {
				fmt.Fprintf(os.Stderr, "drain: %v (%d so far)\n", err, len(out))
			}
			return out
		}
		if os.Getenv("X15_DEBUG") != "" {
			fmt.Fprintf(os.Stderr, "pkt: %d bytes type %d\n", n, buf[0])
		}
		p := pkt{b: append([]byte{}, buf[:n]...), hop: -1}
		if cms, err := syscall.ParseSocketControlMessage(oob[:oobn]); err == nil {
			for _, cm := range cms {
				if cm.Header.Level == syscall.IPPROTO_IPV6 && cm.Header.Type == syscall.IPV6_HOPLIMIT && len(cm.Data) >= 4 {
					p.hop = int(*(*int32)(unsafe.Pointer(&cm.Data[0])))
				}
				if cm.Header.Level == syscall.IPPROTO_IPV6 && cm.Header.Type == syscall.IPV6_PKTINFO && len(cm.Data) >= 16 {
					p.dst = append(net.IP{}, cm.Data[:16]...)
				}
			}
		}
		if n >= 1 {
			switch p.b[0] {
			case 130, 131, 132, 143, 135, 136, 133: // MLD, NS/NA, RS: the kernel's own chatter and the harness' solicitations
				continue
			}
		}
		out = append(out, p)
	}
}

// waitReadable blocks the OS thread (real time, not the bubble's clock) until the socket is readable or ms elapsed.
func (s *sink) waitReadable(ms int) bool {
	var fds syscall.FdSet
	fds.Bits[s.fd/64] |= 1 << (uint(s.fd) % 64)
	tv := syscall.Timeval{Sec: int64(ms / 1000), Usec: int64(ms%1000) * 1000}
	n, _ := syscall.Select(s.fd+1, &fds, nil, nil, &tv)
	return n > 0
}

func (s *sink) sendRS() error {
	sa := &syscall.SockaddrInet6{ZoneId: uint32(s.idx)}
	copy(sa.Addr[:], net.ParseIP("ff02::2").To16())
	return syscall.Sendto(s.fd, []byte{133, 0, 0, 0, 0, 0, 0, 0}, 0, sa)
}

// ---------------------------------------------------------------------------------------------------------------
// log capture: the daemon's own "Sent Router Advertisement" / "Failed to send RA" entries with the (virtual) clock

type logCore struct {
	mu     sync.Mutex
	sent   []time.Time
	failed []time.Time
}

func (c *logCore) Enabled(zapcore.Level) bool        { return true }
func (c *logCore) With([]zapcore.Field) zapcore.Core { return c }
func (c *logCore) Check(e zapcore.Entry, ce *zapcore.CheckedEntry) *zapcore.CheckedEntry {
	return ce.AddCore(e, c)
}
func (c *logCore) Write(e zapcore.Entry, _ []zapcore.Field) error {
	c.mu.Lock()
	defer c.mu.Unlock()
	switch e.Message {
	case "Sent Router Advertisement":
		c.sent = append(c.sent, e.Time)
	case "Failed to send RA":
		c.failed = append(c.failed, e.Time)
	}
	return nil
}
func (c *logCore) Sync() error { return nil }
func (c *logCore) take() ([]time.Time, []time.Time) {
	c.mu.Lock()
	defer c.mu.Unlock()
	s, f := c.sent, c.failed
	c.sent, c.failed = nil, nil
	return s, f
}
func (c *logCore) count() int {
	c.mu.Lock()
	defer c.mu.Unlock()
	return len(c.sent) + len(c.failed)
}

// ---------------------------------------------------------------------------------------------------------------
// system

// SSystem is one configuration of the daemon.
type SSystem struct {
	name      string
	Kind      string // "hook": synctest bubble; "wire": real Start / receiveLoop in real time
	MinS      int    // Config.MinRAInterval in seconds (0 = leave unset)
	MaxS      int
	Managed   bool
	Other     bool
	MTU       int
	Life      int   // Config.DefaultLifetime
	CfgP      []int // prefixes given in Config.Prefixes (indices)
	DNS       int   // number of IPv6 DNS servers configured (plus one IPv4 address, which must be left out)
	Dom       int   // number of search domains
	Ops       []string
	Advs      []int // seconds
	PIdx      []int // prefix indices used by addp / rmp
	MaxStarts int
	Hop       bool // judge the hop limit here (a property of every advertisement: judged in a few systems only, so that it does not colour every other finding)
	ImmEarly  bool // SendImmediateRA is also called on a server that was never started
}

func (s *SSystem) Name() string { return s.name }

func (s *SSystem) kind() string {
	if s.Kind == "" {
		return "hook"
	}
	return s.Kind
}

func (s *SSystem) ops() []string {
	if len(s.Ops) > 0 {
		return s.Ops
	}
	return []string{"start", "stop", "rs", "imm", "adv"}
}

func (s *SSystem) maxStarts() int {
	if s.MaxStarts > 0 {
		return s.MaxStarts
	}
	return 2
}

func (s *SSystem) effMin() int {
	if s.MinS == 0 {
		return 200
	}
	return s.MinS
}
func (s *SSystem) effMax() int {
	if s.MaxS == 0 {
		return 600
	}
	return s.MaxS
}

// prefix variants handed to AddPrefix
type pvar struct {
	l, a        bool
	valid, pref uint32
}

var pvars = []pvar{{true, true, 7200, 3600}, {false, false, 120, 60}, {true, false, 4294967295, 4294967295}}

func prefixRec(p, plen int, l, a bool, valid, pref uint32) map[string]any {
	// lifetimes are handed to TLC in two 16-bit halves (TLC integers are 32-bit signed)
	return map[string]any{"p": p, "plen": plen, "l": l, "a": a, "vh": int(valid >> 16), "vl": int(valid & 0xffff), "ph": int(pref >> 16), "pl": int(pref & 0xffff)}
}

func (s *SSystem) Config() map[string]any {
	impl := s.name
	if i := strings.IndexAny(impl, "#"); i > 0 {
		impl = impl[:i]
	}
	cfgp := []any{}
	for _, p := range s.CfgP {
		cfgp = append(cfgp, prefixRec(p, 64, true, !s.Managed, 2592000, 604800))
	}
	dns := []any{}
	for i := 1; i <= s.DNS; i++ {
		dns = append(dns, i)
	}
	return map[string]any{"impl": impl, "kind": s.kind(), "min_ms": s.effMin() * 1000, "max_ms": s.effMax() * 1000, "tol_ms": 1, "hop": s.Hop, "immearly": s.ImmEarly,
		"managed": s.Managed, "other": s.Other, "mtu": s.MTU, "life": s.Life, "cfgp": cfgp, "dns": dns, "ndom": s.Dom, "nsubs": 0,
		// to rebuild the system from a replay file
		"mins": s.MinS, "maxs": s.MaxS, "cfgpi": intsAny(s.CfgP), "ops": strsAny(s.ops()), "advs": intsAny(s.Advs), "pidx": intsAny(s.PIdx), "maxstarts": s.maxStarts()}
}

func intsAny(l []int) []any {
	o := []any{}
	for _, v := range l {
		o = append(o, v)
	}
	return o
}
func strsAny(l []string) []any {
	o := []any{}
	for _, v := range l {
		o = append(o, v)
	}
	return o
}

func toInt(v any) int {
	switch x := v.(type) {
	case int:
		return x
	case int64:
		return int(x)
	case float64:
		return int(x)
	case bool:
		if x {
			return 1
		}
	}
	return 0
}

func fromCfg(name string, c map[string]any) *SSystem {
	if c == nil || c["kind"] == nil {
		return nil
	}
	s := &SSystem{name: name, Kind: fmt.Sprint(c["kind"]), MinS: toInt(c["mins"]), MaxS: toInt(c["maxs"]), Managed: c["managed"] == true, Other: c["other"] == true,
		MTU: toInt(c["mtu"]), Life: toInt(c["life"]), Dom: toInt(c["ndom"]), MaxStarts: toInt(c["maxstarts"]), Hop: c["hop"] == true, ImmEarly: c["immearly"] == true}
	if l, ok := c["dns"].([]any); ok {
		s.DNS = len(l)
	}
	for _, f := range []struct {
		k string
		d *[]int
	}{{"cfgpi", &s.CfgP}, {"advs", &s.Advs}, {"pidx", &s.PIdx}} {
		if l, ok := c[f.k].([]any); ok {
			for _, v := range l {
				*f.d = append(*f.d, toInt(v))
			}
		}
	}
	if l, ok := c["ops"].([]any); ok {
		for _, v := range l {
			s.Ops = append(s.Ops, fmt.Sprint(v))
		}
	}
	return s
}

func mk(op string, p, v, dt int) core.Event { return core.Event{"op": op, "p": p, "v": v, "dt": dt} }

func (s *SSystem) Events() []core.Event {
	var evs []core.Event
	for _, op := range s.ops() {
		switch op {
		case "adv":
			advs := s.Advs
			if len(advs) == 0 {
				advs = []int{1}
			}
			for _, d := range advs {
				evs = append(evs, mk("adv", 0, 0, d))
			}
		case "addp":
			for i, p := range s.PIdx {
				evs = append(evs, mk("addp", p, i%len(pvars), 0))
			}
		case "rmp":
			for _, p := range s.PIdx {
				evs = append(evs, mk("rmp", p, 0, 0))
			}
			for _, p := range s.CfgP {
				evs = append(evs, mk("rmp", p, 0, 0))
			}
		default:
			evs = append(evs, mk(op, 0, 0, 0))
		}
	}
	return evs
}

var wraps int

// Wrap runs one replay inside its own bubble (bubbles strictly one after the other); wire systems run in real time.
func (s *SSystem) Wrap(f func()) {
	if s.kind() == "wire" {
		f()
		return
	}
	wraps++
	if wraps%2000 == 0 {
		runtime.GC()
	}
	synctest.Test(theT, func(t *testing.T) { f() })
}

func prefixCIDR(p int) string { return fmt.Sprintf("2001:db8:%x::/64", p) }
func dnsAddr(i int) string    { return fmt.Sprintf("2001:4860:4860::%x", 0x8800+i) }

type inst struct {
	s       *SSystem
	srv     *sl.Server
	lc      *logCore
	snk     *sink
	t0      time.Time
	cancels []context.CancelFunc
	starts  int
	started bool // between a successful start and the next stop (what the harness did, for the alphabet restriction only)
	mac     net.HardwareAddr
	hist    []string
}

func (s *SSystem) New() core.Instance {
	rand.Seed(424242) // the daemon draws its intervals from math/rand's global source (//go:debug randseednop=0 in the test file)
	in := &inst{s: s, lc: &logCore{}}
	snk, err := newSink()
	if err != nil {
		infra("sink: %v", err)
		panic(err)
	}
	in.snk = snk
	cfg := sl.Config{Interface: ifA, MTU: uint32(s.MTU), Managed: s.Managed, Other: s.Other, DefaultLifetime: uint16(s.Life),
		MinRAInterval: time.Duration(s.MinS) * time.Second, MaxRAInterval: time.Duration(s.MaxS) * time.Second}
	for _, p := range s.CfgP {
		cfg.Prefixes = append(cfg.Prefixes, prefixCIDR(p))
	}
	for i := 1; i <= s.DNS; i++ {
		cfg.DNSServers = append(cfg.DNSServers, dnsAddr(i))
	}
	if s.DNS > 0 {
		cfg.DNSServers = append(cfg.DNSServers, "8.8.8.8")
	}
	for i := 1; i <= s.Dom; i++ {
		cfg.DNSDomains = append(cfg.DNSDomains, fmt.Sprintf("d%d.example.net", i))
	}
	srv, err := sl.NewServer(cfg, zap.New(in.lc))
	if err != nil {
		infra("NewServer: %v", err)
		panic(err)
	}
	in.srv = srv
	if ifi, err := net.InterfaceByName(ifA); err == nil {
		in.mac = ifi.HardwareAddr
	}
	in.t0 = time.Now()
	in.snk.drain()
	return in
}

func infra(f string, a ...any) {
	if infraErr.Load() == nil {
		infraErr.Store(fmt.Sprintf(f, a...))
	}
}

func (in *inst) Close() {
	for _, c := range in.cancels {
		c()
	}
	if in.started {
		in.srv.Stop()
	}
	if in.s.kind() == "hook" {
		synctest.Wait()
	} else if in.starts > 0 {
		// the real receive loop leaves within its one-second read deadline; nothing to wait for (it only reads)
	}
	in.snk.close()
}

func (in *inst) settle() {
	if in.s.kind() == "hook" {
		synctest.Wait()
	}
}

func (in *inst) nowMs() int {
	if in.s.kind() == "wire" {
		return 0
	}
	return int(time.Since(in.t0) / time.Millisecond)
}

func (in *inst) prefixesNow() []string {
	var out []string
	mu := core.Field(in.srv, "mu").Addr().Interface().(*sync.RWMutex)
	mu.RLock()
	defer mu.RUnlock()
	v := core.Field(in.srv, "prefixes")
	for i := 0; i < v.Len(); i++ {
		pc := v.Index(i).Interface().(sl.PrefixConfig)
		out = append(out, pc.Prefix.String())
	}
	return out
}

func (in *inst) running() bool { return core.Field(in.srv, "running").Int() == 1 }

// collect gathers what the step put on the link and pairs it with the daemon's own send log (time stamps).
func (in *inst) collect(op string, ts time.Time) ([]any, int) {
	ras, f := in.collect2(op, ts)
	return ras, len(f)
}

func (in *inst) collect2(op string, ts time.Time) ([]any, []time.Time) {
	in.settle()
	sent, failed := in.lc.take()
	pk := in.snk.drain()
	if in.s.kind() == "wire" {
		sent = nil // real goroutines: the log entry may trail the datagram; only the link is looked at
	}
	for tries := 0; len(pk) < len(sent) && tries < 100; tries++ {
		in.snk.waitReadable(10)
		pk = append(pk, in.snk.drain()...)
	}
	if len(pk) < len(sent) {
		infra("%s: the daemon logged %d sends but %d datagrams reached %s (step %s, history %v)", in.s.name, len(sent), len(pk), ifB, op, in.hist)
	}
	ras := []any{}
	for i, p := range pk {
		t := 0 // instants are relative to the start of the step
		if in.s.kind() == "hook" {
			t = int(time.Since(ts) / time.Millisecond)
			if i < len(sent) {
				t = int(sent[i].Sub(ts) / time.Millisecond)
			}
		}
		r := parseRA(p.b, in.mac)
		r["t"] = t
		r["hop"] = p.hop
		switch {
		case p.dst.Equal(net.ParseIP("ff02::1")):
			r["dst"] = "allnodes"
		default:
			r["dst"] = "other"
		}
		ras = append(ras, r)
	}
	return ras, failed
}

func (in *inst) Apply(ev core.Event) map[string]any {
	op := fmt.Sprint(ev["op"])
	in.hist = append(in.hist, op)
	p, v, dt := toInt(ev["p"]), toInt(ev["v"]), toInt(ev["dt"])
	before := in.srv.GetStats()["ras_sent"]
	ts := time.Now()
	res := map[string]any{"skip": false, "err": ""}
	wire := in.s.kind() == "wire"
	awaitLog := func(ms int) { // wire systems: real goroutines, real time - wait for a datagram on the link, then for stragglers
		in.snk.waitReadable(ms)
		syscall.Nanosleep(&syscall.Timespec{Nsec: 30e6}, nil)
	}
	switch op {
	case "start":
		if in.started || in.starts >= in.s.maxStarts() {
			res["skip"] = true
			break
		}
		ctx, cancel := context.WithCancel(context.Background())
		in.cancels = append(in.cancels, cancel)
		var err error
		if wire {
			err = in.srv.Start(ctx)
		} else {
			err = in.srv.VerifStart(ctx)
		}
		if err != nil {
			infra("%s: start: %v", in.s.name, err)
			res["err"] = err.Error()
			break
		}
		in.starts++
		in.started = true
		if wire {
			awaitLog(1000)
		}
	case "stop":
		if err := in.srv.Stop(); err != nil {
			res["err"] = "error"
		}
		in.started = false
		if wire {
			in.snk.waitReadable(30)
		}
	case "rs":
		if wire {
			if !in.started {
				res["skip"] = true // nobody listens: a solicitation on the link reaches no daemon
				break
			}
			if err := in.snk.sendRS(); err != nil {
				infra("%s: sending a router solicitation: %v", in.s.name, err)
			}
			awaitLog(1500)
		} else if !in.started {
			res["skip"] = true // no receive loop before Start / after Stop (`for running == 1`): a solicitation reaches nobody
		} else {
			in.srv.VerifRS(&net.IPAddr{IP: net.ParseIP("fe80::1"), Zone: ifA})
		}
	case "imm":
		if in.starts == 0 && !in.s.ImmEarly {
			res["skip"] = true
			break
		}
		in.srv.SendImmediateRA()
	case "addp":
		have := false
		for _, s := range in.prefixesNow() {
			have = have || s == prefixCIDR(p)
		}
		if have {
			res["skip"] = true
			break
		}
		pv := pvars[v%len(pvars)]
		_, n, _ := net.ParseCIDR(prefixCIDR(p))
		in.srv.AddPrefix(sl.PrefixConfig{Prefix: n, OnLink: pv.l, Autonomous: pv.a, ValidLifetime: pv.valid, PreferredLifetime: pv.pref})
		res["rec"] = prefixRec(p, 64, pv.l, pv.a, pv.valid, pv.pref)
	case "rmp":
		in.srv.RemovePrefix(prefixCIDR(p))
	case "adv":
		if wire {
			res["skip"] = true
			break
		}
		time.Sleep(time.Duration(dt) * time.Second)
	default:
		panic("unknown op " + op)
	}
	if _, ok := res["rec"]; !ok {
		res["rec"] = prefixRec(0, 0, false, false, 0, 0)
	}
	ras, failed := in.collect(op, ts)
	res["ras"] = ras
	res["nra"] = len(ras)
	res["fails"] = failed
	res["dsent"] = int(in.srv.GetStats()["ras_sent"] - before)
	res["dur"] = 0
	if !wire {
		res["dur"] = int(time.Since(ts) / time.Millisecond)
	}
	return res
}

func (in *inst) Observe() map[string]any {
	pf := []any{}
	l := in.prefixesNow()
	sort.Strings(l)
	for _, s := range l {
		pf = append(pf, s)
	}
	return map[string]any{"running": in.running(), "pf": pf}
}

func (in *inst) Probe() map[string]any { return nil }

// Fingerprint: the daemon's fields (counters left out), what the harness did, and - because the pending timers of the
// sender goroutines are invisible to reflection - a look-ahead: the instants of everything sent during the next
// 2*MaxRAInterval+1 seconds of virtual time. It is the last thing done with an instance (Explore discards it afterwards).
func (in *inst) Fingerprint() string {
	fp := fmt.Sprintf("run=%v started=%v starts=%d pf=%v", in.running(), in.started, in.starts, in.prefixesNow())
	mu := core.Field(in.srv, "mu").Addr().Interface().(*sync.RWMutex)
	mu.RLock()
	v := core.Field(in.srv, "prefixes")
	for i := 0; i < v.Len(); i++ {
		pc := v.Index(i).Interface().(sl.PrefixConfig)
		fp += fmt.Sprintf("|%s %v %v %d %d", pc.Prefix, pc.OnLink, pc.Autonomous, pc.ValidLifetime, pc.PreferredLifetime)
	}
	mu.RUnlock()
	if in.s.kind() == "hook" {
		base := time.Now()
		in.lc.take()
		time.Sleep(time.Duration(2*in.s.effMax()+1) * time.Second)
		synctest.Wait()
		sent, failed := in.lc.take()
		in.snk.drain()
		fp += " ahead:"
		for _, t := range sent {
			fp += fmt.Sprintf(" %d", t.Sub(base)/time.Millisecond)
		}
		for _, t := range failed {
			fp += fmt.Sprintf(" F%d", t.Sub(base)/time.Millisecond)
		}
	}
	return fp
}

// ---------------------------------------------------------------------------------------------------------------
// decoding (the trusted projection: bytes of one datagram -> fields)

func parseRA(b []byte, mac net.HardwareAddr) map[string]any {
	r := map[string]any{"wf": false, "typ": -1, "code": -1, "chl": -1, "m": false, "o": false, "rlt": -1, "sll": 0, "mtu": 0, "pios": []any{}, "rdnss": []any{},
		"rdnsslt": -1, "ndom": 0, "dnssllt": -1, "unk": 0, "len": len(b), "nmtu": 0, "nrdnss": 0, "ndnssl": 0, "optok": true}
	if len(b) < 16 {
		r["optok"] = false
		return r
	}
	r["typ"], r["code"], r["chl"] = int(b[0]), int(b[1]), int(b[4])
	r["m"], r["o"] = b[5]&0x80 != 0, b[5]&0x40 != 0
	r["rlt"] = int(binary.BigEndian.Uint16(b[6:8]))
	pios, rd := []any{}, []any{}
	ok := true
	o := b[16:]
	for len(o) > 0 {
		if len(o) < 2 || o[1] == 0 || int(o[1])*8 > len(o) {
			ok = false
			break
		}
		body := o[:int(o[1])*8]
		switch o[0] {
		case sl.OptSourceLinkAddr:
			if len(body) == 8 && string(body[2:8]) == string(mac) {
				r["sll"] = 1
			} else {
				r["sll"] = 2
			}
		case sl.OptMTU:
			r["nmtu"] = r["nmtu"].(int) + 1
			if len(body) != 8 {
				ok = false
			} else {
				r["mtu"] = int(binary.BigEndian.Uint32(body[4:8]))
			}
		case sl.OptPrefixInfo:
			if len(body) != 32 {
				ok = false
				break
			}
			p := 0
			pre := net.IP(body[16:32])
			for k := 1; k < 16; k++ {
				_, n, _ := net.ParseCIDR(prefixCIDR(k))
				if n.IP.Equal(pre) {
					p = k
				}
			}
			pios = append(pios, prefixRec(p, int(body[2]), body[3]&0x80 != 0, body[3]&0x40 != 0, binary.BigEndian.Uint32(body[4:8]), binary.BigEndian.Uint32(body[8:12])))
		case sl.OptRDNSS:
			r["nrdnss"] = r["nrdnss"].(int) + 1
			if len(body) < 24 || (len(body)-8)%16 != 0 {
				ok = false
				break
			}
			r["rdnsslt"] = int(binary.BigEndian.Uint32(body[4:8]))
			for i := 8; i < len(body); i += 16 {
				idx := 0
				for k := 1; k < 8; k++ {
					if net.ParseIP(dnsAddr(k)).Equal(net.IP(body[i : i+16])) {
						idx = k
					}
				}
				rd = append(rd, idx)
			}
		case sl.OptDNSSL:
			r["ndnssl"] = r["ndnssl"].(int) + 1
			r["dnssllt"] = int(binary.BigEndian.Uint32(body[4:8]))
			// domain names: sequences of labels, each ended by a zero label; zero padding after the last
			d, i, n := body[8:], 0, 0
			for i < len(d) && d[i] != 0 {
				for i < len(d) && d[i] != 0 {
					i += 1 + int(d[i])
				}
				if i >= len(d) {
					ok = false
					break
				}
				i++
				n++
			}
			r["ndom"] = n
		default:
			r["unk"] = r["unk"].(int) + 1
		}
		o = o[len(body):]
	}
	r["pios"], r["rdnss"] = pios, rd
	r["optok"] = ok
	r["wf"] = ok && b[0] == sl.ICMPv6RouterAdvertisement && b[1] == 0
	return r
}

var _ = reflect.TypeOf
