//go:build verif

//go:debug randseednop=0

package slaac

import (
	"encoding/json"
	"fmt"
	"math/rand"
	"os"
	"os/exec"
	"strings"
	"syscall"
	"testing"

	"verifharness/core"
)

// TestMain re-executes the test binary in a private network namespace (one veth pair, nothing else) so that router
// advertisements are put on a real link by the kernel without touching the machine's interfaces.
func TestMain(m *testing.M) {
	if os.Getenv("X15_NETNS") == "" {
		cmd := exec.Command("/proc/self/exe", os.Args[1:]...)
		cmd.Env = append(os.Environ(), "X15_NETNS=1")
		cmd.Stdout, cmd.Stderr, cmd.Stdin = os.Stdout, os.Stderr, os.Stdin
		cmd.SysProcAttr = &syscall.SysProcAttr{Unshareflags: syscall.CLONE_NEWNET}
		err := cmd.Run()
		if ee, ok := err.(*exec.ExitError); ok {
			os.Exit(ee.ExitCode())
		}
		if err != nil {
			fmt.Fprintf(os.Stderr, "cannot re-execute in a private network namespace (infrastructure failure, not a verdict): %v\n", err)
			os.Exit(3)
		}
		os.Exit(0)
	}
	if err := SetupNetns(); err != nil {
		fmt.Fprintf(os.Stderr, "cannot build the veth pair (infrastructure failure, not a verdict): %v\n", err)
		os.Exit(3)
	}
	os.Exit(m.Run())
}

type replayCase struct {
	ID     string         `json:"id"`
	System string         `json:"system"`
	Events []core.Event   `json:"events"`
	Cfg    map[string]any `json:"cfg"`
}

type replayFile struct {
	Property string       `json:"property"`
	Cases    []replayCase `json:"cases"`
}

type runStats struct {
	Systems     int                `json:"systems"`
	Nodes       int                `json:"nodes"`
	Edges       int                `json:"edges"`
	Chains      int                `json:"chains"`
	ChainEvents int                `json:"chain_events"`
	Closed      int                `json:"closed_systems"`
	Panics      []core.PanicRecord `json:"panics"`
	PerSystem   map[string][3]int  `json:"per_system"`
}

// Catalogue: configurations whose transition tables are extracted (until closed).
func Catalogue(tier string) []core.System {
	l := []core.System{
		// life cycle and timing: MinRAInterval = MaxRAInterval = 2 s (the only interval the documented range allows), stop, a second start
		&SSystem{name: "life-2", MinS: 2, MaxS: 2, Life: 1800, CfgP: []int{1}, Ops: []string{"start", "stop", "rs", "imm", "adv"}, Advs: []int{1}, MaxStarts: 2},
		// prefixes added and removed while the daemon runs
		&SSystem{name: "pfx-3", MinS: 3, MaxS: 3, Life: 600, CfgP: []int{1}, PIdx: []int{2, 3}, Ops: []string{"start", "addp", "rmp", "imm", "adv"}, Advs: []int{1}, MaxStarts: 1},
		// configuration variants: flags, MTU, router lifetime 0 (`not a default router`), DNS options, default intervals
		&SSystem{name: "cfg-managed", Hop: true, Managed: true, Other: true, MTU: 1492, Life: 9000, CfgP: []int{1, 2}, DNS: 2, Dom: 2, Ops: []string{"start", "rs", "imm", "stop"}, MaxStarts: 1},
		&SSystem{name: "cfg-nodefault", Hop: true, Life: 0, MTU: 0, CfgP: []int{}, DNS: 1, Dom: 1, Ops: []string{"start", "rs", "imm", "stop"}, MaxStarts: 1},
		&SSystem{name: "cfg-defaults", Hop: true, Other: true, Life: 65535, MTU: 9000, CfgP: []int{4}, Ops: []string{"start", "rs", "imm", "stop"}, MaxStarts: 1},
		// the real Start / receiveLoop / Stop in real time, real Router Solicitations from the link
		&SSystem{name: "wire-real", Kind: "wire", Hop: true, ImmEarly: true, Life: 1800, MTU: 1500, CfgP: []int{1}, DNS: 1, Ops: []string{"start", "rs", "imm", "stop"}, MaxStarts: 2},
	}
	if tier == "thorough" {
		l = append(l,
			&SSystem{name: "life-3", MinS: 3, MaxS: 3, Life: 1800, CfgP: []int{1}, Ops: []string{"start", "stop", "rs", "imm", "adv"}, Advs: []int{1, 2}, MaxStarts: 3},
			&SSystem{name: "pfx-2", MinS: 2, MaxS: 2, Life: 600, CfgP: []int{1, 2}, PIdx: []int{3}, Ops: []string{"start", "stop", "addp", "rmp", "imm", "adv"}, Advs: []int{1}, MaxStarts: 2},
			&SSystem{name: "cfg-other", Hop: true, Other: true, Life: 1, MTU: 1280, CfgP: []int{1, 2, 3}, DNS: 3, Dom: 3, Ops: []string{"start", "rs", "imm", "stop"}, MaxStarts: 1},
		)
	}
	return l
}

// ChainCatalogue: configurations driven by long seeded random sequences (intervals really drawn at random).
func ChainCatalogue() []core.System {
	return []core.System{
		&SSystem{name: "rnd-a", MinS: 2, MaxS: 5, Life: 1800, MTU: 1500, CfgP: []int{1}, PIdx: []int{2, 3}, DNS: 1, Dom: 1,
			Ops: []string{"start", "stop", "rs", "imm", "addp", "rmp", "adv"}, Advs: []int{1, 2, 7, 11}, MaxStarts: 4},
		&SSystem{name: "rnd-b", MinS: 3, MaxS: 4, Managed: true, Life: 300, CfgP: []int{1, 2}, PIdx: []int{3},
			Ops: []string{"start", "rs", "imm", "addp", "rmp", "adv"}, Advs: []int{1, 3, 9}, MaxStarts: 1},
		// the default intervals (`Default intervals per RFC 4861`: 200 s .. 600 s)
		&SSystem{name: "rnd-default", Life: 1800, CfgP: []int{1}, Ops: []string{"start", "stop", "rs", "adv"}, Advs: []int{100, 250, 700}, MaxStarts: 3},
	}
}

func find(name string) core.System {
	for _, s := range append(Catalogue("thorough"), ChainCatalogue()...) {
		if s.Name() == name {
			return s
		}
	}
	return nil
}

func randomChain(sys core.System, rng *rand.Rand, n int) []core.Event {
	evs := sys.Events()
	out := []core.Event{mk("start", 0, 0, 0)}
	for len(out) < n {
		out = append(out, evs[rng.Intn(len(evs))])
	}
	return out
}

func checkInfra(t *testing.T) {
	if v := infraErr.Load(); v != nil {
		t.Fatalf("infrastructure failure, not a verdict: %v", v)
	}
}

func TestExplore(t *testing.T) {
	theT = t
	out := core.OutDir()
	if rf := os.Getenv("VERIF_REPLAY"); rf != "" {
		replay(t, rf, out)
		checkInfra(t)
		return
	}
	tier := core.Tier()
	seed := core.Seed()
	maxNodes := 600
	nchains, chainLen := 6, 80
	if tier == "thorough" {
		maxNodes = 3000
		nchains, chainLen = 30, 200
	}
	bundle := &core.Bundle{}
	st := runStats{PerSystem: map[string][3]int{}}
	for _, sys := range Catalogue(tier) {
		if only := os.Getenv("VERIF_ONLY"); only != "" && only != sys.Name() {
			continue
		}
		// bubbles strictly one after the other (go1.25.0 bubbles must not overlap)
		tab, panics, err := core.Explore(sys, core.ExploreOptions{MaxNodes: maxNodes, AdequacySample: 10, Seed: seed, Workers: 1})
		if err != nil {
			t.Fatalf("explore %s: %v", sys.Name(), err)
		}
		st.Panics = append(st.Panics, panics...)
		bundle.Systems = append(bundle.Systems, tab)
		ne := 0
		for _, es := range tab.Edges {
			ne += len(es)
		}
		c := 0
		if tab.Closed {
			c = 1
			st.Closed++
		}
		st.PerSystem[sys.Name()] = [3]int{len(tab.Nodes), ne, c}
		st.Systems++
		st.Nodes += len(tab.Nodes)
		st.Edges += ne
	}
	rng := rand.New(rand.NewSource(seed))
	for _, sys := range ChainCatalogue() {
		if only := os.Getenv("VERIF_ONLY"); only != "" && only != sys.Name() {
			continue
		}
		for c := 0; c < nchains; c++ {
			seqv := randomChain(sys, rng, chainLen)
			tab, pr := core.Chain(sys, fmt.Sprintf("%s#%d", sys.Name(), c), seqv, false)
			if pr != nil {
				st.Panics = append(st.Panics, *pr)
				continue
			}
			bundle.Systems = append(bundle.Systems, tab)
			st.Chains++
			st.ChainEvents += len(seqv)
		}
	}
	// histories found by TLC on the implementation-shaped design spec, executed on the real code
	if xf := os.Getenv("VERIF_EXTRA_CASES"); xf != "" {
		b, err := os.ReadFile(xf)
		if err != nil {
			t.Fatal(err)
		}
		var rf replayFile
		if err := json.Unmarshal(b, &rf); err != nil {
			t.Fatal(err)
		}
		for _, c := range rf.Cases {
			sys := fromCfg(c.System, c.Cfg)
			if sys == nil {
				t.Fatalf("extra case %s: no configuration", c.ID)
			}
			evs := clean(c.Events)
			tab, pr := core.Chain(sys, c.System+"#"+c.ID, evs, false)
			if pr != nil {
				st.Panics = append(st.Panics, *pr)
				continue
			}
			bundle.Systems = append(bundle.Systems, tab)
			st.Chains++
			st.ChainEvents += len(evs)
		}
	}
	checkInfra(t)
	if err := core.WriteJSON(out, "bundle.json", bundle); err != nil {
		t.Fatal(err)
	}
	if err := core.WriteJSON(out, "stats.json", st); err != nil {
		t.Fatal(err)
	}
}

// clean keeps only the alphabet part of recorded events (results are observed afresh).
func clean(in []core.Event) []core.Event {
	evs := make([]core.Event, 0, len(in))
	for _, e := range in {
		evs = append(evs, mk(fmt.Sprint(e["op"]), toInt(e["p"]), toInt(e["v"]), toInt(e["dt"])))
	}
	return evs
}

func replay(t *testing.T, file, out string) {
	b, err := os.ReadFile(file)
	if err != nil {
		t.Fatal(err)
	}
	var rf replayFile
	if err := json.Unmarshal(b, &rf); err != nil {
		t.Fatal(err)
	}
	st := runStats{PerSystem: map[string][3]int{}}
	bundle := &core.Bundle{}
	for _, c := range rf.Cases {
		name := c.System
		if i := strings.IndexByte(name, '#'); i >= 0 {
			name = name[:i]
		}
		var sys core.System
		if s := fromCfg(name, c.Cfg); s != nil {
			sys = s
		} else {
			sys = find(name)
		}
		if sys == nil {
			t.Fatalf("unknown system %q", c.System)
		}
		evs := clean(c.Events)
		tab, pr := core.Chain(sys, name+"#"+c.ID, evs, false)
		if pr != nil {
			st.Panics = append(st.Panics, *pr)
			continue
		}
		bundle.Systems = append(bundle.Systems, tab)
		st.Chains++
		st.ChainEvents += len(evs)
	}
	if err := core.WriteJSON(out, "bundle.json", bundle); err != nil {
		t.Fatal(err)
	}
	core.WriteJSON(out, "stats.json", st)
}
