//go:build verif

package keepalive

import (
	"encoding/json"
	"fmt"
	"math/rand"
	"os"
	"os/exec"
	"path/filepath"
	"runtime"
	"strconv"
	"strings"
	"sync"
	"testing"

	"verifharness/core"
)

type replayCase struct {
	ID     string         `json:"id"`
	System string         `json:"system"`
	Events []core.Event   `json:"events"`
	Cfg    map[string]any `json:"cfg"`
}

type replayFile struct {
	Property string       `json:"property"`
	Cases    []replayCase `json:"cases"`
}

type runStats struct {
	Systems     int                `json:"systems"`
	Nodes       int                `json:"nodes"`
	Edges       int                `json:"edges"`
	Chains      int                `json:"chains"`
	ChainEvents int                `json:"chain_events"`
	Closed      int                `json:"closed_systems"`
	Panics      []core.PanicRecord `json:"panics"`
	PerSystem   map[string][3]int  `json:"per_system"`
}

// --- alphabets -------------------------------------------------------------------------------

// every event carries the same fields (TLC reads records)
func kev(op string, kv ...any) core.Event {
	e := core.Event{"op": op, "s": 0, "w": "", "a": 0}
	for i := 0; i+1 < len(kv); i += 2 {
		e[kv[i].(string)] = kv[i+1]
	}
	return e
}

var (
	evStart = kev("start")
	evStop  = kev("stop")
	evAdv   = kev("adv")
	evDown  = kev("down")
	evUp    = kev("up")
)

func evAct(s int) core.Event   { return kev("act", "s", s) }
func evReg(s int) core.Event   { return kev("reg", "s", s) }
func evUnreg(s int) core.Event { return kev("unreg", "s", s) }
func evReply(s int, w string, a int) core.Event {
	return kev("reply", "s", s, "w", w, "a", a)
}

// time constants (ms): harness actions happen at phase Interval/2, so a pending request is 5 s or 15 s old
// when a reply can arrive and 10 s / 20 s old at a tick; idleness is 5 s / 15 s / ... at a tick. None of
// the thresholds below coincides with one of those instants.
const (
	ivl     = 10000
	toStd   = 7000  // a request unanswered at the next tick has timed out
	toLong  = 16000 // Timeout > Interval: it times out at the second tick after it was sent
	idleThr = 12000
)

func ska(name string, pre bool, timeout, maxfail int, al ...core.Event) *KSystem {
	return &KSystem{name: name, Kind: "ska", N: 1, Prestarted: pre, Interval: ivl, Timeout: timeout, Idle: idleThr, MaxFail: maxfail, Alphabet: al}
}

func mgr(name string, n, prereg int, pre bool, timeout, maxfail int, al ...core.Event) *KSystem {
	return &KSystem{name: name, Kind: "mgr", N: n, Prereg: prereg, Prestarted: pre, Interval: ivl, Timeout: timeout, Idle: idleThr, MaxFail: maxfail, Alphabet: al}
}

// Catalogue: the configurations whose transition tables are extracted.
func Catalogue(tier string) []core.System {
	mf := 2
	if tier == "thorough" {
		mf = 3
	}
	l := []core.System{
		// counting, replies, activity
		ska("ska-std", true, toStd, mf, evAdv, evReply(1, "match", 0), evReply(1, "stale", 0), evReply(1, "match", 1), evAct(1)),
		// Timeout > Interval: one request outstanding over two ticks
		ska("ska-long", true, toLong, mf, evAdv, evReply(1, "match", 0), evReply(1, "stale", 0), evAct(1)),
		// life cycle: start / stop / restart
		ska("ska-life", false, toStd, mf, evStart, evStop, evAdv, evReply(1, "match", 0)),
		// composition with the LCP automaton leaving and re-entering Opened; looped-back replies
		&KSystem{name: "ska-lcp", Kind: "ska", N: 1, Prestarted: true, Interval: ivl, Timeout: toStd, Idle: idleThr, MaxFail: mf, MaxDepth: 7,
			Alphabet: []core.Event{evAdv, evReply(1, "match", 0), evReply(1, "loop", 0), evDown, evUp}},
		// the manager: two sessions, one registered from the start
		mgr("mgr-std", 2, 1, true, toStd, mf, evAdv, evReply(1, "match", 0), evReply(1, "stale", 0), evReply(2, "match", 0), evAct(1), evReg(2), evUnreg(1)),
		mgr("mgr-long", 1, 1, true, toLong, mf, evAdv, evReply(1, "match", 0), evReply(1, "stale", 0), evAct(1)),
		mgr("mgr-life", 1, 0, false, toStd, mf, evStart, evStop, evAdv, evReg(1), evUnreg(1), evReply(1, "match", 0)),
	}
	if tier == "thorough" {
		l = append(l,
			ska("ska-full", false, toStd, 2, evStart, evStop, evAdv, evReply(1, "match", 0), evReply(1, "stale", 1), evReply(1, "loop", 0), evAct(1)),
			mgr("mgr-two", 2, 2, true, toStd, 2, evAdv, evReply(1, "match", 0), evReply(2, "match", 0), evReply(2, "stale", 0), evAct(1), evAct(2), evUnreg(2), evReg(2)),
			mgr("mgr-one1", 1, 1, true, toStd, 1, evAdv, evReply(1, "match", 0), evReply(1, "loop", 0), evAct(1), evReg(1), evUnreg(1)),
		)
	}
	return l
}

// ChainCatalogue: configurations driven by long seeded random sequences (entries repeated = weight).
func ChainCatalogue() []core.System {
	var sk, mg []core.Event
	for i := 0; i < 8; i++ {
		sk = append(sk, evAdv)
	}
	sk = append(sk, evReply(1, "match", 0), evReply(1, "match", 0), evReply(1, "match", 1), evReply(1, "stale", 0), evReply(1, "stale", 1), evReply(1, "loop", 0),
		evAct(1), evDown, evUp, evUp)
	skl := append(append([]core.Event{}, sk...), evStop, evStart, evStart)
	for i := 0; i < 10; i++ {
		mg = append(mg, evAdv)
	}
	for s := 1; s <= 3; s++ {
		mg = append(mg, evReply(s, "match", 0), evReply(s, "match", 1), evReply(s, "stale", 0), evReply(s, "loop", 0), evAct(s), evReg(s), evReg(s), evUnreg(s))
	}
	mgl := append(append([]core.Event{}, mg...), evStop, evStart, evStart)
	return []core.System{
		ska("rnd-ska", true, toStd, 3, sk...),
		ska("rnd-skalong", true, toLong, 2, sk...),
		ska("rnd-skalife", false, toStd, 2, skl...),
		mgr("rnd-mgr", 3, 2, true, toStd, 3, mg...),
		mgr("rnd-mgrlong", 3, 3, true, toLong, 2, mg...),
		mgr("rnd-mgrlife", 3, 1, false, toStd, 2, mgl...),
	}
}

// ShapeSystems: the configurations the counterexamples of the implementation-shaped design spec
// (specs/KeepAlive/MC_shape_*_orig.cfg) are replayed on; same constants as those cfg files.
func ShapeSystems() []core.System {
	return []core.System{
		ska("shape-ska", false, toStd, 2),
		mgr("shape-mgr", 2, 1, true, toStd, 2),
		mgr("shape-mgrlong", 1, 1, true, toLong, 2),
	}
}

func find(name string) core.System {
	for _, s := range append(append(append(Catalogue("quick"), Catalogue("thorough")...), ChainCatalogue()...), ShapeSystems()...) {
		if s.Name() == name {
			return s
		}
	}
	return nil
}

// fromCfg builds a system from a replay case's cfg (a witness replays with the constants it was found with;
// design counterexamples carry their own).
func fromCfg(name string, cfg map[string]any) core.System {
	if cfg == nil {
		return nil
	}
	kind, _ := cfg["kind"].(string)
	if kind != "ska" && kind != "mgr" {
		return nil
	}
	pre, _ := cfg["prestarted"].(bool)
	return &KSystem{name: name, Kind: kind, N: toInt(cfg["n"]), Prereg: toInt(cfg["prereg"]), Prestarted: pre, Interval: toInt(cfg["interval"]),
		Timeout: toInt(cfg["timeout"]), Idle: toInt(cfg["idle"]), MaxFail: toInt(cfg["maxfail"])}
}

// --- jobs --------------------------------------------------------------------------------------

type job struct {
	name   string
	table  core.System
	chain  core.System
	c0, c1 int
	extra  bool
}

func jobs(tier string) []job {
	var l []job
	for _, s := range Catalogue(tier) {
		l = append(l, job{name: "table-" + s.Name(), table: s})
	}
	nchains, per := 8, 4
	if tier == "thorough" {
		nchains, per = 50, 10
	}
	for _, s := range ChainCatalogue() {
		for c := 0; c < nchains; c += per {
			l = append(l, job{name: fmt.Sprintf("chain-%s-%d", s.Name(), c), chain: s, c0: c, c1: min(c+per, nchains)})
		}
	}
	if os.Getenv("VERIF_EXTRA_CASES") != "" {
		l = append(l, job{name: "extra", extra: true})
	}
	return l
}

func chainLen(tier string) int {
	if tier == "thorough" {
		return 300
	}
	return 150
}

func addTable(bundle *core.Bundle, st *runStats, tab *core.Table) {
	bundle.Systems = append(bundle.Systems, tab)
	ne := 0
	for _, es := range tab.Edges {
		ne += len(es)
	}
	if strings.Contains(tab.Name, "#") {
		st.Chains++
		st.ChainEvents += len(tab.Nodes) - 1
		return
	}
	c := 0
	if tab.Closed {
		c = 1
		st.Closed++
	}
	st.PerSystem[tab.Name] = [3]int{len(tab.Nodes), ne, c}
	st.Systems++
	st.Nodes += len(tab.Nodes)
	st.Edges += ne
}

func runJob(t *testing.T, j job, tier string, seed int64, bundle *core.Bundle, st *runStats) {
	switch {
	case j.table != nil:
		maxNodes := 3000
		if tier == "thorough" {
			maxNodes = 8000
		}
		if v := os.Getenv("VERIF_MAXNODES"); v != "" {
			fmt.Sscan(v, &maxNodes)
		}
		// bubbles of one process run strictly one after the other (go1.25.0 synctest is not safe with bubbles on several Ps)
		opt := core.ExploreOptions{MaxNodes: maxNodes, AdequacySample: 12, Seed: seed, Workers: 1}
		if ks, ok := j.table.(*KSystem); ok && ks.MaxDepth > 0 {
			opt.MaxDepth = ks.MaxDepth
			if tier == "thorough" {
				opt.MaxDepth += 2
			}
		}
		tab, panics, err := core.Explore(j.table, opt)
		if err != nil {
			t.Fatalf("explore %s: %v", j.table.Name(), err)
		}
		st.Panics = append(st.Panics, panics...)
		addTable(bundle, st, tab)
	case j.chain != nil:
		evs := j.chain.Events()
		for c := j.c0; c < j.c1; c++ {
			rng := rand.New(rand.NewSource(seed*1000003 + int64(c)*7919 + int64(len(j.chain.Name()))))
			n := chainLen(tier)
			var seqv []core.Event
			if ks, ok := j.chain.(*KSystem); ok && !ks.Prestarted {
				seqv = append(seqv, evStart)
			}
			for len(seqv) < n {
				seqv = append(seqv, evs[rng.Intn(len(evs))])
			}
			tab, pr := core.Chain(j.chain, fmt.Sprintf("%s#%d", j.chain.Name(), c), seqv, false)
			if pr != nil { // the part of the chain before the panic is still judged
				st.Panics = append(st.Panics, *pr)
				if len(tab.Nodes) < 2 {
					continue
				}
			}
			addTable(bundle, st, tab)
		}
	case j.extra:
		b, err := os.ReadFile(os.Getenv("VERIF_EXTRA_CASES"))
		if err != nil {
			t.Fatal(err)
		}
		var rf replayFile
		if err := json.Unmarshal(b, &rf); err != nil {
			t.Fatal(err)
		}
		for _, c := range rf.Cases {
			sys := fromCfg(c.System, c.Cfg)
			if sys == nil {
				t.Fatalf("extra case %s: no configuration", c.ID)
			}
			tab, pr := core.Chain(sys, c.System+"#"+c.ID, c.Events, false)
			if pr != nil {
				st.Panics = append(st.Panics, *pr)
				continue
			}
			addTable(bundle, st, tab)
		}
	}
}

func TestExplore(t *testing.T) {
	theT = t
	defer func() {
		harnessErrs.Lock()
		defer harnessErrs.Unlock()
		if len(harnessErrs.l) > 0 {
			t.Fatalf("harness cannot represent the observed behaviour (infrastructure failure, not a verdict):\n%s", strings.Join(harnessErrs.l, "\n"))
		}
	}()
	out := core.OutDir()
	if rf := os.Getenv("VERIF_REPLAY"); rf != "" {
		replay(t, rf, out)
		return
	}
	tier, seed := core.Tier(), core.Seed()
	bundle := &core.Bundle{}
	st := runStats{PerSystem: map[string][3]int{}}
	all := jobs(tier)
	if only := os.Getenv("VERIF_JOB"); only != "" { // child process: one job
		for _, j := range all {
			if j.name == only {
				runJob(t, j, tier, seed, bundle, &st)
			}
		}
		if err := core.WriteJSON(out, "bundle.json", bundle); err != nil {
			t.Fatal(err)
		}
		core.WriteJSON(out, "stats.json", st)
		return
	}
	// parent: every job in its own process, several processes at a time
	par := max(2, min(8, runtime.NumCPU()/2))
	if v, err := strconv.Atoi(os.Getenv("VERIF_PAR")); err == nil && v > 0 {
		par = v
	}
	type result struct {
		b   core.Bundle
		s   runStats
		err string
	}
	results := make([]result, len(all))
	sem := make(chan struct{}, par)
	var wg sync.WaitGroup
	for i, j := range all {
		wg.Add(1)
		go func() {
			defer wg.Done()
			sem <- struct{}{}
			defer func() { <-sem }()
			jd := filepath.Join(out, "jobs", j.name)
			os.MkdirAll(jd, 0o755)
			cmd := exec.Command(os.Args[0], "-test.run", "^TestExplore$", "-test.count=1", "-test.timeout", "3000s")
			cmd.Env = append(os.Environ(), "VERIF_JOB="+j.name, "VERIF_OUT="+jd)
			o, err := cmd.CombinedOutput()
			if err != nil {
				results[i].err = fmt.Sprintf("job %s: %v\n%s", j.name, err, tail(string(o), 4000))
				return
			}
			for f, v := range map[string]any{"bundle.json": &results[i].b, "stats.json": &results[i].s} {
				b, err := os.ReadFile(filepath.Join(jd, f))
				if err == nil {
					err = json.Unmarshal(b, v)
				}
				if err != nil {
					results[i].err = fmt.Sprintf("job %s: %s: %v", j.name, f, err)
					return
				}
			}
		}()
	}
	wg.Wait()
	for i := range all {
		r := results[i]
		if r.err != "" {
			t.Fatal(r.err)
		}
		bundle.Systems = append(bundle.Systems, r.b.Systems...)
		st.Systems += r.s.Systems
		st.Nodes += r.s.Nodes
		st.Edges += r.s.Edges
		st.Chains += r.s.Chains
		st.ChainEvents += r.s.ChainEvents
		st.Closed += r.s.Closed
		st.Panics = append(st.Panics, r.s.Panics...)
		for k, v := range r.s.PerSystem {
			st.PerSystem[k] = v
		}
	}
	os.RemoveAll(filepath.Join(out, "jobs"))
	if err := core.WriteJSON(out, "bundle.json", bundle); err != nil {
		t.Fatal(err)
	}
	if err := core.WriteJSON(out, "stats.json", st); err != nil {
		t.Fatal(err)
	}
}

func tail(s string, n int) string {
	if len(s) > n {
		return s[len(s)-n:]
	}
	return s
}

func replay(t *testing.T, file, out string) {
	b, err := os.ReadFile(file)
	if err != nil {
		t.Fatal(err)
	}
	var rf replayFile
	if err := json.Unmarshal(b, &rf); err != nil {
		t.Fatal(err)
	}
	st := runStats{PerSystem: map[string][3]int{}}
	bundle := &core.Bundle{}
	for _, c := range rf.Cases {
		name := c.System
		if i := strings.IndexByte(name, '#'); i >= 0 {
			name = name[:i]
		}
		// the recorded constants win (a quick-tier witness replays identically in any tier)
		sys := fromCfg(name, c.Cfg)
		if sys == nil {
			sys = find(name)
		}
		if sys == nil {
			t.Fatalf("unknown system %q", c.System)
		}
		tab, pr := core.Chain(sys, name+"#"+c.ID, c.Events, false)
		if pr != nil {
			st.Panics = append(st.Panics, *pr)
			continue
		}
		addTable(bundle, &st, tab)
	}
	if err := core.WriteJSON(out, "bundle.json", bundle); err != nil {
		t.Fatal(err)
	}
	core.WriteJSON(out, "stats.json", st)
}
