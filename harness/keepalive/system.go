//go:build verif

// Package keepalive binds the KeepAlive contract (specs/KeepAlive, extra family X05) to the two real
// keep-alive components of pkg/pppoe/keepalive.go:
//
//   - kind "ska": pppoe.SessionKeepAlive composed with the real pppoe.LCPStateMachine. The harness is the
//     peer and the "caller" of the component: it negotiates LCP to Opened, sees every LCP packet the
//     automaton hands to its send callback (the Echo-Requests are the wire truth), and dispatches an
//     Echo-Reply the way lcp.go says it is meant to be ("Echo replies are handled by the keep-alive
//     mechanism"): LCPStateMachine.ReceivePacket, then SessionKeepAlive.OnEchoReply(identifier, data).
//   - kind "mgr": pppoe.KeepAliveManager with N sessions; the harness provides the sendEcho and
//     terminateSession callbacks (the wire truth) and plays the peer through ReceiveEchoReply.
//
// Both run inside a testing/synctest bubble: the tickers are the real time.NewTicker tickers driven by
// virtual time. Every harness action happens half an interval away from the ticks (the `start` step lasts
// Interval/2, `adv` lasts one Interval), so a tick never coincides with a harness action and every
// `adv` step of a running component contains exactly one tick.
package keepalive

import (
	"fmt"
	"net"
	"reflect"
	"sync"
	"testing"
	"testing/synctest"
	"time"

	"github.com/codelaboratoryltd/bng/pkg/pppoe"
	"go.uber.org/zap"

	"verifharness/core"
)

const Unit = time.Millisecond

var theT *testing.T

var harnessErrs struct {
	sync.Mutex
	l []string
}

func harnessFail(msg string) {
	harnessErrs.Lock()
	if len(harnessErrs.l) < 20 {
		harnessErrs.l = append(harnessErrs.l, msg)
	}
	harnessErrs.Unlock()
}

const (
	localMagic = 0x0A0B0C0D
	peerMagic  = 0x11223344
)

// KSystem is one configuration of a keep-alive component.
type KSystem struct {
	name       string
	Kind       string // "ska" | "mgr"
	N          int    // sessions (ska: 1)
	Prereg     int    // mgr: sessions 1..Prereg are registered by New()
	Prestarted bool   // New() performs Start() (and, ska, opens LCP)
	Interval   int    // ms
	Timeout    int    // ms
	Idle       int    // ms (IdleThreshold)
	MaxFail    int
	Alphabet   []core.Event
	MaxDepth   int
}

func (s *KSystem) Name() string { return s.name }
func (s *KSystem) Config() map[string]any {
	return map[string]any{"impl": s.name, "kind": s.Kind, "n": s.N, "prereg": s.Prereg, "prestarted": s.Prestarted,
		"interval": s.Interval, "timeout": s.Timeout, "idle": s.Idle, "maxfail": s.MaxFail, "nsubs": 0}
}
func (s *KSystem) Events() []core.Event { return s.Alphabet }
func (s *KSystem) Wrap(f func()) {
	synctest.Test(theT, func(t *testing.T) { f() })
}

func (s *KSystem) ival() time.Duration { return time.Duration(s.Interval) * Unit }
func (s *KSystem) failCap() int        { return s.MaxFail + 2 }
func (s *KSystem) ageCap() int         { return 3 * s.Interval }

func (s *KSystem) kaConfig() pppoe.KeepAliveConfig {
	return pppoe.KeepAliveConfig{Enabled: true, Interval: s.ival(), Timeout: time.Duration(s.Timeout) * Unit,
		MaxFailures: s.MaxFail, IdleThreshold: time.Duration(s.Idle) * Unit}
}

// wireEcho is one Echo-Request that really left the component (ska: handed to the LCP send callback;
// mgr: the sendEcho callback was invoked).
type wireEcho struct {
	id int  // raw identifier
	ok bool // well-formed Echo-Request carrying the local magic number, sent while LCP was Opened
}

type sess struct {
	obj  *pppoe.Session
	wire []wireEcho // echoes of the current step
	last int        // raw id of the last echo the peer has seen (-1 none)
	prev int        // the one before (-1 none)
	idc  uint8      // mgr: identifier counter of the harness' sendEcho callback
}

type kinst struct {
	s   *KSystem
	run string // fresh | running | stopped (what the harness asked for)

	// ska
	ka      *pppoe.SessionKeepAlive
	lcp     *pppoe.LCPStateMachine
	out     [][]byte // every LCP packet of the current step
	confID  int      // identifier and options of our latest Configure-Request
	confOpt []byte

	// mgr
	m     *pppoe.KeepAliveManager
	terms []int

	ss      []*sess
	started time.Time // instant of the last accepted Start (phase of the ticker)
	mu      sync.Mutex
}

func mac(b byte) net.HardwareAddr { return net.HardwareAddr{2, 0, 0, 0, 0, b} }

func (s *KSystem) New() core.Instance {
	in := &kinst{s: s, run: "fresh", confID: -1}
	for i := 1; i <= s.N; i++ {
		so, err := pppoe.NewSession(uint16(100+i), mac(byte(i)), mac(0xfe))
		if err != nil {
			panic(err)
		}
		in.ss = append(in.ss, &sess{obj: so, last: -1, prev: -1})
	}
	switch s.Kind {
	case "ska":
		cfg := pppoe.DefaultLCPConfig()
		cfg.MagicNumber = localMagic
		cfg.RestartTimer = 3 * time.Second
		l, err := pppoe.NewLCPStateMachine(cfg, in.lcpSend, zap.NewNop())
		if err != nil {
			panic(err)
		}
		in.lcp = l
		in.ka = pppoe.NewSessionKeepAlive(in.ss[0].obj, l, s.kaConfig(), zap.NewNop())
		// the link is up and LCP negotiated before the keep-alive is started (Prestarted or not)
		l.Open()
		in.openLCP()
		in.out = nil
	case "mgr":
		in.m = pppoe.NewKeepAliveManager(s.kaConfig(), zap.NewNop())
		in.m.SetSendEcho(func(so *pppoe.Session) uint8 {
			in.mu.Lock()
			defer in.mu.Unlock()
			x := in.byObj(so)
			if x == nil {
				harnessFail(in.s.name + ": sendEcho callback for an unknown session object")
				return 0
			}
			x.idc++
			x.wire = append(x.wire, wireEcho{id: int(x.idc), ok: true})
			return x.idc
		})
		in.m.SetTerminateSession(func(so *pppoe.Session, reason string) {
			in.mu.Lock()
			defer in.mu.Unlock()
			idx := 0
			for i, x := range in.ss {
				if x.obj == so {
					idx = i + 1
				}
			}
			in.terms = append(in.terms, idx)
		})
		for i := 1; i <= s.Prereg; i++ {
			in.m.RegisterSession(in.ss[i-1].obj)
		}
	default:
		panic("unknown kind " + s.Kind)
	}
	if s.Prestarted {
		in.start()
		time.Sleep(s.ival() / 2)
		synctest.Wait()
		in.endStep()
	}
	return in
}

func (in *kinst) byObj(so *pppoe.Session) *sess {
	for _, x := range in.ss {
		if x.obj == so {
			return x
		}
	}
	return nil
}

func (in *kinst) start() {
	if in.s.Kind == "ska" {
		in.ka.Start()
	} else {
		in.m.Start()
	}
	in.run = "running"
	in.started = time.Now()
}

func (in *kinst) stop() {
	if in.s.Kind == "ska" {
		in.ka.Stop()
	} else {
		in.m.Stop()
	}
	in.run = "stopped"
}

// --- LCP (ska) -------------------------------------------------------------------------------------

func lcpState(l *pppoe.LCPStateMachine) int { return int(core.Field(l, "state").Int()) }
func lcpIdent(l *pppoe.LCPStateMachine) int { return int(core.Field(l, "identifier").Uint()) }

// lcpSend is the automaton's send callback. It runs with the automaton's lock held, so the state is read
// by reflection, never through the locking accessors.
func (in *kinst) lcpSend(proto uint16, data []byte) {
	b := append([]byte{}, data...)
	in.out = append(in.out, b)
	if proto != pppoe.ProtocolLCP || len(b) < 4 {
		return
	}
	switch b[0] {
	case pppoe.LCPCodeConfigRequest:
		in.confID = int(b[1])
		in.confOpt = append([]byte{}, b[4:]...)
	case pppoe.LCPCodeEchoRequest:
		ok := len(b) == 8 && int(b[2])<<8|int(b[3]) == 8 &&
			uint32(b[4])<<24|uint32(b[5])<<16|uint32(b[6])<<8|uint32(b[7]) == localMagic &&
			lcpState(in.lcp) == int(pppoe.LCPStateOpened)
		in.ss[0].wire = append(in.ss[0].wire, wireEcho{id: int(b[1]), ok: ok})
	}
}

func packet(code, id byte, data []byte) []byte {
	b := make([]byte, 4+len(data))
	b[0], b[1] = code, id
	b[2], b[3] = byte((4+len(data))>>8), byte(4+len(data))
	copy(b[4:], data)
	return b
}

func be32(v uint32) []byte { return []byte{byte(v >> 24), byte(v >> 16), byte(v >> 8), byte(v)} }

// openLCP brings the automaton from Initial/Starting (Open already issued) to Opened: lower layer up,
// the peer's Configure-Request (MRU 1492, its magic number) is acknowledged, the peer acknowledges ours.
func (in *kinst) openLCP() {
	in.confID = -1
	in.lcp.Up()
	if in.confID < 0 {
		panic("openLCP: no Configure-Request after Up in state " + in.lcp.GetState().String())
	}
	req := append([]byte{1, 4, 0x05, 0xd4, 5, 6}, be32(peerMagic)...)
	if err := in.lcp.ReceivePacket(packet(pppoe.LCPCodeConfigRequest, 0x51, req)); err != nil {
		panic(err)
	}
	if err := in.lcp.ReceivePacket(packet(pppoe.LCPCodeConfigAck, byte(in.confID), in.confOpt)); err != nil {
		panic(err)
	}
	if !in.lcp.IsOpened() {
		panic("openLCP: automaton is " + in.lcp.GetState().String())
	}
}

// --- observation -----------------------------------------------------------------------------------

func capInt(v, c int) int {
	if v > c {
		return c
	}
	return v
}

func msSince(t time.Time, c int) int {
	if t.IsZero() {
		return c
	}
	d := time.Since(t)
	if d%Unit != 0 {
		harnessFail(fmt.Sprintf("instant not on the millisecond grid: %v", d))
	}
	return capInt(int(d/Unit), c)
}

// mgrState returns the manager's record of session i (1-based) or nil.
func (in *kinst) mgrState(i int) *pppoe.KeepAliveState {
	mv := core.Field(in.m, "states")
	v := mv.MapIndex(reflect.ValueOf(in.ss[i-1].obj.ID))
	if !v.IsValid() || v.IsNil() {
		return nil
	}
	return v.Interface().(*pppoe.KeepAliveState)
}

// rel expresses a raw identifier in the frame of base (the identifier counter at the start of the step).
func rel(id, base int) int {
	if id < 0 {
		return -1
	}
	return (id - base) & 0xff
}

type sessObs struct {
	mon, pend, dead     bool
	fails, lat, seen    int
	pidRaw, ageMs       int
	lastSentThisStep    bool
}

func (in *kinst) observe(i int, stepStart time.Time) sessObs {
	var o sessObs
	o.pidRaw = -1
	if in.s.Kind == "ska" {
		o.mon = true
		o.fails = capInt(in.ka.GetFailures(), in.s.failCap())
		o.dead = in.ka.IsDead()
		o.lat = capInt(int(in.ka.GetLatency()/Unit), in.s.ageCap())
		o.pend = core.Field(in.ka, "pendingEcho").Bool()
		if o.pend {
			o.pidRaw = int(core.Field(in.ka, "pendingID").Uint())
			o.ageMs = msSince(core.Field(in.ka, "lastEchoSent").Interface().(time.Time), in.s.ageCap())
		}
		o.seen = msSince(in.ss[0].obj.LastActivity, in.s.Idle)
		return o
	}
	f, lat, seen := in.m.GetSessionHealth(in.ss[i-1].obj.ID)
	o.mon = !seen.IsZero()
	if !o.mon {
		return o
	}
	o.fails = capInt(f, in.s.failCap())
	o.lat = capInt(int(lat/Unit), in.s.ageCap())
	o.seen = msSince(seen, in.s.Idle)
	if st := in.mgrState(i); st != nil {
		o.pend = st.PendingEcho
		if o.pend {
			o.pidRaw = int(st.PendingEchoID)
			o.ageMs = msSince(st.LastEchoSent, in.s.ageCap())
		}
		o.lastSentThisStep = !st.LastEchoSent.IsZero() && st.LastEchoSent.After(stepStart)
	}
	return o
}

func (in *kinst) opened() bool {
	if in.s.Kind != "ska" {
		return true
	}
	return in.lcp.IsOpened()
}

// base is the identifier counter the ids of session i are expressed relative to.
func (in *kinst) base(i int) int {
	if in.s.Kind == "ska" {
		return lcpIdent(in.lcp)
	}
	return int(in.ss[i-1].idc)
}

// endStep folds the echoes of the step into what the peer remembers.
func (in *kinst) endStep() {
	in.mu.Lock()
	defer in.mu.Unlock()
	for _, x := range in.ss {
		for _, w := range x.wire {
			x.prev, x.last = x.last, w.id
		}
		x.wire = nil
	}
	in.out = nil
	in.terms = nil
}

func toInt(v any) int {
	switch x := v.(type) {
	case int:
		return x
	case int64:
		return int(x)
	case float64:
		return int(x)
	}
	return 0
}

func str(v any) string {
	s, _ := v.(string)
	return s
}

func (in *kinst) stats() [4]int {
	if in.s.Kind != "mgr" {
		return [4]int{}
	}
	st := in.m.GetStats()
	return [4]int{int(st["echo_requests_sent"]), int(st["echo_replies_recv"]), int(st["echo_timeouts"]), int(st["sessions_killed"])}
}

func (in *kinst) Apply(ev core.Event) map[string]any {
	op := str(ev["op"])
	si := toInt(ev["s"])
	start := time.Now()
	bases := make([]int, in.s.N)
	for i := 1; i <= in.s.N; i++ {
		bases[i-1] = in.base(i)
	}
	st0 := in.stats()
	acc := true
	rid, loop := -1, false
	needSess := func() bool {
		if si < 1 || si > in.s.N {
			acc = false
			return false
		}
		return true
	}
	switch op {
	case "start":
		if in.run == "running" {
			acc = false
			break
		}
		in.start()
		time.Sleep(in.s.ival() / 2)
	case "stop":
		if in.run != "running" {
			acc = false
			break
		}
		in.stop()
	case "adv":
		time.Sleep(in.s.ival())
	case "act":
		if !needSess() {
			break
		}
		if in.s.Kind == "ska" {
			in.ss[0].obj.UpdateActivity()
		} else {
			in.m.UpdateActivity(in.ss[si-1].obj.ID)
		}
	case "reg":
		if in.s.Kind != "mgr" || !needSess() {
			acc = false
			break
		}
		in.m.RegisterSession(in.ss[si-1].obj)
	case "unreg":
		if in.s.Kind != "mgr" || !needSess() {
			acc = false
			break
		}
		in.m.UnregisterSession(in.ss[si-1].obj.ID)
	case "down":
		if in.s.Kind != "ska" || !in.lcp.IsOpened() {
			acc = false
			break
		}
		in.lcp.Down()
	case "up":
		if in.s.Kind != "ska" || in.lcp.IsOpened() {
			acc = false
			break
		}
		if lcpState(in.lcp) == int(pppoe.LCPStateInitial) {
			in.lcp.Open()
		}
		in.openLCP()
		// a new link: the peer does not answer requests of the old one
		in.ss[0].last, in.ss[0].prev = -1, -1
	case "reply":
		if !needSess() {
			break
		}
		x := in.ss[si-1]
		w := str(ev["w"])
		raw := x.last
		if raw < 0 && in.s.Kind == "mgr" {
			// nothing ever reached the peer: the reply names what the manager believes it sent
			if st := in.mgrState(si); st != nil && st.PendingEcho {
				raw = int(st.PendingEchoID)
			}
		}
		if raw < 0 {
			// the peer has seen no request it could answer: an unsolicited reply (identifier 0 / the automaton's current one)
			if in.s.Kind == "mgr" {
				raw = 0
			} else {
				raw = lcpIdent(in.lcp)
			}
		}
		magic := uint32(peerMagic)
		switch w {
		case "match":
		case "loop":
			magic = localMagic
			loop = true
		case "stale":
			if x.prev >= 0 && x.prev != raw {
				raw = x.prev
			} else {
				raw = (raw + 100) & 0xff
			}
		default:
			panic("unknown reply kind " + w)
		}
		rid = raw
		if toInt(ev["a"]) == 1 { // the frame is session traffic: the caller marks the session active first
			if in.s.Kind == "ska" {
				x.obj.UpdateActivity()
			} else {
				in.m.UpdateActivity(x.obj.ID)
			}
		}
		if in.s.Kind == "ska" {
			pkt := packet(pppoe.LCPCodeEchoReply, byte(raw), be32(magic))
			if err := in.lcp.ReceivePacket(pkt); err != nil {
				panic(err)
			}
			in.ka.OnEchoReply(byte(raw), pkt[4:])
		} else {
			in.m.ReceiveEchoReply(x.obj.ID, byte(raw), magic)
		}
	default:
		panic("unknown op " + op)
	}
	synctest.Wait()
	dt := time.Since(start)
	if dt%Unit != 0 {
		harnessFail(fmt.Sprintf("%s: step %s took %v of virtual time", in.s.name, op, dt))
	}
	st1 := in.stats()
	in.mu.Lock()
	ss := make([]map[string]any, in.s.N)
	for i := 1; i <= in.s.N; i++ {
		x := in.ss[i-1]
		o := in.observe(i, start)
		cb, cbid, wok := len(x.wire), -1, true
		for _, w := range x.wire {
			cbid = rel(w.id, bases[i-1])
			wok = wok && w.ok
		}
		iss := cb
		if in.s.Kind == "mgr" { // what the manager itself accounts as sent
			iss = 0
			if o.lastSentThisStep {
				iss = 1
			}
		}
		ss[i-1] = map[string]any{"mon": o.mon, "fails": o.fails, "pend": o.pend, "pid": rel(o.pidRaw, bases[i-1]), "lat": o.lat,
			"dead": o.dead, "iss": iss, "cb": cb, "cbid": cbid, "wok": wok, "seen": o.seen,
			"sh": (in.base(i) - bases[i-1]) & 0xff}
	}
	terms := append([]int{}, in.terms...)
	other := 0
	for _, p := range in.out {
		if len(p) >= 1 && p[0] != pppoe.LCPCodeEchoRequest {
			other++
		}
	}
	in.mu.Unlock()
	ridRel := -1
	if rid >= 0 {
		ridRel = rel(rid, bases[si-1])
	}
	in.endStep()
	return map[string]any{"acc": acc, "dt": int(dt / Unit), "ss": ss, "terms": terms,
		"st": map[string]any{"req": st1[0] - st0[0], "rep": st1[1] - st0[1], "to": st1[2] - st0[2], "kill": st1[3] - st0[3]},
		"rid": ridRel, "loop": loop, "run": in.run, "opened": in.opened(), "other": other}
}

func (in *kinst) Observe() map[string]any {
	ss := make([]map[string]any, in.s.N)
	for i := 1; i <= in.s.N; i++ {
		o := in.observe(i, time.Now())
		ss[i-1] = map[string]any{"mon": o.mon, "fails": o.fails, "pend": o.pend, "dead": o.dead, "lat": o.lat}
	}
	return map[string]any{"kind": in.s.Kind, "run": in.run, "opened": in.opened(), "ss": ss}
}

var kaFP = &core.FPOptions{SkipFields: map[string]bool{
	// relative digests of these are added by Fingerprint()
	"identifier": true, "lastIdentifier": true, "pendingID": true, "PendingEchoID": true,
	"latency": true, "Latency": true, "failures": true, "Failures": true,
	// random per object, never read by the component
	"SessionID": true, "MagicNumber": true,
	// monotone statistics nothing reads back (reported as per-step deltas)
	"echoRequestsSent": true, "echoRepliesRecv": true, "echoTimeouts": true, "sessionsKilled": true,
}}

func (in *kinst) Fingerprint() string {
	var obj any = in.m
	if in.s.Kind == "ska" {
		obj = in.ka
	}
	fp := core.Fingerprint(obj, kaFP) + "|run=" + in.run
	if in.run == "running" {
		fp += fmt.Sprintf("|phase=%d", int(time.Since(in.started)/Unit)%in.s.Interval)
	}
	for i := 1; i <= in.s.N; i++ {
		x := in.ss[i-1]
		o := in.observe(i, time.Now())
		b := in.base(i)
		fp += fmt.Sprintf("|s%d:mon=%t,f=%d,p=%t,pid=%d,age=%d,idle=%d,lat=%d,dead=%t,last=%d,prev=%d", i, o.mon, o.fails, o.pend, rel(o.pidRaw, b), o.ageMs,
			o.seen, o.lat, o.dead, rel(x.last, b), rel(x.prev, b))
	}
	return fp
}

func (in *kinst) Probe() map[string]any { return nil }

func (in *kinst) Close() {
	// whatever the component believes: make sure no loop goroutine outlives the bubble
	func() {
		defer func() { recover() }()
		if in.run == "running" {
			in.stop()
		}
	}()
	var obj any = in.m
	if in.s.Kind == "ska" {
		obj = in.ka
	}
	func() {
		defer func() { recover() }()
		core.Field(obj, "stopCh").Close()
	}()
	synctest.Wait()
}
